// Demonstration for property C04 (belongs in the root directory of the repository, package weshnet).
//
// metadataStoreIndex.UpdateIndex walks log.GetEntries(), the insertion-ordered entry map of
// go-ipfs-log, from the end. For entries appended locally that is "newest first". When the same
// entries reach a log through Join (what go-orbit-db does both when it loads a store from its
// saved heads after a reopen and when the replicator delivers a fetched batch), Join inserts the
// batch heads-first, so the walk is oldest first and the OLDEST event about a contact wins.
//
// The test writes {OutgoingEnqueued, OutgoingSent} for one contact (after the entries the account
// group writes when it is opened), checks that the writer
// reports the contact as Added, then builds a second log holding exactly the same entries
// the way basestore.Load / the replicator build it (NewFromEntryHash on the head + Join) and
// indexes it with a fresh index: it must report Added too.
//
// Unchanged sources: FAIL (second replica reports ToRequest). With fix.diff applied: PASS.
package weshnet

import (
	"context"
	crand "crypto/rand"
	"sort"
	"testing"
	"time"

	"github.com/libp2p/go-libp2p/core/crypto"
	"github.com/stretchr/testify/require"

	ipfslog "berty.tech/go-ipfs-log"
	"berty.tech/weshnet/v2/pkg/protocoltypes"
)

func TestC04IndexStateDoesNotDependOnArrival(t *testing.T) {
	ctx, cancel := context.WithTimeout(context.Background(), 90*time.Second)
	defer cancel()

	peers, _, cleanup := CreatePeersWithGroupTest(ctx, t, t.TempDir(), 1, 1)
	defer cleanup()

	accountGC, err := peers[0].DB.openAccountGroup(ctx, nil, ipfsAPIUsingMockNet(ctx, t))
	require.NoError(t, err)

	meta := accountGC.MetadataStore()

	_, contactPK, err := crypto.GenerateEd25519Key(crand.Reader)
	require.NoError(t, err)

	contactRawPK, err := contactPK.Raw()
	require.NoError(t, err)

	seed := make([]byte, protocoltypes.RendezvousSeedLength)
	_, err = crand.Read(seed)
	require.NoError(t, err)

	// history: enqueue a request to the contact, then mark it as sent
	_, err = meta.ContactRequestOutgoingEnqueue(ctx, &protocoltypes.ShareableContact{Pk: contactRawPK, PublicRendezvousSeed: seed}, []byte("own metadata"))
	require.NoError(t, err)

	_, err = meta.ContactRequestOutgoingSent(ctx, contactPK)
	require.NoError(t, err)

	writerContact, ok := meta.ListContacts()[string(contactRawPK)]
	require.True(t, ok)
	require.Equal(t, protocoltypes.ContactState_ContactStateAdded, writerContact.state, "writer's own view")

	// second replica of the same log: both entries arrive in one batch
	writerLog := meta.OpLog()
	heads := writerLog.Heads().Slice()
	require.Len(t, heads, 1)

	logOptions := &ipfslog.LogOptions{
		ID:               writerLog.GetID(),
		AccessController: meta.AccessController(),
		SortFn:           meta.SortFn(),
		IO:               meta.IO(),
	}

	amount := -1
	fetched, err := ipfslog.NewFromEntryHash(ctx, meta.IPFS(), meta.Identity(), heads[0].GetHash(), logOptions, &ipfslog.FetchOptions{Length: &amount})
	require.NoError(t, err)

	replicaLog, err := ipfslog.NewLog(meta.IPFS(), meta.Identity(), logOptions)
	require.NoError(t, err)

	_, err = replicaLog.Join(fetched, -1)
	require.NoError(t, err)

	// same set of entries on both sides
	require.Equal(t, sortedKeys(writerLog), sortedKeys(replicaLog))
	require.Equal(t, writerLog.Len(), replicaLog.Len())

	replicaIndex := newMetadataIndex(ctx, meta.group, meta.memberDevice, meta.secretStore)(nil).(*metadataStoreIndex)
	require.NoError(t, replicaIndex.UpdateIndex(replicaLog, nil))

	replicaContact, ok := replicaIndex.listContacts()[string(contactRawPK)]
	require.True(t, ok)
	require.Equal(t, writerContact.state, replicaContact.state,
		"two logs with the same entries must index to the same contact state (writer: %s, replica: %s)", writerContact.state, replicaContact.state)

	// and the writer itself, re-indexing its own log from scratch, agrees as well
	writerIndex := newMetadataIndex(ctx, meta.group, meta.memberDevice, meta.secretStore)(nil).(*metadataStoreIndex)
	require.NoError(t, writerIndex.UpdateIndex(writerLog, nil))
	require.Equal(t, protocoltypes.ContactState_ContactStateAdded, writerIndex.listContacts()[string(contactRawPK)].state)
}

func sortedKeys(l ipfslog.Log) []string {
	keys := l.GetEntries().Keys()
	sort.Strings(keys)
	return keys
}
