// Demonstration for property C04 (belongs in the root directory of the repository, package weshnet).
//
// metadataStoreIndex.admins is a map[crypto.PubKey]struct{}: the key is an interface holding a
// *crypto.Ed25519PublicKey, so two decodings of the same 32 bytes are two different map keys.
// The map is not reset by UpdateIndex, and UpdateIndex replays the whole log on every call
// (after every local append, every replicated batch, every load). Each replay decodes the
// initial member's key again and inserts it as a new key: the "already an admin" test never
// hits and ListAdmins grows by one on every re-index of the same log.
//
// The test claims ownership of a multi-member group (one MultiMemberGroupInitialMemberAnnounced
// entry), then appends two unrelated events and re-indexes the unchanged log twice, and
// requires ListAdmins to stay the single announced member.
//
// Unchanged sources: FAIL (ListAdmins has 3, then 5 entries, all the same key).
// With fix.diff applied: PASS.
package weshnet

import (
	"context"
	"testing"
	"time"

	"github.com/stretchr/testify/require"
)

func TestC04AdminsDoNotGrowOnReindex(t *testing.T) {
	ctx, cancel := context.WithTimeout(context.Background(), 90*time.Second)
	defer cancel()

	peers, groupSK, cleanup := CreatePeersWithGroupTest(ctx, t, t.TempDir(), 1, 1)
	defer cleanup()

	meta := peers[0].GC.MetadataStore()

	_, err := meta.ClaimGroupOwnership(ctx, groupSK)
	require.NoError(t, err)

	admins := meta.ListAdmins()
	require.Len(t, admins, 1, "one initial member announced")

	announced, err := admins[0].Raw()
	require.NoError(t, err)

	// two unrelated entries: each append makes go-orbit-db re-index the whole log
	_, err = meta.SendAppMetadata(ctx, []byte("unrelated 1"))
	require.NoError(t, err)

	_, err = meta.SendAppMetadata(ctx, []byte("unrelated 2"))
	require.NoError(t, err)

	admins = meta.ListAdmins()
	for _, a := range admins {
		raw, err := a.Raw()
		require.NoError(t, err)
		require.Equal(t, announced, raw)
	}

	require.Len(t, admins, 1, "the log still announces one initial member, but ListAdmins reports %d (all the same key)", len(admins))

	// re-indexing the very same log any number of times must not change the state either
	for i := 0; i < 2; i++ {
		require.NoError(t, meta.Index().UpdateIndex(meta.OpLog(), nil))
	}

	require.Len(t, meta.ListAdmins(), 1, "ListAdmins after two more re-index runs of the same log")
}
