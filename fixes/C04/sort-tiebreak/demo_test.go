// Demonstration for property C04 (belongs in the root directory of the repository, package weshnet).
//
// Every device writes to a group's logs under the same ipfs-log identity (the group signing key,
// store_options.go defaultIdentityForGroup), so the Lamport clock id of all entries is the same,
// and the stores are opened without a SortFn (DefaultOrbitDBOptions does not set one), i.e. with
// go-ipfs-log's default LastWriteWins whose last tie-break (sorting.First) answers "1" whatever the
// order of its arguments. Two concurrent entries with the same clock time therefore have no defined
// order: Log.Values() returns them in the order in which they were joined.
//
// Two devices of one account write concurrently: A enables contact requests, B disables them.
// Two replicas that hold exactly the same entries but received them in opposite orders must report the
// same contact-request switch.
//
// Unchanged sources: FAIL (one replica reports enabled, the other disabled; Values() differ).
// With fix.diff applied (a total tie-break, sorting.SortByEntryHash): PASS.
package weshnet

import (
	"context"
	"testing"
	"time"

	"github.com/stretchr/testify/assert"
	"github.com/stretchr/testify/require"

	ipfslog "berty.tech/go-ipfs-log"
)

func TestC04ConcurrentEntriesHaveOneOrder(t *testing.T) {
	ctx, cancel := context.WithTimeout(context.Background(), 90*time.Second)
	defer cancel()

	peers, _, cleanup := CreatePeersWithGroupTest(ctx, t, t.TempDir(), 1, 2)
	defer cleanup()

	metas := make([]*MetadataStore, 2)
	for i := range metas {
		// isolated ipfs nodes: the two devices do not replicate to each other while they write
		gc, err := peers[i].DB.openAccountGroup(ctx, nil, ipfsAPIUsingMockNet(ctx, t))
		require.NoError(t, err)
		metas[i] = gc.MetadataStore()
	}

	require.Equal(t, metas[0].OpLog().GetID(), metas[1].OpLog().GetID(), "both devices write the same account log")

	_, err := metas[0].ContactRequestEnable(ctx)
	require.NoError(t, err)
	_, err = metas[1].ContactRequestDisable(ctx)
	require.NoError(t, err)

	headA := metas[0].OpLog().Heads().Slice()[0]
	headB := metas[1].OpLog().Heads().Slice()[0]
	require.Equal(t, headA.GetClock().GetTime(), headB.GetClock().GetTime(), "the two writes are concurrent with equal Lamport time")
	require.Equal(t, headA.GetClock().GetID(), headB.GetClock().GetID(), "and carry the same clock id")

	replica := func(first, second *MetadataStore) (*metadataStoreIndex, []string) {
		l, err := ipfslog.NewLog(metas[0].IPFS(), metas[0].Identity(), &ipfslog.LogOptions{
			ID:               metas[0].OpLog().GetID(),
			AccessController: metas[0].AccessController(),
			SortFn:           metas[0].SortFn(),
			IO:               metas[0].IO(),
		})
		require.NoError(t, err)
		_, err = l.Join(first.OpLog(), -1)
		require.NoError(t, err)
		_, err = l.Join(second.OpLog(), -1)
		require.NoError(t, err)

		idx := newMetadataIndex(ctx, metas[0].group, metas[0].memberDevice, metas[0].secretStore)(nil).(*metadataStoreIndex)
		require.NoError(t, idx.UpdateIndex(l, nil))

		return idx, l.Values().Keys()
	}

	idxAB, orderAB := replica(metas[0], metas[1])
	idxBA, orderBA := replica(metas[1], metas[0])

	require.ElementsMatch(t, orderAB, orderBA, "both replicas hold the same entries")
	assert.Equal(t, idxAB.contactRequestsEnabled(), idxBA.contactRequestsEnabled(), "contact-request switch of two replicas holding the same entries")
	assert.Equal(t, orderAB, orderBA, "Log.Values() of the same entry set")
}
