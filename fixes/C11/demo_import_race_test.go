// Demonstration for C11 (belongs in pkg/secretstore of /repo, package secretstore_test).
//
// restoreAccountKeys (behind SecretStore.ImportAccountKeys) checks that no account key exists
// and then writes the imported keys WITHOUT taking the device keystore's mutex, while every
// other creator of these keys (the get-or-generate accessors) holds it. A first use of the
// account key that runs between the import's check and its write generates and returns a key
// of its own, which the import then silently overwrites: the caller keeps acting under an
// account identity that is not the store's, and the import succeeded on a store that already
// had an account. The interleaving is forced through the injected keystore.
package secretstore_test

import (
	"bytes"
	"sync"
	"testing"
	"time"

	"github.com/ipfs/go-datastore"
	dssync "github.com/ipfs/go-datastore/sync"
	keystore "github.com/ipfs/go-ipfs-keystore"
	"github.com/libp2p/go-libp2p/core/crypto"

	"berty.tech/weshnet/v2/pkg/ipfsutil"
	"berty.tech/weshnet/v2/pkg/secretstore"
)

type hookedKeystore struct {
	keystore.Keystore
	mu     sync.Mutex
	nHas   int
	onHas2 func()
}

func (h *hookedKeystore) Has(name string) (bool, error) {
	h.mu.Lock()
	h.nHas++
	fire := h.nHas == 2 && h.onHas2 != nil
	h.mu.Unlock()
	ok, err := h.Keystore.Has(name)
	if fire {
		h.onHas2() // runs after the import's last check, before its first write
	}
	return ok, err
}

func TestDemoC11ImportRacesWithFirstUse(t *testing.T) {
	// an exported account
	src, err := secretstore.NewInMemSecretStore(nil)
	if err != nil {
		t.Fatal(err)
	}
	accBlob, proofBlob, err := src.ExportAccountKeysForBackup()
	if err != nil {
		t.Fatal(err)
	}
	exported, err := src.GetAccountPrivateKey()
	if err != nil {
		t.Fatal(err)
	}

	// a fresh store with a hooked keystore
	root := dssync.MutexWrap(datastore.NewMapDatastore())
	ks := &hookedKeystore{Keystore: ipfsutil.NewDatastoreKeystore(root)}
	dst, err := secretstore.NewSecretStore(root, &secretstore.NewSecretStoreOptions{Keystore: ks})
	if err != nil {
		t.Fatal(err)
	}

	firstUse := make(chan crypto.PrivKey, 1)
	ks.onHas2 = func() {
		go func() {
			k, err := dst.GetAccountPrivateKey() // first use: get-or-generate
			if err != nil {
				t.Error(err)
			}
			firstUse <- k
		}()
		// give the first use a chance to run now; with a correct import it has to wait
		select {
		case k := <-firstUse:
			firstUse <- k
		case <-time.After(300 * time.Millisecond):
		}
	}

	importErr := dst.ImportAccountKeys(accBlob, proofBlob)

	var used crypto.PrivKey
	select {
	case used = <-firstUse:
	case <-time.After(5 * time.Second):
		t.Fatal("the concurrent first use never returned")
	}
	final, err := dst.GetAccountPrivateKey()
	if err != nil {
		t.Fatal(err)
	}
	rawUsed, _ := used.Raw()
	rawFinal, _ := final.Raw()
	rawExported, _ := exported.Raw()

	if !bytes.Equal(rawUsed, rawFinal) {
		t.Fatalf("a caller obtained an account key that is not the store's account key (import error: %v; store holds the imported key: %v): the import overwrote an account created between its check and its write", importErr, bytes.Equal(rawFinal, rawExported))
	}
	if importErr == nil && !bytes.Equal(rawFinal, rawExported) {
		t.Fatalf("the import reported success but the store does not hold the imported account key")
	}
}
