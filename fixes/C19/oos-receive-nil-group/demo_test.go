// C19 demo (verification framework): belongs in pkg/outofstoremessage of /repo (package outofstoremessage).
//
// secretStore.OpenOutOfStoreMessage returns a nil *Group together with a nil error when the group record
// cannot be read back after the message was opened (it only logs nothing and skips the reference update).
// Both OutOfStoreReceive handlers then evaluate group.PublicKey. The test makes exactly that datastore read
// fail (one I/O error on the group record, after the earlier reads of the same request succeeded) and calls
// the handler of the out-of-store message service in-process. Unchanged sources: nil pointer dereference,
// the test FAILS; with fixes/C19/oos-receive-nil-group/fix.diff the message is returned and the test PASSES.
//
//	go test -count=1 -run TestC19Demo ./pkg/outofstoremessage
package outofstoremessage

import (
	"context"
	"encoding/base64"
	"errors"
	"strings"
	"sync"
	"testing"
	"time"

	"github.com/ipfs/go-cid"
	ds "github.com/ipfs/go-datastore"
	ds_sync "github.com/ipfs/go-datastore/sync"
	"github.com/stretchr/testify/require"
	"google.golang.org/protobuf/proto"

	"berty.tech/weshnet/v2/pkg/protocoltypes"
	"berty.tech/weshnet/v2/pkg/secretstore"
)

// c19FlakyDatastore fails the failAt-th Get (1-based, counted from the last arm call) of a key that
// contains the marker.
type c19FlakyDatastore struct {
	ds.Datastore

	mu     sync.Mutex
	marker string
	seen   int
	failAt int
}

func (f *c19FlakyDatastore) arm(marker string, failAt int) {
	f.mu.Lock()
	defer f.mu.Unlock()
	f.marker, f.seen, f.failAt = marker, 0, failAt
}

func (f *c19FlakyDatastore) count() int {
	f.mu.Lock()
	defer f.mu.Unlock()
	return f.seen
}

func (f *c19FlakyDatastore) Get(ctx context.Context, key ds.Key) ([]byte, error) {
	f.mu.Lock()
	fail := false
	if f.marker != "" && strings.Contains(key.String(), f.marker) {
		f.seen++
		fail = f.seen == f.failAt
	}
	f.mu.Unlock()

	if fail {
		return nil, errors.New("c19 demo: injected datastore read error")
	}

	return f.Datastore.Get(ctx, key)
}

func TestC19DemoOutOfStoreReceiveGroupReadFails(t *testing.T) {
	ctx, cancel := context.WithTimeout(context.Background(), 30*time.Second)
	defer cancel()

	flaky := &c19FlakyDatastore{Datastore: ds_sync.MutexWrap(ds.NewMapDatastore())}

	sender, err := secretstore.NewSecretStore(ds_sync.MutexWrap(ds.NewMapDatastore()), nil)
	require.NoError(t, err)
	t.Cleanup(func() { _ = sender.Close() })

	receiver, err := secretstore.NewSecretStore(flaky, nil)
	require.NoError(t, err)
	t.Cleanup(func() { _ = receiver.Close() })

	group, _, err := protocoltypes.NewGroupMultiMember()
	require.NoError(t, err)

	require.NoError(t, sender.PutGroup(ctx, group))
	require.NoError(t, receiver.PutGroup(ctx, group))

	senderMD, err := sender.GetOwnMemberDeviceForGroup(group)
	require.NoError(t, err)
	receiverMD, err := receiver.GetOwnMemberDeviceForGroup(group)
	require.NoError(t, err)

	chainKey, err := sender.GetShareableChainKey(ctx, group, receiverMD.Member())
	require.NoError(t, err)
	require.NoError(t, receiver.RegisterChainKey(ctx, group, senderMD.Device(), chainKey))

	seal := func(payload string) []byte {
		env, err := sender.SealEnvelope(ctx, group, []byte(payload))
		require.NoError(t, err)
		envHeaders, msgHeaders, err := sender.OpenEnvelopeHeaders(env, group)
		require.NoError(t, err)
		dummyCID, err := cid.Parse("QmNR2n4zywCV61MeMLB6JwPueAPqheqpfiA4fLPMxouEmQ")
		require.NoError(t, err)
		oosEnv, err := sender.SealOutOfStoreMessageEnvelope(dummyCID, envHeaders, msgHeaders, group)
		require.NoError(t, err)
		b, err := proto.Marshal(oosEnv)
		require.NoError(t, err)
		return b
	}

	svc, err := NewOutOfStoreMessageService(WithSecretStore(receiver))
	require.NoError(t, err)

	// the group record is stored under a key that contains the base64 of the group public key: count how
	// many times one request reads it
	marker := base64.RawURLEncoding.EncodeToString(group.PublicKey)

	flaky.arm(marker, -1)
	rep, err := svc.OutOfStoreReceive(ctx, &protocoltypes.OutOfStoreReceive_Request{Payload: seal("first")})
	require.NoError(t, err)
	require.Equal(t, group.PublicKey, rep.GroupPublicKey)
	reads := flaky.count()
	require.GreaterOrEqual(t, reads, 2, "the group record is read when the envelope is decrypted and again at the end")
	t.Logf("one OutOfStoreReceive reads records keyed by the group %d times", reads)

	// following requests: the k-th of these reads fails, for every k
	for k := 1; k <= reads; k++ {
		payload := seal("next")
		flaky.arm(marker, k)

		var (
			panicked any
			rerr     error
			reply    *protocoltypes.OutOfStoreReceive_Reply
		)
		func() {
			defer func() { panicked = recover() }()
			reply, rerr = svc.OutOfStoreReceive(ctx, &protocoltypes.OutOfStoreReceive_Request{Payload: payload})
		}()

		switch {
		case panicked != nil:
			t.Errorf("read #%d fails: OutOfStoreReceive panicked instead of answering: %v", k, panicked)
		case rerr != nil:
			t.Logf("read #%d fails: answered with error: %v", k, rerr)
		default:
			// the message itself was opened: it is delivered, possibly without the group key
			require.NotNil(t, reply)
			require.NotEmpty(t, reply.Cleartext)
			t.Logf("read #%d fails: message delivered, group public key in the reply: %x", k, reply.GroupPublicKey)
		}
	}
}
