// C19 demo (verification framework): belongs in pkg/cryptoutil of /repo (package cryptoutil_test).
//
// AESCTRStream(key, iv) is an exported helper; it validates the key (through aes.NewCipher) and rejects
// nil arguments, but hands the IV to cipher.NewCTR unchecked, and cipher.NewCTR panics ("IV length must
// equal block size") for every IV that is not 16 bytes long. On the unchanged sources the test FAILS;
// with fixes/C19/aesctr-iv-len/fix.diff it PASSES.
//
//	go test -count=1 -run TestC19DemoAESCTRStream ./pkg/cryptoutil
package cryptoutil_test

import (
	"testing"

	"github.com/stretchr/testify/require"

	"berty.tech/weshnet/v2/pkg/cryptoutil"
)

func TestC19DemoAESCTRStreamBadIVLength(t *testing.T) {
	key := make([]byte, 32)

	// sanity: a 16-byte IV works
	stream, err := cryptoutil.AESCTRStream(key, make([]byte, 16))
	require.NoError(t, err)
	require.NotNil(t, stream)

	for _, n := range []int{0, 1, 12, 15, 17, 24, 32} {
		iv := make([]byte, n)

		var (
			panicked any
			serr     error
		)
		func() {
			defer func() { panicked = recover() }()
			_, serr = cryptoutil.AESCTRStream(key, iv)
		}()

		if panicked != nil {
			t.Errorf("AESCTRStream with a %d-byte IV panicked instead of returning an error: %v", n, panicked)
			continue
		}
		require.Errorf(t, serr, "AESCTRStream with a %d-byte IV must fail", n)
		t.Logf("AESCTRStream with a %d-byte IV: error: %v", n, serr)
	}
}
