// C19 demo (verification framework): belongs in the root directory of /repo (package weshnet_test).
//
// (*WeshOrbitDB).OpenGroupReplication is the entry point the replication server uses for every group it
// is asked to replicate. When the metadata store of the group cannot be opened it executes
// `_ = metadataStore.Close()` on the nil store that storeForGroup returned together with the error
// (the Close was meant for the failure of the second store): nil interface method call, panic.
// Here the open fails because the caller's options name an access controller type that is not registered.
// Unchanged sources: the test FAILS; with fixes/C19/replication-nil-store/fix.diff it PASSES.
//
//	go test -count=1 -run TestC19DemoOpenGroupReplication .
package weshnet_test

import (
	"context"
	"runtime/debug"
	"strings"
	"testing"
	"time"

	"github.com/stretchr/testify/require"

	orbitdb "berty.tech/go-orbit-db"
	"berty.tech/go-orbit-db/accesscontroller"
	"berty.tech/weshnet/v2"
)

func TestC19DemoOpenGroupReplicationStoreOpenFails(t *testing.T) {
	ctx, cancel := context.WithTimeout(context.Background(), time.Minute)
	defer cancel()

	tp, cleanup := weshnet.NewTestingProtocol(ctx, t, &weshnet.TestingOpts{}, nil)
	defer cleanup()

	g, _, err := weshnet.NewGroupMultiMember()
	require.NoError(t, err)

	replGroup, err := weshnet.FilterGroupForReplication(g)
	require.NoError(t, err)

	// options whose access controller type no constructor is registered for: the address of the
	// metadata store cannot be determined, storeForGroup returns (nil, error)
	opts := &orbitdb.CreateDBOptions{AccessController: accesscontroller.NewSimpleManifestParams("c19-demo-unregistered-type", nil)}

	var (
		panicked any
		stack    string
		oerr     error
	)
	done := make(chan struct{})
	go func() {
		defer close(done)
		defer func() {
			if panicked = recover(); panicked != nil {
				for _, l := range strings.Split(string(debug.Stack()), "\n") {
					if strings.Contains(l, "weshnet/v2.") || strings.Contains(l, "orbitdb.go") {
						stack += "\n\t" + strings.TrimSpace(l)
					}
				}
			}
		}()
		_, _, oerr = tp.OrbitDB.OpenGroupReplication(ctx, replGroup, opts)
	}()

	select {
	case <-done:
	case <-time.After(30 * time.Second):
		t.Fatal("OpenGroupReplication: no answer within 30s")
	}

	if panicked != nil {
		t.Fatalf("OpenGroupReplication panicked when the metadata store could not be opened: %v%s", panicked, stack)
	}

	require.Error(t, oerr, "the store cannot be opened with an unregistered access controller type")
	t.Logf("OpenGroupReplication answered with error: %v", oerr)
}
