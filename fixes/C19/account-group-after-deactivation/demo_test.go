// C19 demo (verification framework): belongs in the root directory of /repo (package weshnet_test).
//
// D2: ContactBlock, ContactUnblock and the verified-credential handlers dereference the account group
// context after DeactivateGroup has cleared it.
// The handler is called in-process and a panic is recovered, so that the test binary survives. On the
// unchanged sources the test FAILS ("handler panicked instead of returning an error"); with
// fixes/C19/account-group-after-deactivation/fix.diff applied it PASSES.
//
//	go test -count=1 -run TestC19DemoAccountGroup .
package weshnet_test

import (
	"context"
	"runtime/debug"
	"testing"
	"time"

	"github.com/stretchr/testify/require"
	"google.golang.org/grpc"

	"berty.tech/weshnet/v2"
	"berty.tech/weshnet/v2/pkg/protocoltypes"
)

// c19CallAccountGroup runs f and turns a panic into a test failure instead of a crash of the test binary.
func c19CallAccountGroup(t *testing.T, what string, f func() error) {
	t.Helper()

	done := make(chan struct{})
	var (
		err      error
		panicked any
		stack    []byte
	)

	go func() {
		defer close(done)
		defer func() {
			if r := recover(); r != nil {
				panicked, stack = r, debug.Stack()
			}
		}()
		err = f()
	}()

	select {
	case <-done:
	case <-time.After(20 * time.Second):
		t.Fatalf("%s: no answer within 20s", what)
	}

	if panicked != nil {
		t.Errorf("%s: handler panicked instead of returning an error: %v\n%s", what, panicked, c19FirstFramesAccountGroup(stack))
		return
	}

	require.Errorf(t, err, "%s: the request is invalid or inapplicable and must be answered with an error", what)
	t.Logf("%s: answered with error: %v", what, err)
}

func c19FirstFramesAccountGroup(stack []byte) string {
	n, lines := 0, 0
	for n < len(stack) && lines < 14 {
		if stack[n] == '\n' {
			lines++
		}
		n++
	}
	return string(stack[:n])
}

// fake server side of a server-streaming call, enough for handlers that only Send.
type c19StreamAccountGroup[T any] struct {
	grpc.ServerStream
	ctx context.Context
}

func (s *c19StreamAccountGroup[T]) Context() context.Context { return s.ctx }
func (s *c19StreamAccountGroup[T]) Send(*T) error            { return nil }
func (s *c19StreamAccountGroup[T]) SendMsg(any) error        { return nil }

func c19ServiceAccountGroup(t *testing.T) (context.Context, weshnet.Service) {
	t.Helper()

	ctx, cancel := context.WithTimeout(context.Background(), time.Minute)
	t.Cleanup(cancel)

	tp, cleanup := weshnet.NewTestingProtocol(ctx, t, &weshnet.TestingOpts{}, nil)
	t.Cleanup(cleanup)

	return ctx, tp.Service
}

// D2: requests that need the account group, issued after the account group was deactivated.
func TestC19DemoAccountGroupDeactivated(t *testing.T) {
	ctx, s := c19ServiceAccountGroup(t)

	cfg, err := s.ServiceGetConfiguration(ctx, &protocoltypes.ServiceGetConfiguration_Request{})
	require.NoError(t, err)

	// a well-formed contact key, so that the handlers get past their input validation
	otherCtx, other := c19ServiceAccountGroup(t)
	otherCfg, err := other.ServiceGetConfiguration(otherCtx, &protocoltypes.ServiceGetConfiguration_Request{})
	require.NoError(t, err)

	_, err = s.DeactivateGroup(ctx, &protocoltypes.DeactivateGroup_Request{GroupPk: cfg.AccountGroupPk})
	require.NoError(t, err)

	// sanity: a handler that has the nil test answers with an error
	_, err = s.ContactRequestReference(ctx, &protocoltypes.ContactRequestReference_Request{})
	require.Error(t, err)

	c19CallAccountGroup(t, "ContactBlock after account group deactivation", func() error {
		_, err := s.ContactBlock(ctx, &protocoltypes.ContactBlock_Request{ContactPk: otherCfg.AccountPk})
		return err
	})

	c19CallAccountGroup(t, "ContactUnblock after account group deactivation", func() error {
		_, err := s.ContactUnblock(ctx, &protocoltypes.ContactUnblock_Request{ContactPk: otherCfg.AccountPk})
		return err
	})

	c19CallAccountGroup(t, "CredentialVerificationServiceInitFlow after account group deactivation", func() error {
		_, err := s.CredentialVerificationServiceInitFlow(ctx, &protocoltypes.CredentialVerificationServiceInitFlow_Request{
			ServiceUrl: "http://127.0.0.1:1/",
			PublicKey:  cfg.AccountPk,
			Link:       "http://127.0.0.1:1/link",
		})
		return err
	})

	c19CallAccountGroup(t, "VerifiedCredentialsList after account group deactivation", func() error {
		return s.VerifiedCredentialsList(&protocoltypes.VerifiedCredentialsList_Request{},
			&c19StreamAccountGroup[protocoltypes.VerifiedCredentialsList_Reply]{ctx: ctx})
	})
}
