// C19 demo (verification framework): belongs in the root directory of /repo (package weshnet_test).
//
// (*protocoltypes.Group).GetSigningPrivKey tests only len(m.Secret) == 0 and then calls
// ed25519.NewKeyFromSeed(m.Secret), which panics ("ed25519: bad seed length") for every length other
// than 32. The caller of MultiMemberGroupJoin controls the group key pair, so it can sign a secret of
// any length: the invitation passes Group.IsValid, is recorded in the account group, and the following
// ActivateGroup for that group panics while the stores are opened. Also shown directly on the exported
// helper. On the unchanged sources both tests FAIL; with fixes/C19/secret-len/fix.diff they PASS.
//
//	go test -count=1 -run TestC19DemoSecretLen .
package weshnet_test

import (
	"context"
	crand "crypto/rand"
	"fmt"
	"runtime/debug"
	"testing"
	"time"

	"github.com/libp2p/go-libp2p/core/crypto"
	"github.com/stretchr/testify/require"

	"berty.tech/weshnet/v2"
	"berty.tech/weshnet/v2/pkg/protocoltypes"
)

// c19CallSecretLen runs f and turns a panic into a test failure instead of a crash of the test binary.
func c19CallSecretLen(t *testing.T, what string, f func() error) (err error, panicked bool) {
	t.Helper()

	done := make(chan struct{})
	var (
		rec   any
		stack []byte
	)

	go func() {
		defer close(done)
		defer func() {
			if r := recover(); r != nil {
				rec, stack = r, debug.Stack()
			}
		}()
		err = f()
	}()

	select {
	case <-done:
	case <-time.After(30 * time.Second):
		t.Fatalf("%s: no answer within 30s", what)
	}

	if rec != nil {
		n, lines := 0, 0
		for n < len(stack) && lines < 16 {
			if stack[n] == '\n' {
				lines++
			}
			n++
		}
		t.Errorf("%s: panicked instead of returning an error: %v\n%s", what, rec, stack[:n])
		return nil, true
	}

	return err, false
}

// c19GroupWithSecret builds a multi-member group whose secret has the given length and carries a valid
// signature by the group key (which the inviter owns).
func c19GroupWithSecret(t *testing.T, secretLen int) *protocoltypes.Group {
	t.Helper()

	priv, pub, err := crypto.GenerateEd25519Key(crand.Reader)
	require.NoError(t, err)

	pubBytes, err := pub.Raw()
	require.NoError(t, err)

	secret := make([]byte, secretLen)
	_, err = crand.Read(secret)
	require.NoError(t, err)

	sig, err := priv.Sign(secret)
	require.NoError(t, err)

	g := &protocoltypes.Group{
		PublicKey: pubBytes,
		Secret:    secret,
		SecretSig: sig,
		GroupType: protocoltypes.GroupType_GroupTypeMultiMember,
	}
	require.NoError(t, g.IsValid(), "the crafted invitation is self-consistent")

	return g
}

// the exported helper, fed with a decoded (untrusted) Group message
func TestC19DemoSecretLenGetSigningPrivKey(t *testing.T) {
	for _, n := range []int{1, 5, 31, 33, 64} {
		g := c19GroupWithSecret(t, n)

		err, panicked := c19CallSecretLen(t, fmt.Sprintf("GetSigningPrivKey with a %d-byte secret", n), func() error {
			_, err := g.GetSigningPrivKey()
			return err
		})
		if !panicked {
			require.Errorf(t, err, "a %d-byte secret is not an ed25519 seed", n)
			t.Logf("GetSigningPrivKey with a %d-byte secret: error: %v", n, err)
		}
	}

	// a 32-byte secret still works
	_, err := c19GroupWithSecret(t, 32).GetSigningPrivKey()
	require.NoError(t, err)
}

// the request sequence: join with a short secret, then activate
func TestC19DemoSecretLenJoinThenActivate(t *testing.T) {
	ctx, cancel := context.WithTimeout(context.Background(), time.Minute)
	defer cancel()

	tp, cleanup := weshnet.NewTestingProtocol(ctx, t, &weshnet.TestingOpts{}, nil)
	defer cleanup()

	s := tp.Service
	g := c19GroupWithSecret(t, 5)

	joinErr, panicked := c19CallSecretLen(t, "MultiMemberGroupJoin with a 5-byte group secret", func() error {
		_, err := s.MultiMemberGroupJoin(ctx, &protocoltypes.MultiMemberGroupJoin_Request{Group: g})
		return err
	})
	if panicked {
		return
	}
	t.Logf("MultiMemberGroupJoin answered: %v", joinErr)

	actErr, panicked := c19CallSecretLen(t, "ActivateGroup of the group joined with a 5-byte secret", func() error {
		_, err := s.ActivateGroup(ctx, &protocoltypes.ActivateGroup_Request{GroupPk: g.PublicKey})
		return err
	})
	if panicked {
		return
	}
	t.Logf("ActivateGroup answered: %v", actErr)

	// the malformed invitation must be refused at one of the two steps
	require.True(t, joinErr != nil || actErr != nil, "a group whose secret is not a 32-byte seed cannot be joined and activated")
}
