// C19 demo (verification framework): belongs in pkg/cryptoutil of /repo (package cryptoutil_test).
//
// AESGCMDecrypt is an exported helper that applications feed with untrusted bytes. On the unchanged
// sources an input shorter than the GCM nonce makes it panic (slice bounds out of range) instead of
// returning an error: the test FAILS; with fixes/C19/aesgcm-short-input/fix.diff it PASSES.
//
//	go test -count=1 -run TestC19Demo ./pkg/cryptoutil
package cryptoutil_test

import (
	"testing"

	"github.com/stretchr/testify/require"

	"berty.tech/weshnet/v2/pkg/cryptoutil"
)

func TestC19DemoAESGCMDecryptShortInput(t *testing.T) {
	key := make([]byte, 32)

	// sanity: the helper round-trips
	sealed, err := cryptoutil.AESGCMEncrypt(key, []byte("hello"))
	require.NoError(t, err)
	plain, err := cryptoutil.AESGCMDecrypt(key, sealed)
	require.NoError(t, err)
	require.Equal(t, []byte("hello"), plain)

	for _, n := range []int{0, 1, 11} {
		data := make([]byte, n)

		var (
			panicked any
			derr     error
		)
		func() {
			defer func() { panicked = recover() }()
			_, derr = cryptoutil.AESGCMDecrypt(key, data)
		}()

		if panicked != nil {
			t.Errorf("AESGCMDecrypt with %d input bytes panicked instead of returning an error: %v", n, panicked)
			continue
		}
		require.Errorf(t, derr, "AESGCMDecrypt with %d input bytes must fail", n)
		t.Logf("AESGCMDecrypt with %d input bytes: error: %v", n, derr)
	}

	// an input of exactly the nonce size has an empty ciphertext: authentication fails, no panic
	_, err = cryptoutil.AESGCMDecrypt(key, make([]byte, 12))
	require.Error(t, err)
}
