// C19 demo (verification framework): belongs in the root directory of /repo (package weshnet_test).
//
// D3: MultiMemberGroupJoin dereferences the absent group sub-message of the request.
// The handler is called in-process and a panic is recovered, so that the test binary survives. On the
// unchanged sources the test FAILS ("handler panicked instead of returning an error"); with
// fixes/C19/group-join-nil-group/fix.diff applied it PASSES.
//
//	go test -count=1 -run TestC19DemoGroupJoin .
package weshnet_test

import (
	"context"
	"runtime/debug"
	"testing"
	"time"

	"github.com/stretchr/testify/require"

	"berty.tech/weshnet/v2"
	"berty.tech/weshnet/v2/pkg/protocoltypes"
)

// c19CallGroupJoin runs f and turns a panic into a test failure instead of a crash of the test binary.
func c19CallGroupJoin(t *testing.T, what string, f func() error) {
	t.Helper()

	done := make(chan struct{})
	var (
		err      error
		panicked any
		stack    []byte
	)

	go func() {
		defer close(done)
		defer func() {
			if r := recover(); r != nil {
				panicked, stack = r, debug.Stack()
			}
		}()
		err = f()
	}()

	select {
	case <-done:
	case <-time.After(20 * time.Second):
		t.Fatalf("%s: no answer within 20s", what)
	}

	if panicked != nil {
		t.Errorf("%s: handler panicked instead of returning an error: %v\n%s", what, panicked, c19FirstFramesGroupJoin(stack))
		return
	}

	require.Errorf(t, err, "%s: the request is invalid or inapplicable and must be answered with an error", what)
	t.Logf("%s: answered with error: %v", what, err)
}

func c19FirstFramesGroupJoin(stack []byte) string {
	n, lines := 0, 0
	for n < len(stack) && lines < 14 {
		if stack[n] == '\n' {
			lines++
		}
		n++
	}
	return string(stack[:n])
}

func c19ServiceGroupJoin(t *testing.T) (context.Context, weshnet.Service) {
	t.Helper()

	ctx, cancel := context.WithTimeout(context.Background(), time.Minute)
	t.Cleanup(cancel)

	tp, cleanup := weshnet.NewTestingProtocol(ctx, t, &weshnet.TestingOpts{}, nil)
	t.Cleanup(cleanup)

	return ctx, tp.Service
}

// D3: a join request without the group sub-message.
func TestC19DemoGroupJoinWithoutGroup(t *testing.T) {
	ctx, s := c19ServiceGroupJoin(t)

	c19CallGroupJoin(t, "MultiMemberGroupJoin(Group: nil)", func() error {
		_, err := s.MultiMemberGroupJoin(ctx, &protocoltypes.MultiMemberGroupJoin_Request{})
		return err
	})
}
