// Demonstration for finding C08.D4 (verification framework, property C08).
// Belongs in the ROOT directory of /repo (package weshnet), next to store_message_test.go.
//
// A member that receives a sender's chain-key announcement made at counter N can open the
// sender's messages N+1, N+2, ... but never 1..N (the chain key only moves forward). All of
// them reach the member through replication and are parked in the sender's device queue until
// the announcement arrives. ProcessMessageQueueForDevicePK then re-injects ONE item, the one
// with the lowest counter - which is message 1, the one that can never be opened. It fails,
// is parked again, and the openable messages behind it stay parked until the sender happens
// to write another message.
//
//	go test -count=1 -run Test_C08_ReleaseDrainsWholeDeviceQueue .
//
// unchanged tree: FAIL (0 of 5 openable messages delivered within the timeout)
// with the fix:   PASS (5 delivered, the 3 unopenable ones stay parked)
package weshnet

import (
	"context"
	"fmt"
	"testing"
	"time"

	"github.com/libp2p/go-libp2p/p2p/host/eventbus"
	"github.com/stretchr/testify/require"

	"berty.tech/weshnet/v2/pkg/protocoltypes"
	"berty.tech/weshnet/v2/pkg/testutil"
)

func Test_C08_ReleaseDrainsWholeDeviceQueue(t *testing.T) {
	testutil.FilterSpeed(t, testutil.Fast)

	ctx, cancel := context.WithCancel(context.Background())
	defer cancel()

	const (
		beforeAnnouncement = 3 // sealed before the chain key is shared: never openable by peer 1
		afterAnnouncement  = 5 // sealed after: openable by peer 1
		total              = beforeAnnouncement + afterAnnouncement
	)

	peers, _, cleanup := CreatePeersWithGroupTest(ctx, t, "/tmp/c08_release_test", 2, 1)
	defer cleanup()

	sender, receiver := peers[0], peers[1]

	dPK0 := sender.GC.DevicePubKey()
	dPK0Raw, err := dPK0.Raw()
	require.NoError(t, err)

	// every replicated message is parked on the receiver (it has no chain key of the sender yet)
	cparked, err := receiver.GC.MessageStore().EventBus().Subscribe(new(messageItem), eventbus.BufSize(4*total))
	require.NoError(t, err)
	defer cparked.Close()

	for i := 0; i < beforeAnnouncement; i++ {
		_, err = sender.GC.MessageStore().AddMessage(ctx, []byte(fmt.Sprintf("before %d", i)))
		require.NoError(t, err)
	}

	// the announcement: the sender's chain key as it is now, i.e. after `beforeAnnouncement` messages
	ds0For1, err := sender.SecretStore.GetShareableChainKey(ctx, sender.GC.Group(), receiver.GC.MemberPubKey())
	require.NoError(t, err)

	for i := 0; i < afterAnnouncement; i++ {
		_, err = sender.GC.MessageStore().AddMessage(ctx, []byte(fmt.Sprintf("after %d", i)))
		require.NoError(t, err)
	}

	for i := 0; i < total; i++ {
		select {
		case <-cparked.Out():
		case <-time.After(10 * time.Second):
			require.FailNow(t, "timeout while waiting for the messages to be replicated and parked")
		}
	}

	size, ok := receiver.GC.MessageStore().CacheSizeForDevicePK(dPK0Raw)
	require.True(t, ok)
	require.Equal(t, total, size, "all messages are parked before the chain key is known")

	cevent, err := receiver.GC.MessageStore().EventBus().Subscribe(new(*protocoltypes.GroupMessageEvent), eventbus.BufSize(total))
	require.NoError(t, err)
	defer cevent.Close()

	// the announcement arrives: what handleGroupMetadataEvent does
	require.NoError(t, receiver.SecretStore.RegisterChainKey(ctx, sender.GC.Group(), dPK0, ds0For1))
	receiver.GC.MessageStore().ProcessMessageQueueForDevicePK(ctx, dPK0Raw)

	// no further event is needed: the openable messages must be delivered now
	delivered := map[string]bool{}
	deadline := time.After(3 * time.Second)
wait:
	for len(delivered) < afterAnnouncement {
		select {
		case e := <-cevent.Out():
			delivered[string(e.(*protocoltypes.GroupMessageEvent).Message)] = true
		case <-deadline:
			break wait
		}
	}

	size, _ = receiver.GC.MessageStore().CacheSizeForDevicePK(dPK0Raw)
	require.Equalf(t, afterAnnouncement, len(delivered),
		"after the sender's chain key was registered, %d of the %d openable messages were delivered; %d messages are still parked",
		len(delivered), afterAnnouncement, size)

	for i := 0; i < afterAnnouncement; i++ {
		require.True(t, delivered[fmt.Sprintf("after %d", i)], "message %q not delivered", fmt.Sprintf("after %d", i))
	}
}
