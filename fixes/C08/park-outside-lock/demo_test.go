// Demonstration for finding C08.D3 (verification framework, property C08).
// Belongs in the ROOT directory of /repo (package weshnet), next to store_message_test.go.
//
// processMessageLoop reads the "chain key known" flag of the sender's device cache with
// muDeviceCaches held (getOrCreateDeviceCache), releases the lock, and only then parks the
// message (device.queue.Add). ProcessMessageQueueForDevicePK - called once after
// RegisterChainKey - can run in that window: it sets the flag, finds the device queue empty,
// and returns. The message parked right afterwards is released by nothing: no later
// registration happens, and only a later message of the same sender would drain the queue.
//
// There is no blocking point between the flag read and the park in the real code, so the
// window cannot be forced deterministically without changing weshnet. This test drives the
// REAL processMessageLoop and the REAL ProcessMessageQueueForDevicePK (only the secret store
// is a stub) and repeats the race until a message is stranded; it is therefore a stress
// test: on the unchanged tree it fails as soon as the window is hit (see notes.txt for the
// observed rate), with the fix it runs all rounds and passes.
//
//	go test -count=1 -run Test_C08_ParkRacesWithRelease .
package weshnet

import (
	"bytes"
	"context"
	"encoding/binary"
	"fmt"
	"sync"
	"sync/atomic"
	"testing"
	"time"

	"github.com/ipfs/go-cid"
	"github.com/libp2p/go-libp2p/core/crypto"
	"github.com/libp2p/go-libp2p/p2p/host/eventbus"
	mh "github.com/multiformats/go-multihash"
	"github.com/prometheus/client_golang/prometheus"
	"github.com/stretchr/testify/require"
	"go.uber.org/zap"

	"berty.tech/go-ipfs-log/entry"
	"berty.tech/go-orbit-db/stores/operation"
	"berty.tech/weshnet/v2/pkg/protocoltypes"
	"berty.tech/weshnet/v2/pkg/secretstore"
)

// c08StubSecretStore: key knowledge is a number the test controls (devices are numbered by
// the first 8 bytes of their key; device n is known once n <= knownUpTo); every payload opens.
type c08StubSecretStore struct {
	secretstore.SecretStore // nil: any other method would panic, none is used by the loop
	knownUpTo               atomic.Uint64
}

func (s *c08StubSecretStore) IsChainKeyKnownForDevice(_ context.Context, _ crypto.PubKey, devicePublicKey crypto.PubKey) bool {
	raw, _ := devicePublicKey.Raw()
	return binary.BigEndian.Uint64(raw) <= s.knownUpTo.Load()
}

func (s *c08StubSecretStore) OpenEnvelopePayload(_ context.Context, _ *protocoltypes.MessageEnvelope, h *protocoltypes.MessageHeaders, _ crypto.PubKey, _ crypto.PubKey, _ cid.Cid) (*protocoltypes.EncryptedMessage, error) {
	return &protocoltypes.EncryptedMessage{Plaintext: h.DevicePk}, nil
}

func (s *c08StubSecretStore) UpdateOutOfStoreGroupReferences(context.Context, []byte, uint64, *protocoltypes.Group) error {
	return nil
}

func Test_C08_ParkRacesWithRelease(t *testing.T) {
	const (
		workers = 4 // independent message stores racing in parallel (only to find the window sooner)
		maxTime = 30 * time.Second
	)

	ctx, cancel := context.WithCancel(context.Background())
	defer cancel()

	// one log entry / operation shared by all items (only its hash is looked at)
	digest, err := mh.Sum([]byte("c08"), mh.SHA2_256, -1)
	require.NoError(t, err)
	payload, err := operation.NewOperation(nil, "ADD", []byte("x")).Marshal()
	require.NoError(t, err)
	op, err := operation.ParseOperation(&entry.Entry{Payload: payload, Hash: cid.NewCidV1(cid.Raw, digest)})
	require.NoError(t, err)

	start := time.Now()
	stranded := make(chan string, workers)
	var rounds atomic.Uint64
	var wg sync.WaitGroup
	for w := 0; w < workers; w++ {
		wg.Add(1)
		go func(w int) {
			defer wg.Done()
			if msg := c08RaceWorker(ctx, t, op, start.Add(maxTime), &rounds); msg != "" {
				stranded <- fmt.Sprintf("store %d, %s", w, msg)
				cancel()
			}
		}(w)
	}
	wg.Wait()
	select {
	case msg := <-stranded:
		t.Fatalf("after %s and %d arrivals: %s", time.Since(start).Round(time.Millisecond), rounds.Load(), msg)
	default:
		t.Logf("no message stranded in %d arrivals (%s)", rounds.Load(), time.Since(start).Round(time.Millisecond))
	}
}

// c08RaceWorker runs the REAL processMessageLoop of one message store and, for one fresh
// sender per round, lets the arrival of a message race with the handling of that sender's
// chain-key announcement. It returns a description of the first stranded message, or "".
func c08RaceWorker(ctx context.Context, t *testing.T, op operation.Operation, until time.Time, rounds *atomic.Uint64) string {
	stub := &c08StubSecretStore{}
	tracer := newMessageMetricsTracer(prometheus.NewRegistry())
	bus := eventbus.NewBus()

	m := &MessageStore{
		eventBus:      bus,
		secretStore:   stub,
		messagesQueue: newMessageQueue("cache", tracer),
		group:         &protocoltypes.Group{PublicKey: []byte("c08-demo-group")},
		logger:        zap.NewNop(),
		deviceCaches:  make(map[string]*groupCache),
	}
	var err error
	if m.emitters.groupMessage, err = bus.Emitter(new(*protocoltypes.GroupMessageEvent)); err != nil {
		return "setup: " + err.Error()
	}
	if m.emitters.groupCacheMessage, err = bus.Emitter(new(messageItem)); err != nil {
		return "setup: " + err.Error()
	}
	delivered, err := bus.Subscribe(new(*protocoltypes.GroupMessageEvent), eventbus.BufSize(1024))
	if err != nil {
		return "setup: " + err.Error()
	}
	defer delivered.Close()

	// another sender, whose chain key is known from the start (device number 0)
	otherPK := make([]byte, 32)

	go m.processMessageLoop(ctx, tracer) // the real consumer loop

	var spin atomic.Uint64
	for round := uint64(1); time.Now().Before(until) && ctx.Err() == nil; round++ {
		rounds.Add(1)
		// a fresh sender device per round: 32 bytes are a valid ed25519 public key encoding
		devicePK := make([]byte, 32)
		binary.BigEndian.PutUint64(devicePK, round)
		item := &messageItem{op: op, headers: &protocoltypes.MessageHeaders{DevicePk: devicePK, Counter: 1}}

		// the message arrives: the loop will find the chain key unknown and park it ...
		released := make(chan struct{})
		go func() {
			defer close(released)
			// ... while, a varying instant later, the announcement of that sender is handled:
			// RegisterChainKey (here: the stub learns the key) followed by the release call,
			// exactly as GroupContext.handleGroupMetadataEvent does.
			for i := uint64(0); i < (round*7919)%1024; i++ {
				spin.Add(1)
			}
			stub.knownUpTo.Store(round)
			m.ProcessMessageQueueForDevicePK(ctx, devicePK)
		}()
		m.messagesQueue.Add(item)
		<-released

		// Both the arrival and the registration are over. Whatever their order, no further event
		// of this sender is needed: the message must come out.
		//
		// (While waiting, messages of ANOTHER sender whose key is known keep arriving. They
		// cannot release anything parked for this round's sender; they only make sure the
		// consumer is not asleep on a non-empty main queue, which is a different defect of the
		// unchanged tree - the lost wake-up of queue.SimpleQueue, property C15.)
		deadline := time.After(2 * time.Second)
	wait:
		for {
			select {
			case e := <-delivered.Out():
				if bytes.Equal(e.(*protocoltypes.GroupMessageEvent).Message, devicePK) {
					break wait
				}
			case <-time.After(2 * time.Millisecond):
				m.messagesQueue.Add(&messageItem{op: op, headers: &protocoltypes.MessageHeaders{DevicePk: otherPK, Counter: 1}})
			case <-ctx.Done():
				return ""
			case <-deadline:
				size, _ := m.CacheSizeForDevicePK(devicePK)
				m.muDeviceCaches.RLock()
				flag := m.deviceCaches[string(devicePK)].hasKnownChainKey
				m.muDeviceCaches.RUnlock()
				if size != 1 || !flag {
					return fmt.Sprintf("round %d: unexpected state (device queue size %d, flag %v)", round, size, flag)
				}
				return fmt.Sprintf("round %d: the chain key of the sender is registered (hasKnownChainKey=%v), ProcessMessageQueueForDevicePK has returned, "+
					"messages of other senders are flowing, and the message is still parked 2s later (device queue size %d): nothing will release it", round, flag, size)
			}
		}
	}
	return ""
}
