package rendezvous

import (
	"testing"
	"time"
)

// Demonstration for C17: a topic registered in an earlier period must resolve, now, to the
// point of the current period, i.e. a point whose deadline lies in the future.
func TestDemoC17ExpiredPointIsRotated(t *testing.T) {
	rp := NewRotationInterval(time.Second)
	rp.RegisterRotation(time.Now().Add(-3*time.Second), "topic", []byte("seed"))

	p, err := rp.PointForTopic("topic")
	if err != nil {
		t.Fatal(err)
	}
	if !p.Deadline().After(time.Now()) {
		t.Fatalf("resolved point has a deadline in the past (%s ago): stale period returned", time.Since(p.Deadline()))
	}
	if old := (&Point{deadline: time.Now().Add(-time.Minute)}); !old.IsExpired() {
		t.Fatalf("a point whose deadline passed a minute ago reports IsExpired() == false")
	}
	if fresh := (&Point{deadline: time.Now().Add(time.Minute)}); fresh.IsExpired() {
		t.Fatalf("a point whose deadline is a minute away reports IsExpired() == true")
	}
}
