// Demonstration for C02 (belongs in pkg/secretstore of /repo, package secretstore_test).
//
// registerChainKey looks up "is this device already registered?" BEFORE taking the message
// lock and writes the precomputed window and the chain key AFTER taking it, without looking
// again. Two registrations of the same announcement (the live metadata-event handler and the
// catch-up at group activation run concurrently) can therefore both pass the test; the second
// one then overwrites the state the first one created — after messages have already been
// opened — and rewinds the chain key. From then on the window is one key short: a message with
// counter k <= c + window + opened is not openable although the property says it is.
//
// The interleaving is forced deterministically through the store's injected logger: the debug
// line "registering chain key" is emitted exactly between the lookup and the lock.
package secretstore_test

import (
	"context"
	"fmt"
	"sync"
	"testing"
	"time"

	"github.com/ipfs/go-cid"
	"github.com/ipfs/go-datastore"
	dssync "github.com/ipfs/go-datastore/sync"
	mh "github.com/multiformats/go-multihash"
	"go.uber.org/zap"
	"go.uber.org/zap/zapcore"
	"google.golang.org/protobuf/proto"

	"berty.tech/weshnet/v2/pkg/protocoltypes"
	"berty.tech/weshnet/v2/pkg/secretstore"
)

func TestDemoC02DuplicateRegistrationRace(t *testing.T) {
	ctx, cancel := context.WithTimeout(context.Background(), 20*time.Second)
	defer cancel()

	const window = 2

	// the first "registering chain key" line blocks until released; later ones pass
	var (
		mu      sync.Mutex
		armed   bool
		seen    int
		blocked = make(chan struct{})
		release = make(chan struct{})
	)
	hook := zap.Hooks(func(e zapcore.Entry) error {
		if e.Message != "registering chain key" {
			return nil
		}
		mu.Lock()
		if !armed {
			mu.Unlock()
			return nil
		}
		seen++
		first := seen == 1
		mu.Unlock()
		if first {
			close(blocked)
			select {
			case <-release:
			case <-ctx.Done():
			}
		}
		return nil
	})
	logger, err := zap.NewDevelopment(hook)
	if err != nil {
		t.Fatal(err)
	}

	sender, err := secretstore.NewSecretStore(dssync.MutexWrap(datastore.NewMapDatastore()), &secretstore.NewSecretStoreOptions{PreComputedKeysCount: window})
	if err != nil {
		t.Fatal(err)
	}
	receiver, err := secretstore.NewSecretStore(dssync.MutexWrap(datastore.NewMapDatastore()), &secretstore.NewSecretStoreOptions{PreComputedKeysCount: window, Logger: logger})
	if err != nil {
		t.Fatal(err)
	}

	g, _, err := protocoltypes.NewGroupMultiMember()
	if err != nil {
		t.Fatal(err)
	}
	gPK, err := g.GetPubKey()
	if err != nil {
		t.Fatal(err)
	}
	if err := sender.PutGroup(ctx, g); err != nil {
		t.Fatal(err)
	}
	if err := receiver.PutGroup(ctx, g); err != nil {
		t.Fatal(err)
	}
	sMD, err := sender.GetOwnMemberDeviceForGroup(g)
	if err != nil {
		t.Fatal(err)
	}
	rMD, err := receiver.GetOwnMemberDeviceForGroup(g)
	if err != nil {
		t.Fatal(err)
	}

	// the sender announces its chain key (counter c = 0) to the receiver, then seals 4 messages
	announcement, err := sender.GetShareableChainKey(ctx, g, rMD.Member())
	if err != nil {
		t.Fatal(err)
	}
	type sealed struct {
		data []byte
		id   cid.Cid
	}
	var msgs []sealed
	for i := 1; i <= 4; i++ {
		payload, err := proto.Marshal(&protocoltypes.EncryptedMessage{Plaintext: []byte(fmt.Sprintf("message %d", i))})
		if err != nil {
			t.Fatal(err)
		}
		data, err := sender.SealEnvelope(ctx, g, payload)
		if err != nil {
			t.Fatal(err)
		}
		sum, _ := mh.Sum(data, mh.SHA2_256, -1)
		msgs = append(msgs, sealed{data, cid.NewCidV1(cid.Raw, sum)})
	}
	open := func(i int) error {
		env, headers, err := receiver.OpenEnvelopeHeaders(msgs[i-1].data, g)
		if err != nil {
			return err
		}
		_, err = receiver.OpenEnvelopePayload(ctx, env, headers, gPK, rMD.Device(), msgs[i-1].id)
		return err
	}

	// registration B passes the "already registered?" test and is held just before the lock
	mu.Lock()
	armed = true
	mu.Unlock()
	doneB := make(chan error, 1)
	go func() { doneB <- receiver.RegisterChainKey(ctx, g, sMD.Device(), announcement) }()
	select {
	case <-blocked:
	case <-ctx.Done():
		t.Fatal("registration B never reached the point between test and lock")
	}

	// registration A of the same announcement runs completely, then message 1 is opened
	if err := receiver.RegisterChainKey(ctx, g, sMD.Device(), announcement); err != nil {
		t.Fatal(err)
	}
	if err := open(1); err != nil {
		t.Fatalf("message 1 (inside the initial window) does not open: %v", err)
	}

	// now B continues: the same announcement registered "again"
	close(release)
	select {
	case err := <-doneB:
		if err != nil {
			t.Fatal(err)
		}
	case <-ctx.Done():
		t.Fatal("registration B did not finish")
	}

	if err := open(2); err != nil {
		t.Fatalf("message 2 does not open: %v", err)
	}
	// c = 0, window = 2, two messages opened: every k <= 0 + 2 + 2 = 4 must be openable
	if err := open(4); err != nil {
		t.Fatalf("registering the same announcement again rewound the ratchet: message 4 must be openable after messages 1 and 2 were opened (k <= c + window + opened), got: %v", err)
	}
}
