// Demonstration for verification property C13 (event listings follow log order).
// Belongs in the root directory of /repo (package weshnet), next to store_message_test.go.
//
// It appends a few events to a group's logs on ONE device (no replication involved) and checks
// that MessageStore.ListEvents / MetadataStore.ListEvents
//   - list them oldest first when reverse is false, and exactly reversed when reverse is true;
//   - return exactly the inclusive range between since and until;
//   - refuse a range whose since lies after its until.
//
// On the unchanged sources both stores list GetEntries().Reverse(): a locally written log comes
// out newest first, "reverse" lists oldest first, the valid range (since=#1, until=#2) is refused
// with ErrInvalidRange and the inverted range (since=#2, until=#1) is accepted.
package weshnet

import (
	"context"
	"fmt"
	"testing"
	"time"

	"github.com/stretchr/testify/assert"
	"github.com/stretchr/testify/require"

	"berty.tech/weshnet/v2/pkg/errcode"
	"berty.tech/weshnet/v2/pkg/protocoltypes"
	"berty.tech/weshnet/v2/pkg/testutil"
)

// c13MessageLabels / c13MetadataLabels read a listing to its end and returns the events as "#<position in append order>";
// events that were not appended by the test are skipped when skipOthers is set.
func c13MessageLabels(t *testing.T, ch <-chan *protocoltypes.GroupMessageEvent, label map[string]string) []string {
	t.Helper()
	out := []string{}
	timeout := time.After(20 * time.Second)
	for {
		select {
		case evt, ok := <-ch:
			if !ok {
				return out
			}
			out = append(out, label[string(evt.EventContext.Id)])
		case <-timeout:
			t.Fatal("timeout while reading the message listing")
			return nil
		}
	}
}

func c13MetadataLabels(t *testing.T, ch <-chan *protocoltypes.GroupMetadataEvent, label map[string]string, skipOthers bool) []string {
	t.Helper()
	out := []string{}
	timeout := time.After(20 * time.Second)
	for {
		select {
		case evt, ok := <-ch:
			if !ok {
				return out
			}
			l, mine := label[string(evt.EventContext.Id)]
			if !mine {
				if skipOthers {
					continue
				}
				l = "other"
			}
			out = append(out, l)
		case <-timeout:
			t.Fatal("timeout while reading the metadata listing")
			return nil
		}
	}
}

func TestC13_ListEvents_FollowLogOrder_LocalLog(t *testing.T) {
	testutil.FilterSpeed(t, testutil.Fast)

	ctx, cancel := context.WithTimeout(context.Background(), 60*time.Second)
	defer cancel()

	peers, _, cleanup := CreatePeersWithGroupTest(ctx, t, "/tmp/c13_listing_order", 1, 1)
	defer cleanup()

	const count = 4

	t.Run("messages", func(t *testing.T) {
		store := peers[0].GC.MessageStore()

		ids := [][]byte{} // entry ids in the order they were appended: this IS the log order
		label := map[string]string{}
		for i := 0; i < count; i++ {
			op, err := store.AddMessage(ctx, []byte(fmt.Sprintf("message %d", i)))
			require.NoError(t, err)
			id := op.GetEntry().GetHash().Bytes()
			ids = append(ids, id)
			label[string(id)] = fmt.Sprintf("#%d", i)
		}

		ch, err := store.ListEvents(ctx, nil, nil, false)
		require.NoError(t, err)
		assert.Equal(t, []string{"#0", "#1", "#2", "#3"}, c13MessageLabels(t, ch, label), "forward listing must be oldest first")

		ch, err = store.ListEvents(ctx, nil, nil, true)
		require.NoError(t, err)
		assert.Equal(t, []string{"#3", "#2", "#1", "#0"}, c13MessageLabels(t, ch, label), "reverse listing must be newest first")

		// since=#1, until=#2 is a valid, non-empty range
		ch, err = store.ListEvents(ctx, ids[1], ids[2], false)
		if assert.NoError(t, err, "since=#1 until=#2 is a valid range") {
			assert.Equal(t, []string{"#1", "#2"}, c13MessageLabels(t, ch, label))
		}

		// since=#1 alone lists #1..#3
		ch, err = store.ListEvents(ctx, ids[1], nil, false)
		if assert.NoError(t, err) {
			assert.Equal(t, []string{"#1", "#2", "#3"}, c13MessageLabels(t, ch, label), "since=#1 lists from #1 to the newest entry")
		}

		// since after until is refused
		ch, err = store.ListEvents(ctx, ids[2], ids[1], false)
		if assert.Error(t, err, "since=#2 until=#1 is an inverted range and must be refused") {
			assert.True(t, errcode.Is(err, errcode.ErrCode_ErrInvalidRange))
		} else {
			t.Logf("the inverted range listed %v", c13MessageLabels(t, ch, label))
		}
	})

	t.Run("metadata", func(t *testing.T) {
		store := peers[0].GC.MetadataStore()

		ids := [][]byte{}
		label := map[string]string{}
		for i := 0; i < count; i++ {
			op, err := store.SendAppMetadata(ctx, []byte(fmt.Sprintf("metadata %d", i)))
			require.NoError(t, err)
			id := op.GetEntry().GetHash().Bytes()
			ids = append(ids, id)
			label[string(id)] = fmt.Sprintf("#%d", i)
		}

		// the log also holds the events written when the group was opened: they are skipped here
		ch, err := store.ListEvents(ctx, nil, nil, false)
		require.NoError(t, err)
		assert.Equal(t, []string{"#0", "#1", "#2", "#3"}, c13MetadataLabels(t, ch, label, true), "forward listing must be oldest first")

		ch, err = store.ListEvents(ctx, nil, nil, true)
		require.NoError(t, err)
		assert.Equal(t, []string{"#3", "#2", "#1", "#0"}, c13MetadataLabels(t, ch, label, true), "reverse listing must be newest first")

		ch, err = store.ListEvents(ctx, ids[1], ids[2], false)
		if assert.NoError(t, err, "since=#1 until=#2 is a valid range") {
			assert.Equal(t, []string{"#1", "#2"}, c13MetadataLabels(t, ch, label, false))
		}

		ch, err = store.ListEvents(ctx, ids[2], ids[1], false)
		if assert.Error(t, err, "since=#2 until=#1 is an inverted range and must be refused") {
			assert.True(t, errcode.Is(err, errcode.ErrCode_ErrInvalidRange))
		} else {
			t.Logf("the inverted range listed %v", c13MetadataLabels(t, ch, label, false))
		}
	})
}
