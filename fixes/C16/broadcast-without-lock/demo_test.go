// C16 demonstration (defect 2 of 2: Broadcast without the condition's lock) — belongs in the
// ROOT directory of the repository (package weshnet), next to connectedness_manager.go, e.g.
// as connectedness_manager_missed_update_test.go.
//
// On the unchanged sources UpdateState changes a peer's status and broadcasts holding only
// muState, not the group's notify.L. A waiter that has just compared the states (updateStatus
// released muState) and has not yet registered in notify.Wait misses the broadcast and
// sleeps although the tracked state differs from what it saw.
//
// AssociatePeer is only called before the waiter starts, so the lock-order inversion (the
// other defect) cannot interfere. Every wait is bounded: the test FAILS after 1-2 s on the
// defective code (typically within the first 100 updates) and PASSES after its 3 s budget
// with fix.diff applied.
//
//	go test -count=1 -run TestC16ConnectednessNoMissedUpdate -v .

package weshnet

import (
	"context"
	"sync/atomic"
	"testing"
	"time"

	peer "github.com/libp2p/go-libp2p/core/peer"
)

func TestC16ConnectednessNoMissedUpdate(t *testing.T) {
	const budget = 3 * time.Second
	m := NewConnectednessManager()
	p := peer.ID("c16-peer")
	m.AssociatePeer("g", p)

	ctx, cancel := context.WithCancel(context.Background())
	defer cancel()

	// the waiter publishes what it was told through atomics, so that the updater can react
	// within nanoseconds (a channel hand-off would park the updater for microseconds and
	// the next update would always find the waiter already asleep and registered)
	var reportSeq, lastStatus atomic.Int64
	go func() {
		seen := PeersConnectedness{}
		for {
			updated, ok := m.WaitForConnectednessChange(ctx, "g", seen)
			if !ok {
				return
			}
			if len(updated) > 0 {
				lastStatus.Store(int64(seen[p]))
				reportSeq.Add(1)
			}
		}
	}()

	// contention on muState only (updates that change nothing: no write, no broadcast, so
	// they can never wake the waiter): with goroutines queued on the mutex the waiter's
	// own Unlock in updateStatus takes the slow path, which widens the gap between its
	// comparison and its registration in notify.Wait
	for k := 0; k < 6; k++ {
		other := peer.ID("c16-noise-" + string(rune('a'+k)))
		go func() {
			for ctx.Err() == nil {
				m.UpdateState(other, ConnectednessTypeDisconnected)
			}
		}()
	}

	waitReport := func(seq int64) bool {
		start := time.Now()
		for n := 0; reportSeq.Load() < seq; n++ {
			if n%4096 == 4095 && time.Since(start) > time.Second {
				return false
			}
		}
		return true
	}

	// initial report (peer associated, disconnected)
	if !waitReport(1) {
		t.Fatal("no initial report")
	}

	sink := 0
	start := time.Now()
	rounds := 0
	for ; time.Since(start) < budget; rounds++ {
		want := ConnectednessTypeConnected
		if rounds%2 == 1 {
			want = ConnectednessTypeDisconnected
		}
		// sweep a small delay so that the update lands at varying points of the waiter's
		// "compare under muState, release it, then register in notify.Wait" sequence
		for k := 0; k < (rounds*7)%1024; k++ {
			sink += k
		}
		seq := reportSeq.Load() + 1
		m.UpdateState(p, want)
		if !waitReport(seq) {
			t.Fatalf("missed update in round %d: the peer's status changed to %d, the waiter last saw %d, and it is still asleep after 1s (UpdateState broadcast without the condition's lock, between the waiter's comparison and its registration)", rounds, want, lastStatus.Load())
		}
		if got := ConnectednessType(lastStatus.Load()); got != want {
			t.Fatalf("round %d: waiter reported status %d, want %d", rounds, got, want)
		}
	}
	t.Logf("%d updates, none missed (sink %d)", rounds, sink&1)
}
