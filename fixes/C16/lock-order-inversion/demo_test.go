// C16 demonstration (defect 1 of 2: lock-order inversion) — belongs in the ROOT directory of
// the repository (package weshnet), next to connectedness_manager.go, e.g. as
// connectedness_manager_deadlock_test.go.
//
// On the unchanged sources AssociatePeer takes muState and then the group's notify.L, while
// WaitForConnectednessChange holds notify.L and then (in updateStatus) takes muState. One
// goroutine associating peers and one waiting block each other for ever.
//
// The test bounds every wait: it FAILS within about a second on the defective code (it never
// hangs) and PASSES in a few milliseconds with fix.diff applied.
//
//	go test -count=1 -run TestC16ConnectednessNoDeadlock -v .

package weshnet

import (
	"context"
	"sync/atomic"
	"testing"
	"time"

	peer "github.com/libp2p/go-libp2p/core/peer"
)

func TestC16ConnectednessNoDeadlock(t *testing.T) {
	const rounds = 200000
	m := NewConnectednessManager()
	p := peer.ID("c16-peer")
	m.AssociatePeer("g", p)

	ctx, cancel := context.WithCancel(context.Background())
	defer cancel()

	// waiter: keeps watching the group
	go func() {
		seen := PeersConnectedness{}
		for {
			if _, ok := m.WaitForConnectednessChange(ctx, "g", seen); !ok {
				return
			}
		}
	}()

	// updater: status updates keep the waiter busy re-checking, AssociatePeer takes the
	// two locks in the opposite order
	var progress atomic.Int64
	done := make(chan struct{})
	go func() {
		defer close(done)
		for i := 0; i < rounds; i++ {
			if i%2 == 0 {
				m.UpdateState(p, ConnectednessTypeConnected)
			} else {
				m.UpdateState(p, ConnectednessTypeDisconnected)
			}
			m.AssociatePeer("g", p)
			progress.Store(int64(i))
		}
	}()

	deadline := time.After(20 * time.Second)
	tick := time.NewTicker(500 * time.Millisecond)
	defer tick.Stop()
	last := int64(-1)
	for {
		select {
		case <-done:
			return
		case <-deadline:
			t.Fatalf("updater did not finish in time (at round %d of %d)", progress.Load(), rounds)
		case <-tick.C:
			cur := progress.Load()
			if cur == last {
				t.Fatalf("deadlock: no progress for 500ms at round %d of %d: AssociatePeer (muState -> notify.L) and WaitForConnectednessChange (notify.L -> muState) block each other", cur, rounds)
			}
			last = cur
		}
	}
}
