// Demonstration for property C15 (lost wake-up in SimpleQueue).
// This file belongs in /repo/internal/queue/ (package queue); it uses only the exported API.
//
// SimpleQueue.Add signals the consumer with a non-blocking send on an UNBUFFERED channel,
// while WaitForItem releases the mutex before it starts receiving. An Add that runs in the
// window between the consumer's Unlock and its select finds no receiver, drops its signal
// (select/default), and the consumer then sleeps although the queue is non-empty.
//
// Each round starts one consumer (WaitForItem with a deadline) and one producer (a single Add
// a few nanoseconds later, the delay swept over a small range so that some rounds land in the
// window). On a correct queue every wait returns the item immediately. A wait that returns
// "no item" (deadline) although the item was added is a lost wake-up.
//
// Run:  go test -count=1 -run TestDemoLostWakeup ./internal/queue
package queue

import (
	"context"
	"runtime"
	"sync/atomic"
	"testing"
	"time"
)

func TestDemoLostWakeup(t *testing.T) {
	if runtime.GOMAXPROCS(0) < 2 {
		t.Skip("needs two processors to interleave producer and consumer")
	}

	const (
		maxRounds   = 300000
		waitTimeout = 100 * time.Millisecond // per wait; only ever elapses on a lost wake-up
		budget      = 25 * time.Second       // whole test
	)

	q := NewSimpleQueue[int]("demo", &noopTracer[int]{})
	deadline := time.Now().Add(budget)
	var sink atomic.Int64

	for round := 0; round < maxRounds && time.Now().Before(deadline); round++ {
		type result struct {
			item int
			ok   bool
			took time.Duration
		}
		started := make(chan struct{})
		done := make(chan result, 1)

		go func() {
			ctx, cancel := context.WithTimeout(context.Background(), waitTimeout)
			defer cancel()
			close(started)
			begin := time.Now()
			item, ok := q.WaitForItem(ctx)
			done <- result{item, ok, time.Since(begin)}
		}()

		<-started
		// sweep the producer's delay so that Add lands at different points of WaitForItem
		for i, spin := 0, round%400; i < spin; i++ {
			sink.Add(1)
		}
		q.Add(round + 1)

		var r result
		select {
		case r = <-done:
		case <-time.After(5 * time.Second):
			t.Fatalf("round %d: WaitForItem did not return at all", round)
		}

		if !r.ok && r.took < waitTimeout/2 {
			// the context was already (nearly) expired when the wait began: the machine is
			// overloaded and the goroutine was descheduled; not a lost wake-up. Drain and go on.
			q.Pop()
			continue
		}
		if !r.ok {
			left, still := q.Pop()
			t.Fatalf("lost wake-up in round %d: item %d was added while the consumer was entering its wait, "+
				"WaitForItem stayed blocked for %v until its context expired and returned 'no item'; "+
				"the item was still in the queue afterwards (Pop -> %d, %v)", round, round+1, r.took, left, still)
		}
		if r.item != round+1 {
			t.Fatalf("round %d: got item %d, want %d", round, r.item, round+1)
		}
	}
}
