package handshake

import (
	"context"
	crand "crypto/rand"
	"io"
	"testing"
	"time"

	p2pcrypto "github.com/libp2p/go-libp2p/core/crypto"
	"go.uber.org/zap"
	"golang.org/x/crypto/nacl/box"
	"google.golang.org/protobuf/proto"

	"berty.tech/weshnet/v2/pkg/cryptoutil"
	"berty.tech/weshnet/v2/pkg/protoio"
)

// Demonstration for C06: a peer that sends a low-order X25519 point as its ephemeral key makes
// the "shared ephemeral secret" a public constant K0. A malicious responder M harvests
// sig_A(K0) from an honest requester A in one session, then replays it as a requester towards
// any victim V, which reports A as the authenticated peer although A never took part.
func TestDemoC06LowOrderEphemeralCrossSessionReplay(t *testing.T) {
	ctx, cancel := context.WithTimeout(context.Background(), 10*time.Second)
	defer cancel()
	logger := zap.NewNop()

	newKey := func() p2pcrypto.PrivKey {
		sk, _, err := p2pcrypto.GenerateEd25519Key(crand.Reader)
		if err != nil {
			t.Fatal(err)
		}
		return sk
	}
	skA, skM, skV := newKey(), newKey(), newKey() // honest requester, attacker, victim responder

	zeroPoint := [cryptoutil.KeySize]byte{} // low-order point (order 1 after clamping the scalar)
	_, anyPriv, _ := box.GenerateKey(crand.Reader)
	var k0 [cryptoutil.KeySize]byte
	box.Precompute(&k0, &zeroPoint, anyPriv) // the same constant for every private key

	type pipeEnd struct {
		r protoio.Reader
		w protoio.Writer
	}
	mkPipes := func() (honest, attacker pipeEnd, closeAll func()) {
		r1, w1 := io.Pipe() // honest -> attacker
		r2, w2 := io.Pipe() // attacker -> honest
		honest = pipeEnd{protoio.NewDelimitedReader(r2, 2048), protoio.NewDelimitedWriter(w1)}
		attacker = pipeEnd{protoio.NewDelimitedReader(r1, 2048), protoio.NewDelimitedWriter(w2)}
		return honest, attacker, func() { r1.Close(); w1.Close(); r2.Close(); w2.Close() }
	}

	// ---- session 1: A (honest requester) contacts M; M answers with the zero point and harvests sig_A(K0)
	var harvested []byte
	{
		honest, attacker, closeAll := mkPipes()
		done := make(chan error, 1)
		go func() {
			done <- RequestUsingReaderWriter(ctx, logger, honest.r, honest.w, skA, skM.GetPublic())
		}()

		var helloA HelloPayload
		if err := attacker.r.ReadMsg(&helloA); err != nil {
			t.Fatal(err)
		}
		if err := attacker.w.WriteMsg(&HelloPayload{EphemeralPubKey: zeroPoint[:]}); err != nil {
			t.Fatal(err)
		}
		var env BoxEnvelope
		gotEnv := make(chan error, 1)
		go func() { gotEnv <- attacker.r.ReadMsg(&env) }()
		select {
		case err1 := <-done:
			closeAll()
			if err1 == nil {
				t.Fatal("honest requester completed a handshake with an attacker that never answered step 4")
			}
			t.Logf("honest requester refused the low-order ephemeral key: %v", err1)
			return // repaired behaviour: nothing to harvest, no proof to replay
		case err := <-gotEnv:
			if err != nil {
				t.Fatal(err)
			}
		}
		// M opens step 3: key = sha256(K0 | a.M)
		aPub, err := cryptoutil.KeySliceToArray(helloA.EphemeralPubKey)
		if err != nil {
			t.Fatal(err)
		}
		mongM, err := cryptoutil.EdwardsToMontgomeryPriv(skM)
		if err != nil {
			t.Fatal(err)
		}
		var aM [cryptoutil.KeySize]byte
		box.Precompute(&aM, aPub, mongM)
		key := cryptoutil.ConcatAndHashSha256(k0[:], aM[:])
		plain, ok := box.OpenAfterPrecomputation(nil, env.Box, &nonceRequesterAuthenticate, key)
		if !ok {
			t.Fatal("attacker could not open step 3 although it is the addressed responder")
		}
		harvested = plain
		closeAll()
		<-done
	}
	var auth RequesterAuthenticatePayload
	if err := proto.Unmarshal(harvested, &auth); err != nil {
		t.Fatal(err)
	}

	// ---- session 2: M plays requester towards V with the zero point and replays A's proof
	honest, attacker, closeAll := mkPipes()
	defer closeAll()
	type result struct {
		pk  p2pcrypto.PubKey
		err error
	}
	done := make(chan result, 1)
	go func() {
		pk, err := ResponseUsingReaderWriter(ctx, logger, honest.r, honest.w, skV)
		done <- result{pk, err}
	}()
	go func() {
		_ = attacker.w.WriteMsg(&HelloPayload{EphemeralPubKey: zeroPoint[:]})
		var helloV HelloPayload
		if err := attacker.r.ReadMsg(&helloV); err != nil {
			return
		}
		// step-3 key as V computes it: sha256(K0 | zeroPoint.V) = sha256(K0 | K0)
		key := cryptoutil.ConcatAndHashSha256(k0[:], k0[:])
		boxed := box.SealAfterPrecomputation(nil, harvested, &nonceRequesterAuthenticate, key)
		if err := attacker.w.WriteMsg(&BoxEnvelope{Box: boxed}); err != nil {
			return
		}
		var accept BoxEnvelope
		if err := attacker.r.ReadMsg(&accept); err != nil {
			return
		}
		_ = attacker.w.WriteMsg(&RequesterAcknowledgePayload{Success: true})
	}()

	select {
	case res := <-done:
		if res.err == nil {
			t.Fatalf("victim reports peer %v as authenticated although that account never took part in this session (equals A: %v)", res.pk, res.pk.Equals(skA.GetPublic()))
		}
		t.Logf("handshake refused as it must be: %v", res.err)
	case <-ctx.Done():
		t.Fatal("timeout")
	}
}
