package weshnet

import (
	"context"
	"testing"

	"github.com/stretchr/testify/require"

	"berty.tech/weshnet/v2/pkg/protocoltypes"
)

// Demonstration for C12: an invitation is accepted only if it designates a multi-member
// group; a correctly signed group marked Contact/Account/Undefined must be refused and
// nothing may be appended.
func TestDemoC12GroupJoinRefusesNonMultiMember(t *testing.T) {
	ctx, cancel := context.WithCancel(context.Background())
	defer cancel()

	peers, _, cleanup := CreatePeersWithGroupTest(ctx, t, "/tmp/member_test", 1, 1)
	defer cleanup()

	api := ipfsAPIUsingMockNet(ctx, t)

	ownCG, err := peers[0].DB.openAccountGroup(ctx, nil, api)
	require.NoError(t, err)

	for _, gt := range []protocoltypes.GroupType{
		protocoltypes.GroupType_GroupTypeContact,
		protocoltypes.GroupType_GroupTypeAccount,
		protocoltypes.GroupType_GroupTypeUndefined,
	} {
		g, _, err := NewGroupMultiMember()
		require.NoError(t, err)
		g.GroupType = gt // the secret is still correctly signed by the group key
		require.NoError(t, g.IsValid())

		before := len(ownCG.MetadataStore().OpLog().GetEntries().Slice())
		_, err = ownCG.MetadataStore().GroupJoin(ctx, g)
		require.Error(t, err, "a signed group of type %s was joined", gt)
		require.Equal(t, before, len(ownCG.MetadataStore().OpLog().GetEntries().Slice()), "an event was appended for a refused join")
	}
	require.Empty(t, ownCG.MetadataStore().ListMultiMemberGroups())
}
