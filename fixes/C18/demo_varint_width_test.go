package protoio

import (
	"bytes"
	"encoding/binary"
	"io"
	"testing"

	"berty.tech/weshnet/v2/pkg/protocoltypes"
)

// Demonstration for C18 (meaningful where int is 32 bits, e.g. GOARCH=386/arm): a length
// prefix of 2^32+5 must be refused as exceeding the limit, not read as a 5-byte frame.
// On 64-bit targets the prefix is refused either way; the test documents the input.
func TestDemoC18VarintPrefixAboveWordSize(t *testing.T) {
	var prefix [binary.MaxVarintLen64]byte
	n := binary.PutUvarint(prefix[:], (1<<32)+5)
	stream := append(append([]byte{}, prefix[:n]...), []byte{0x0a, 0x03, 'a', 'b', 'c'}...)

	r := NewDelimitedReader(bytes.NewReader(stream), 1024)
	err := r.ReadMsg(&protocoltypes.ShareableContact{})
	if err != io.ErrShortBuffer {
		t.Fatalf("frame with prefix 2^32+5 and limit 1024: got %v, want io.ErrShortBuffer", err)
	}
}
