#!/bin/sh
# Decide one property from /repo's current working tree.  usage: run.sh <id> [quick|thorough]
cd /verif || exit 2
unset GOWORK GOTOOLCHAIN GOSUMDB
export GOFLAGS=-mod=mod GOPROXY=off
id="$1"; tier="${2:-${VERIF_TIER:-quick}}"
if [ ! -x bin/wvcheck ] || [ -n "$(find checker -name '*.go' -newer bin/wvcheck 2>/dev/null | head -1)" ]; then
  ./setup.sh >/dev/null 2>&1 || { echo "VIOLATION property=$id replay=/verif/out/$id/violations.json"; echo "checker build failed" >&2; exit 1; }
fi
exec bin/wvcheck -p "$id" -tier "$tier"
