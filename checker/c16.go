package main

// C16: connectedness tracker and notify primitive — no deadlock, no missed update.
//
// Everything here is decided from the shape of the type-checked SSA. The anchors are the
// exported API of internal/notify (type Notify, its field L, New, Wait, Broadcast) and the
// module struct types that own a Notify (found through the field type). Lock identity is a
// class (package.Type.fieldpath); the lock a Notify is built on is resolved from the
// notify.New construction sites (fresh mutex, or an alias of another field).

import (
	"fmt"
	"go/token"
	"go/types"
	"os"
	"sort"
	"strings"
	"time"

	"golang.org/x/tools/go/ssa"
)

const c16PkgNotify = modulePath + "/internal/notify"

func init() {
	register(&PropertyDef{
		ID:    "C16",
		Title: "Connectedness tracker and notify primitives: no deadlock, no missed update",
		Explanation: "Decides, for every schedule at once, the locking shape that rules out the two failure modes of a closed-channel condition variable, for every module type that owns a notify.Notify (connectedness tracker, lifecycle manager, discovery peer cache, and as cross-checks the network-update and net-manager siblings). " +
			"(D1) the lock-order graph (acquisition-while-held edges, through callees, with the lock of each Notify resolved from its notify.New construction site) has no cycle and no re-acquisition through a lock of these types; a sync.WaitGroup takes part in the graph as a pseudo-lock (Add takes it until Done, Wait blocks on it): holding a lock while in WaitGroup.Wait and taking (or, in notify.Wait, re-taking) that lock while an Add is outstanding is a cycle. " +
			"(D2) every Broadcast is made with the condition's lock L write-held on every call path. " +
			"(D3) every Wait (or call of an unexported boolean wrapper around it) is made with L held, sits in a loop that reaches the Wait again after a wake-up, inside that loop the fields the waiter tests are only read with L held (test and registration form one critical section), every branch taken with L held on the way to the Wait tests only values of that state that were read with L held (no stale copy read before the lock or through a getter that releases it), and no other lock that a broadcaster of the same condition must take first stays held across the sleep. " +
			"(D4) Notify.Wait registers for the channel before it releases L, releases L before sleeping, re-acquires L on every path out of the select, returns false on the context arm and true on the signal arm; Broadcast closes the channel Wait sleeps on and forgets it; every store to that channel field in the notify package is either a first registration (field nil on that path) or goes with a close of the channel read from the field (the channel is shared by all sleeping waiters: dropping it unclosed orphans them). " +
			"(D5) after a cancelled Wait the caller reaches no further Wait and every return it can reach yields false. " +
			"(D6) every write (store, map insert) to a field the waiters' predicates read is followed by a Broadcast on that condition on every path from the write to a return of the function (through unexported helpers: of its callers; one Broadcast per element of a range loop counts; the branch on which the stored value equals the value read before is exempt), or preceded by one in the same critical section of L; get-or-create inserts of fresh objects and removals are exempt (removals are only noted). " +
			"(D7) one object per key for the objects waiters sleep on: every insert of a freshly created family object (GroupStatus, PeerStatus, topicUpdate) into a map field of a family object is dominated by the miss of a lookup of the same map made in the same write-locked critical section (same lock write-held at lookup and store, not released in between: no double-checked creation without re-check), and no entry of such a registry map is ever deleted (a waiter may still sleep on the removed object's condition). " +
			"(D8) the cancellation that reaches a wait is the caller's: at every synchronous call of Notify.Wait or of a function that hands one of its own context parameters to such a call (waiting primitives and their callers, up to 3 levels; calls made with go and closures started with go are goroutine boundaries), a function that has a request context of its own (a context.Context parameter, or a stream parameter offering Context()) passes a context derived from it (possibly wrapped by context.With*); a context that comes only from a long-lived field, context.Background/TODO or context.WithoutCancel is reported (the API route GroupDeviceStatus -> WaitForConnectednessChange is one of these chains). " +
			"(D9) unlock balance: in every function that releases a lock of these types (explicitly or by defer) no Unlock/RUnlock is executed where the lockset says the lock cannot be held in that mode — an explicit release needs the lock possibly held just before it (locally, or by every caller of an unexported helper), and at every return the deferred releases registered on the way are replayed against the locks still possibly held there (defer Unlock plus an explicit Unlock on the same path is reported); notify.Wait counts as release-then-reacquire. A surplus release is the unrecoverable runtime error 'sync: unlock of unlocked mutex': the property's cancelled wait does not return, the process dies. " +
			"Not decided: that a waiter returns exactly the peers whose status changed (functional content of the diff), fairness/promptness in real time, data races that are not lost wake-ups, behaviour of code that reaches these objects through reflection or unsafe; lock identity is per class, not per instance.",
		Trusted:     []string{"go/ssa (x/tools v0.29.0)", "sync.Mutex / sync.RWMutex / channel close semantics", "lock identity by owner type + field path; notify.New argument aliasing resolved at construction sites"},
		Assumptions: []string{"a Notify is only built by notify.New and only stored in the struct field it is constructed for; locks are not passed around as values outside the construction sites"},
		Floors:      map[string]int{"D1": 10, "D2": 5, "D3": 20, "D4": 9, "D5": 8, "D6": 5, "D7": 6, "D8": 10, "D9": 16},
		Run:         runC16,
	})
}

// ---------------------------------------------------------------------------
// classes

func c16Named(t types.Type) *types.Named {
	for {
		t = types.Unalias(t)
		p, ok := t.Underlying().(*types.Pointer)
		if !ok {
			break
		}
		if _, isNamed := t.(*types.Named); isNamed {
			break
		}
		t = p.Elem()
	}
	n, _ := types.Unalias(t).(*types.Named)
	return n
}

func c16TypeName(n *types.Named) string {
	if n == nil {
		return ""
	}
	if n.TypeArgs() != nil && n.TypeArgs().Len() > 0 {
		n = n.Origin()
	}
	if n.Obj().Pkg() == nil {
		return n.Obj().Name()
	}
	return n.Obj().Pkg().Name() + "." + n.Obj().Name()
}

func c16InModule(n *types.Named) bool {
	if n == nil || n.Obj().Pkg() == nil {
		return false
	}
	p := n.Obj().Pkg().Path()
	return p == modulePath || strings.HasPrefix(p, modulePath+"/")
}

// c16Class: class of a lock / condition value: root named type + field path, walking through
// pointer loads. "" when the root is not a module struct (bare mutex variable etc.: see below).
func c16Class(v ssa.Value) string {
	path := ""
	for i := 0; i < 16; i++ {
		switch x := v.(type) {
		case *ssa.FieldAddr:
			st := x.X.Type().Underlying().(*types.Pointer).Elem().Underlying().(*types.Struct)
			path = "." + st.Field(x.Field).Name() + path
			v = x.X
			continue
		case *ssa.Field:
			st := x.X.Type().Underlying().(*types.Struct)
			path = "." + st.Field(x.Field).Name() + path
			v = x.X
			continue
		case *ssa.UnOp:
			if x.Op == token.MUL {
				v = x.X
				continue
			}
		case *ssa.MakeInterface:
			v = x.X
			continue
		case *ssa.ChangeInterface:
			v = x.X
			continue
		case *ssa.ChangeType:
			v = x.X
			continue
		case *ssa.Phi:
			cls := ""
			for _, e := range x.Edges {
				if isNilConst(e) {
					continue
				}
				c := c16Class(e)
				if cls == "" {
					cls = c
				} else if c != cls {
					return ""
				}
			}
			if cls == "" {
				return ""
			}
			return cls + path
		}
		break
	}
	t := v.Type()
	for {
		p, ok := t.Underlying().(*types.Pointer)
		if !ok {
			break
		}
		t = p.Elem()
	}
	n, _ := types.Unalias(t).(*types.Named)
	if n != nil && n.Obj().Pkg() != nil && n.Obj().Pkg().Path() != "sync" {
		if _, isStruct := n.Underlying().(*types.Struct); isStruct || path == "" {
			return c16TypeName(n) + path
		}
	}
	// a bare lock: identify by the variable
	switch r := v.(type) {
	case *ssa.Global:
		return "global:" + r.Pkg.Pkg.Name() + "." + r.Name() + path
	case *ssa.Alloc:
		return "local:" + fnName(r.Parent()) + ":" + r.Comment + path
	case *ssa.FreeVar:
		return "captured:" + fnName(r.Parent().Parent()) + ":" + r.Name() + path
	}
	return ""
}

// c16DataClass: class of a data location: the chain of field selections on one object (no
// pointer loads are crossed): "pkg.T.f.g" and the root named type.
func c16DataClass(addr ssa.Value) (class string, root *types.Named, base ssa.Value) {
	path := ""
	v := addr
	for {
		switch x := v.(type) {
		case *ssa.FieldAddr:
			st := x.X.Type().Underlying().(*types.Pointer).Elem().Underlying().(*types.Struct)
			path = "." + st.Field(x.Field).Name() + path
			v = x.X
			continue
		case *ssa.Field:
			st := x.X.Type().Underlying().(*types.Struct)
			path = "." + st.Field(x.Field).Name() + path
			v = x.X
			continue
		}
		break
	}
	if path == "" {
		return "", nil, v
	}
	t := v.Type()
	if p, ok := t.Underlying().(*types.Pointer); ok {
		t = p.Elem()
	}
	n, _ := types.Unalias(t).(*types.Named)
	if n == nil {
		return "", nil, v
	}
	return c16TypeName(n) + path, n, v
}

// ---------------------------------------------------------------------------
// analysis state

type c16Cond struct {
	Owner  *types.Named
	Field  string
	Class  string // pkg.T.f
	Family map[string]bool
}

type c16Acq struct {
	Key   string // class/M ; class may start with "~" (relative to a Notify receiver)
	Reacq bool   // the function released this lock (held by its caller) before taking it again
	Via   string
}

type c16Edge struct {
	From, To string // class/M
	Fn       *ssa.Function
	Pos      token.Pos
	Via      string
}

type c16Flow struct {
	must, may map[ssa.Instruction]lockSet
	reacq     map[ssa.Instruction]bool
}

type c16An struct {
	c           *Ctx
	w           *World
	notifyT     *types.Named
	fnNew       *ssa.Function
	fnWait      *ssa.Function
	fnBcast     *ssa.Function
	conds       map[string]*c16Cond // by class
	parent      map[string]string   // union-find over lock classes
	flows       map[*ssa.Function]*c16Flow
	acq         map[*ssa.Function]map[string]c16Acq
	entry       map[*ssa.Function]lockSet
	entryBusy   map[*ssa.Function]bool
	bcast       map[*ssa.Function]map[string]bool
	pred        map[string]map[string]bool
	waitFns     map[*ssa.Function]bool
	dynCallers  map[*ssa.Function][]callSite
	notifyFam   map[string]bool
	famFields   map[string]int
	dynCallees  map[ssa.Instruction][]*ssa.Function
	waitHelpers map[*ssa.Function]bool
	mustMemo    map[string]bool
	mustBusy    map[string]bool
	ifaceC      map[string][]*ssa.Function
	unresolved  []string
}

func (a *c16An) find(x string) string {
	for {
		p, ok := a.parent[x]
		if !ok || p == x {
			return x
		}
		x = p
	}
}

func (a *c16An) union(x, y string) {
	rx, ry := a.find(x), a.find(y)
	if rx == ry {
		return
	}
	// representative: prefer the name that is not the L of a Notify, then the smaller
	xl, yl := strings.HasSuffix(rx, ".L"), strings.HasSuffix(ry, ".L")
	if (xl && !yl) || (xl == yl && ry < rx) {
		rx, ry = ry, rx
	}
	a.parent[ry] = rx
	if _, ok := a.parent[rx]; !ok {
		a.parent[rx] = rx
	}
}

func (a *c16An) isNotify(t types.Type) bool {
	n := c16Named(t)
	return n != nil && n.Obj() == a.notifyT.Obj()
}

func (a *c16An) notifyName() string { return c16TypeName(a.notifyT) }

// notifyFamily: Notify and the struct types nested in it by value (its channel and mutex may
// live one level down, in a value-embedded helper struct with its own methods).
func (a *c16An) notifyFamily() map[string]bool {
	if a.notifyFam != nil {
		return a.notifyFam
	}
	a.notifyFam = map[string]bool{}
	var add func(n *types.Named, depth int)
	add = func(n *types.Named, depth int) {
		if n == nil || depth > 4 || a.notifyFam[c16TypeName(n)] {
			return
		}
		st, ok := n.Underlying().(*types.Struct)
		if !ok || n.Obj().Pkg() == nil || n.Obj().Pkg().Path() != c16PkgNotify {
			return
		}
		a.notifyFam[c16TypeName(n)] = true
		for i := 0; i < st.NumFields(); i++ {
			if fn, ok := types.Unalias(st.Field(i).Type()).(*types.Named); ok {
				add(fn, depth+1)
			}
		}
	}
	add(a.notifyT, 0)
	return a.notifyFam
}

func (a *c16An) inNotifyFamily(t types.Type) bool {
	n := c16Named(t)
	return n != nil && a.notifyFamily()[c16TypeName(n)]
}

// famFieldID: a small integer naming (struct type of the notify family, field) for a field
// address, -1 for fields of other types. The same field has the same id whether it is reached
// from a *Notify or from a pointer to the nested struct inside one of that struct's methods.
func (a *c16An) famFieldID(fa *ssa.FieldAddr) int {
	pt, ok := fa.X.Type().Underlying().(*types.Pointer)
	if !ok {
		return -1
	}
	n, _ := types.Unalias(pt.Elem()).(*types.Named)
	if n == nil || !a.notifyFamily()[c16TypeName(n)] {
		return -1
	}
	st := n.Underlying().(*types.Struct)
	key := c16TypeName(n) + "." + st.Field(fa.Field).Name()
	if a.famFields == nil {
		a.famFields = map[string]int{}
	}
	id, ok := a.famFields[key]
	if !ok {
		id = len(a.famFields)
		a.famFields[key] = id
	}
	return id
}

// lockKey: the canonical key of a lock operation in fn ("class/M"); relative ("~.L/W") for
// locks reached from the receiver inside methods of Notify.
func (a *c16An) lockKey(op lockOp, recv ssa.Value) string {
	cls := c16Class(recv)
	if cls == "" {
		return ""
	}
	return a.canonClass(cls) + "/" + string(op.Mode)
}

func (a *c16An) canonClass(cls string) string {
	for nn := range a.notifyFamily() {
		if cls == nn || strings.HasPrefix(cls, nn+".") {
			return "~" + strings.TrimPrefix(cls, nn)
		}
	}
	return a.find(cls)
}

func c16LockRecv(ci ssa.CallInstruction) ssa.Value {
	cc := ci.Common()
	if cc.IsInvoke() {
		return cc.Value
	}
	if len(cc.Args) > 0 {
		return cc.Args[0]
	}
	return nil
}

// subst instantiates a relative key at a call site whose receiver is a Notify.
func (a *c16An) subst(key string, site ssa.CallInstruction) string {
	if !strings.HasPrefix(key, "~") {
		return key
	}
	cc := site.Common()
	if cc.IsInvoke() || len(cc.Args) == 0 || !a.inNotifyFamily(cc.Args[0].Type()) {
		return key
	}
	rc := c16Class(cc.Args[0])
	if rc == "" {
		return "?" + key[1:]
	}
	if rel := a.canonClass(rc); strings.HasPrefix(rel, "~") {
		// still relative to a receiver of the notify family (a method of Notify calling a
		// method of its nested struct): "~" + path of the nested field + rest
		return rel + key[1:]
	}
	i := strings.LastIndex(key, "/")
	return a.find(rc+key[1:i]) + key[i:]
}

func c16KeyClass(key string) string {
	if i := strings.LastIndex(key, "/"); i >= 0 {
		return key[:i]
	}
	return key
}

// c16Op: a mutex operation, or an operation on a sync.WaitGroup seen as a pseudo-lock: Add
// takes it (the counter is outstanding until Done), Done releases it, Wait probes it (blocks
// until every holder has released it, takes nothing).
type c16Op struct {
	lockOp
	WG    bool
	Probe bool
}

const c16WGPrefix = "waitgroup:"

func (a *c16An) opOf(ci ssa.CallInstruction) (c16Op, string, bool) {
	if op, ok := lockOpOf(ci); ok {
		return c16Op{lockOp: op}, a.lockKey(op, c16LockRecv(ci)), true
	}
	cc := ci.Common()
	key := calleeKey(cc)
	if !strings.HasPrefix(key, "(*sync.WaitGroup).") || len(cc.Args) == 0 {
		return c16Op{}, "", false
	}
	op := c16Op{WG: true}
	op.Instr = ci
	op.Mode = 'W'
	_, op.Deferred = ci.(*ssa.Defer)
	switch key[strings.LastIndex(key, ".")+1:] {
	case "Add":
		op.Acquire = true
		if len(cc.Args) > 1 {
			if n, isConst := constInt(cc.Args[1]); isConst && n < 0 {
				op.Acquire = false
			}
		}
	case "Done":
	case "Wait":
		op.Probe = true
	default:
		return c16Op{}, "", false
	}
	cls := c16Class(cc.Args[0])
	if cls == "" {
		return op, "", true
	}
	return op, c16WGPrefix + cls + "/W", true
}

// ---------------------------------------------------------------------------
// per-function lock flow (must-hold and may-hold before each instruction)

func (a *c16An) flow(fn *ssa.Function) *c16Flow {
	if f, ok := a.flows[fn]; ok {
		return f
	}
	f := &c16Flow{must: map[ssa.Instruction]lockSet{}, may: map[ssa.Instruction]lockSet{}, reacq: map[ssa.Instruction]bool{}}
	a.flows[fn] = f
	hasOp := false
	for _, b := range fn.Blocks {
		for _, in := range b.Instrs {
			if ci, ok := in.(ssa.CallInstruction); ok {
				if _, _, ok := a.opOf(ci); ok {
					hasOp = true
				}
			}
		}
	}
	if !hasOp {
		return f
	}
	type st struct{ must, may, rel lockSet }
	clone := func(s st) st { return st{s.must.clone(), s.may.clone(), s.rel.clone()} }
	transfer := func(b *ssa.BasicBlock, s st, record bool) st {
		cur := clone(s)
		for _, in := range b.Instrs {
			if record {
				f.must[in] = cur.must.clone()
				f.may[in] = cur.may.clone()
			}
			ci, ok := in.(ssa.CallInstruction)
			if !ok {
				continue
			}
			op, k, ok := a.opOf(ci)
			if !ok || k == "" || op.Probe {
				continue
			}
			if op.Deferred {
				// a deferred re-lock of a lock this function released for its caller
				if op.Acquire && cur.rel[k] && record {
					f.reacq[in] = true
				}
				continue
			}
			if op.Acquire {
				if cur.rel[k] {
					if record {
						f.reacq[in] = true
					}
					delete(cur.rel, k)
				}
				cur.must[k] = true
				cur.may[k] = true
			} else {
				if !cur.may[k] {
					cur.rel[k] = true
				}
				delete(cur.must, k)
				delete(cur.may, k)
			}
		}
		return cur
	}
	out := map[*ssa.BasicBlock]st{}
	in := map[*ssa.BasicBlock]st{}
	same := func(x, y st) bool { return sameSet(x.must, y.must) && sameSet(x.may, y.may) && sameSet(x.rel, y.rel) }
	changed := true
	for iter := 0; changed && iter < 60; iter++ {
		changed = false
		for _, b := range fn.Blocks {
			var s st
			if b == fn.Blocks[0] {
				s = st{lockSet{}, lockSet{}, lockSet{}}
			} else {
				first := true
				for _, p := range b.Preds {
					po, ok := out[p]
					if !ok {
						continue
					}
					if first {
						s = clone(po)
						first = false
					} else {
						s.must = intersect(s.must, po.must)
						s.rel = intersect(s.rel, po.rel)
						for k := range po.may {
							s.may[k] = true
						}
					}
				}
				if first {
					continue
				}
			}
			o := transfer(b, s, false)
			if prev, ok := out[b]; !ok || !same(prev, o) {
				out[b] = o
				changed = true
			}
			in[b] = s
		}
	}
	for _, b := range fn.Blocks {
		if s, ok := in[b]; ok {
			transfer(b, s, true)
		}
	}
	return f
}

func c16IsRoot(w *World, fn *ssa.Function) bool {
	if len(w.callGraph().callers[fn]) == 0 {
		return true
	}
	if obj := fn.Object(); obj != nil && obj.Exported() {
		return true
	}
	return false
}

// entryMust: locks held at entry of fn on every module call path (exported functions and
// functions without a visible caller start with nothing).
func (a *c16An) entryMust(fn *ssa.Function) lockSet {
	if s, ok := a.entry[fn]; ok {
		return s
	}
	if (c16IsRoot(a.w, fn) && len(a.dynCallers[fn]) == 0) || (fn.Object() != nil && fn.Object().Exported()) {
		a.entry[fn] = lockSet{}
		return a.entry[fn]
	}
	if a.entryBusy[fn] {
		return nil // optimistic inside a recursion
	}
	a.entryBusy[fn] = true
	defer delete(a.entryBusy, fn)
	var acc lockSet
	first := true
	for _, cs := range a.callersOf(fn) {
		var at lockSet
		switch cs.Instr.(type) {
		case *ssa.Go, *ssa.Defer:
			at = lockSet{}
		default:
			ce := a.entryMust(cs.Caller)
			if ce == nil {
				continue
			}
			at = a.flow(cs.Caller).must[cs.Instr.(ssa.Instruction)].clone()
			for k := range ce {
				at[k] = true
			}
		}
		if first {
			acc, first = at, false
		} else {
			acc = intersect(acc, at)
		}
	}
	if first {
		acc = lockSet{}
	}
	a.entry[fn] = acc
	return acc
}

// mustAt: locks certainly held just before instr (local + entry).
func (a *c16An) mustAt(in ssa.Instruction) lockSet {
	s := a.flow(in.Parent()).must[in].clone()
	for k := range a.entryMust(in.Parent()) {
		s[k] = true
	}
	return s
}

// mayAt: locks possibly held just before instr (local may + entry must).
func (a *c16An) mayAt(in ssa.Instruction) lockSet {
	s := a.flow(in.Parent()).may[in].clone()
	for k := range a.entryMust(in.Parent()) {
		s[k] = true
	}
	return s
}

func c16Holds(s lockSet, class string, mode byte) bool {
	if s[class+"/W"] {
		return true
	}
	return mode == 'R' && s[class+"/R"]
}

// ---------------------------------------------------------------------------
// acquisition summaries and the lock-order graph

func (a *c16An) callees(ci ssa.CallInstruction) []*ssa.Function {
	out := a.w.resolve(ci.Common(), a.ifaceC)
	if dyn := a.dynCallees[ci.(ssa.Instruction)]; len(dyn) > 0 {
		out = append(append([]*ssa.Function(nil), out...), dyn...)
	}
	return out
}

// callersOf: the static call sites of fn plus, for a closure or function value handed to a
// module helper that calls its func parameter (the withLock(func()) idiom), the calls of that
// parameter inside the helper.
func (a *c16An) callersOf(fn *ssa.Function) []callSite {
	st := a.w.callGraph().callers[fn]
	dyn := a.dynCallers[fn]
	if len(dyn) == 0 {
		return st
	}
	return append(append([]callSite(nil), st...), dyn...)
}

// buildDyn finds the functions that are only ever run through the func parameter of a module
// helper: the helper's parameter is used for nothing but being called, and the closure (or
// function value) passed for it is used for nothing but that call of the helper.
func (a *c16An) buildDyn() {
	a.dynCallers = map[*ssa.Function][]callSite{}
	a.dynCallees = map[ssa.Instruction][]*ssa.Function{}
	cg := a.w.callGraph()
	for _, h := range a.w.ModFuncs {
		for pi, prm := range h.Params {
			if _, isSig := prm.Type().Underlying().(*types.Signature); !isSig || prm.Referrers() == nil {
				continue
			}
			var calls []ssa.CallInstruction
			onlyCalled := true
			for _, r := range *prm.Referrers() {
				if ci, isCall := r.(ssa.CallInstruction); isCall && ci.Common().Value == ssa.Value(prm) {
					calls = append(calls, ci)
					continue
				}
				if _, isDbg := r.(*ssa.DebugRef); isDbg {
					continue
				}
				onlyCalled = false
			}
			if !onlyCalled || len(calls) == 0 {
				continue
			}
			for _, cs := range cg.callers[h] {
				call, isCall := cs.Instr.(*ssa.Call)
				if !isCall || staticCallee(call.Common()) != h || pi >= len(call.Common().Args) {
					continue
				}
				var target *ssa.Function
				var holder ssa.Value
				switch x := call.Common().Args[pi].(type) {
				case *ssa.MakeClosure:
					target, _ = x.Fn.(*ssa.Function)
					holder = x
				case *ssa.Function:
					target = x
				}
				if target == nil || target.Blocks == nil {
					continue
				}
				if holder != nil && holder.Referrers() != nil {
					other := false
					for _, r := range *holder.Referrers() {
						if r != ssa.Instruction(call) {
							if _, isDbg := r.(*ssa.DebugRef); !isDbg {
								other = true
							}
						}
					}
					if other {
						continue
					}
				}
				for _, ci := range calls {
					a.dynCallers[target] = append(a.dynCallers[target], callSite{h, ci})
					a.dynCallees[ci.(ssa.Instruction)] = append(a.dynCallees[ci.(ssa.Instruction)], target)
				}
			}
		}
	}
}

func (a *c16An) computeAcq() {
	a.acq = map[*ssa.Function]map[string]c16Acq{}
	var work []*ssa.Function
	queued := map[*ssa.Function]bool{}
	add := func(fn *ssa.Function, q c16Acq) {
		m := a.acq[fn]
		if m == nil {
			m = map[string]c16Acq{}
			a.acq[fn] = m
		}
		id := q.Key
		if q.Reacq {
			id += "!"
		}
		if _, ok := m[id]; ok {
			return
		}
		m[id] = q
		if !queued[fn] {
			queued[fn] = true
			work = append(work, fn)
		}
	}
	for _, fn := range a.w.ModFuncs {
		for _, b := range fn.Blocks {
			for _, in := range b.Instrs {
				ci, ok := in.(ssa.CallInstruction)
				if !ok {
					continue
				}
				if _, isGo := in.(*ssa.Go); isGo {
					continue
				}
				if op, k, ok := a.opOf(ci); ok && k != "" && ((op.Acquire && !op.WG) || op.Probe) {
					add(fn, c16Acq{Key: k, Reacq: a.flow(fn).reacq[in], Via: fnName(fn)})
				}
			}
		}
	}
	for len(work) > 0 {
		callee := work[0]
		work = work[1:]
		queued[callee] = false
		ids := make([]string, 0, len(a.acq[callee]))
		for id := range a.acq[callee] {
			ids = append(ids, id)
		}
		sort.Strings(ids)
		for _, cs := range a.callersOf(callee) {
			if _, isGo := cs.Instr.(*ssa.Go); isGo {
				continue
			}
			if _, _, isLock := a.opOf(cs.Instr); isLock {
				continue
			}
			for _, id := range ids {
				q := a.acq[callee][id]
				via := fnName(cs.Caller) + " -> " + q.Via
				if strings.Count(via, " -> ") > 6 {
					via = fnName(cs.Caller) + " -> ... -> " + q.Via[strings.LastIndex(q.Via, " -> ")+4:]
				}
				add(cs.Caller, c16Acq{Key: a.subst(q.Key, cs.Instr), Reacq: q.Reacq, Via: via})
			}
		}
	}
}

func (a *c16An) edges() []c16Edge {
	var out []c16Edge
	seen := map[string]bool{}
	emit := func(from, to string, fn *ssa.Function, pos token.Pos, via string) {
		if strings.HasPrefix(from, "?") || strings.HasPrefix(to, "?") {
			return
		}
		id := from + ">" + to
		if seen[id] {
			return
		}
		seen[id] = true
		out = append(out, c16Edge{from, to, fn, pos, via})
	}
	for _, fn := range a.w.ModFuncs {
		fl := a.flow(fn)
		for _, b := range fn.Blocks {
			for _, in := range b.Instrs {
				ci, ok := in.(ssa.CallInstruction)
				if !ok {
					continue
				}
				if _, isGo := in.(*ssa.Go); isGo {
					continue
				}
				held := fl.may[in]
				if len(held) == 0 {
					continue
				}
				if op, k, ok := a.opOf(ci); ok {
					if ((op.Acquire && !op.WG) || op.Probe) && !op.Deferred && k != "" {
						for h := range held {
							emit(h, k, fn, posOf(in), fnName(fn))
						}
					}
					continue
				}
				for _, callee := range a.callees(ci) {
					for _, q := range a.acq[callee] {
						k := a.subst(q.Key, ci)
						for h := range held {
							if q.Reacq && c16KeyClass(h) == c16KeyClass(k) {
								continue
							}
							emit(h, k, fn, posOf(in), fnName(fn)+" -> "+q.Via)
						}
					}
				}
			}
		}
	}
	// instantiate the edges that are relative to a Notify receiver for every condition
	var inst []c16Edge
	for _, e := range out {
		if !strings.HasPrefix(e.From, "~") && !strings.HasPrefix(e.To, "~") {
			inst = append(inst, e)
			continue
		}
		for _, cd := range a.sortedConds() {
			ne := e
			if strings.HasPrefix(ne.From, "~") {
				i := strings.LastIndex(ne.From, "/")
				ne.From = a.find(cd.Class+ne.From[1:i]) + ne.From[i:]
			}
			if strings.HasPrefix(ne.To, "~") {
				i := strings.LastIndex(ne.To, "/")
				ne.To = a.find(cd.Class+ne.To[1:i]) + ne.To[i:]
			}
			inst = append(inst, ne)
		}
	}
	sort.Slice(inst, func(i, j int) bool {
		if inst[i].From != inst[j].From {
			return inst[i].From < inst[j].From
		}
		return inst[i].To < inst[j].To
	})
	return inst
}

func (a *c16An) sortedConds() []*c16Cond {
	var out []*c16Cond
	for _, cd := range a.conds {
		out = append(out, cd)
	}
	sort.Slice(out, func(i, j int) bool { return out[i].Class < out[j].Class })
	return out
}

// ---------------------------------------------------------------------------
// anchors: Notify, owners, families, construction sites

func (a *c16An) setup() bool {
	c, w := a.c, a.w
	np := w.pkg(c16PkgNotify)
	if np == nil {
		c.undecided("D4", "internal/notify", token.NoPos, "package %s not found", c16PkgNotify)
		return false
	}
	if t, ok := np.Members["Notify"].(*ssa.Type); ok {
		a.notifyT, _ = t.Type().(*types.Named)
	}
	a.fnNew = np.Func("New")
	a.fnWait = w.lookupMethod(c16PkgNotify, "Notify", "Wait")
	a.fnBcast = w.lookupMethod(c16PkgNotify, "Notify", "Broadcast")
	if a.notifyT == nil || a.fnNew == nil || a.fnWait == nil || a.fnBcast == nil {
		c.undecided("D4", "internal/notify", token.NoPos, "notify.Notify / New / Wait / Broadcast not found")
		return false
	}
	// owners: module struct types with a field of type (*)Notify
	structs := map[string]*types.Named{}
	for _, sp := range w.SPkgs {
		if sp == nil || !(sp.Pkg.Path() == modulePath || strings.HasPrefix(sp.Pkg.Path(), modulePath+"/")) {
			continue
		}
		for _, m := range sp.Members {
			t, ok := m.(*ssa.Type)
			if !ok {
				continue
			}
			n, ok := t.Type().(*types.Named)
			if !ok {
				continue
			}
			if _, ok := n.Underlying().(*types.Struct); ok {
				structs[c16TypeName(n)] = n
			}
		}
	}
	names := make([]string, 0, len(structs))
	for k := range structs {
		names = append(names, k)
	}
	sort.Strings(names)
	for _, name := range names {
		n := structs[name]
		if n.Obj().Pkg().Path() == c16PkgNotify {
			continue
		}
		st := n.Underlying().(*types.Struct)
		for i := 0; i < st.NumFields(); i++ {
			if a.isNotify(st.Field(i).Type()) {
				cd := &c16Cond{Owner: n, Field: st.Field(i).Name(), Class: name + "." + st.Field(i).Name()}
				a.conds[cd.Class] = cd
			}
		}
	}
	// families: owner + struct types reachable from it through references + same-package
	// structs that refer to the owner
	for _, cd := range a.conds {
		fam := map[string]bool{}
		var reach func(t types.Type, viaRef bool, depth int)
		reach = func(t types.Type, viaRef bool, depth int) {
			if depth > 8 {
				return
			}
			t = types.Unalias(t)
			switch x := t.(type) {
			case *types.Pointer:
				reach(x.Elem(), true, depth+1)
				return
			case *types.Map:
				reach(x.Key(), true, depth+1)
				reach(x.Elem(), true, depth+1)
				return
			case *types.Slice:
				reach(x.Elem(), true, depth+1)
				return
			case *types.Array:
				reach(x.Elem(), viaRef, depth+1)
				return
			case *types.Named:
				st, ok := x.Underlying().(*types.Struct)
				if !ok || !c16InModule(x) || x.Obj().Pkg().Path() == c16PkgNotify {
					return
				}
				name := c16TypeName(x)
				if viaRef {
					if fam[name] {
						return
					}
					fam[name] = true
				}
				for i := 0; i < st.NumFields(); i++ {
					reach(st.Field(i).Type(), false, depth+1)
				}
			}
		}
		reach(types.NewPointer(cd.Owner), false, 0)
		for _, name := range names {
			n := structs[name]
			if fam[name] || n.Obj().Pkg() != cd.Owner.Obj().Pkg() {
				continue
			}
			st := n.Underlying().(*types.Struct)
			for i := 0; i < st.NumFields(); i++ {
				if c16RefersTo(st.Field(i).Type(), cd.Owner, 0) {
					fam[name] = true
				}
			}
		}
		cd.Family = fam
	}
	// construction sites: which lock each condition is built on
	targets := map[string]map[string]bool{}
	for _, fn := range w.ModFuncs {
		if fnPkg(fn) != nil && fnPkg(fn).Path() == c16PkgNotify {
			continue
		}
		for _, ci := range callsIn(fn, func(_ string, cc *ssa.CallCommon) bool { return staticCallee(cc) == a.fnNew }) {
			call, ok := ci.(*ssa.Call)
			if !ok || len(ci.Common().Args) != 1 {
				a.unresolved = append(a.unresolved, fnName(fn)+": notify.New not called directly")
				continue
			}
			c.count("notify.New sites", 1)
			// where the result goes
			var dest string
			var destBase ssa.Value
			if call.Referrers() != nil {
				for _, r := range *call.Referrers() {
					if s, ok := r.(*ssa.Store); ok && s.Val == ssa.Value(call) {
						if cls, _, base := c16DataClass(s.Addr); cls != "" {
							dest, destBase = cls, base
						}
					}
				}
			}
			if dest == "" || a.conds[dest] == nil {
				a.unresolved = append(a.unresolved, fnName(fn)+": result of notify.New is not stored in a struct field directly")
				continue
			}
			// what it is built on
			arg := ci.Common().Args[0]
			for {
				if mi, ok := arg.(*ssa.MakeInterface); ok {
					arg = mi.X
					continue
				}
				if chg, ok := arg.(*ssa.ChangeInterface); ok {
					arg = chg.X
					continue
				}
				break
			}
			tgt := ""
			switch x := arg.(type) {
			case *ssa.Alloc:
				tgt = "fresh"
				if x.Referrers() != nil {
					for _, r := range *x.Referrers() {
						s, ok := r.(*ssa.Store)
						if !ok || s.Val != ssa.Value(x) {
							continue
						}
						if cls, _, base := c16DataClass(s.Addr); cls != "" {
							_ = base
							_ = destBase
							tgt = cls
						}
					}
				}
			default:
				if cls := c16Class(arg); cls != "" && !strings.HasPrefix(cls, "local:") && strings.Contains(cls, ".") && c16RootIsField(arg) {
					tgt = cls
				}
			}
			if tgt == "" {
				a.unresolved = append(a.unresolved, fnName(fn)+": lock given to notify.New for "+dest+" is neither a fresh mutex nor a field")
				continue
			}
			if targets[dest] == nil {
				targets[dest] = map[string]bool{}
			}
			targets[dest][tgt] = true
		}
	}
	for _, cd := range a.sortedConds() {
		ts := targets[cd.Class]
		switch {
		case len(ts) == 0:
			a.unresolved = append(a.unresolved, cd.Class+": no notify.New construction site found")
		case len(ts) > 1:
			var l []string
			for t := range ts {
				l = append(l, t)
			}
			sort.Strings(l)
			a.unresolved = append(a.unresolved, cd.Class+": built on different locks at different sites: "+strings.Join(l, ", "))
		default:
			for t := range ts {
				if t != "fresh" {
					a.union(cd.Class+".L", t)
				}
			}
		}
	}
	return true
}

// c16RootIsField: the value is (a load of) a field address chain.
func c16RootIsField(v ssa.Value) bool {
	for {
		switch x := v.(type) {
		case *ssa.FieldAddr:
			return true
		case *ssa.UnOp:
			if x.Op == token.MUL {
				v = x.X
				continue
			}
		}
		return false
	}
}

func c16RefersTo(t types.Type, target *types.Named, depth int) bool {
	if depth > 4 {
		return false
	}
	switch x := types.Unalias(t).(type) {
	case *types.Pointer:
		return c16RefersTo(x.Elem(), target, depth+1)
	case *types.Map:
		return c16RefersTo(x.Elem(), target, depth+1) || c16RefersTo(x.Key(), target, depth+1)
	case *types.Slice:
		return c16RefersTo(x.Elem(), target, depth+1)
	case *types.Array:
		return c16RefersTo(x.Elem(), target, depth+1)
	case *types.Named:
		return x.Obj() == target.Obj()
	}
	return false
}

// lClass: canonical class of the lock of a condition.
func (a *c16An) lClass(cond string) string { return a.find(cond + ".L") }

// ---------------------------------------------------------------------------
// sites

type c16Site struct {
	Fn   *ssa.Function
	Call ssa.CallInstruction
	Cond string // condition class, "" when unresolved
	// HelperCall: the call of an unexported boolean helper that contains the Wait together with
	// its re-check loop; the wait discipline (D3) is judged inside the helper, the call site only
	// has to propagate a cancellation (D5)
	HelperCall bool
}

func (a *c16An) sitesOf(target *ssa.Function) []c16Site {
	var out []c16Site
	for _, cs := range a.w.callGraph().callers[target] {
		if staticCallee(cs.Instr.Common()) != target {
			a.c.undecided("D2", fnName(cs.Caller)+"+indirect("+target.Name()+")", posOf(cs.Instr), "Notify.%s may be called here through an interface: the site cannot be checked", target.Name())
		}
	}
	for _, fn := range a.w.ModFuncs {
		if p := fnPkg(fn); p != nil && p.Path() == c16PkgNotify {
			continue
		}
		for _, ci := range callsIn(fn, func(_ string, cc *ssa.CallCommon) bool { return staticCallee(cc) == target }) {
			s := c16Site{Fn: fn, Call: ci}
			if args := ci.Common().Args; len(args) > 0 {
				if cls := c16Class(args[0]); a.conds[cls] != nil {
					s.Cond = cls
				}
			}
			out = append(out, s)
		}
	}
	return out
}

// waitSites: the calls of Notify.Wait, and the calls of thin wait wrappers: unexported module
// functions with a single boolean result that contain such a call outside any re-check loop of
// their own (a wrapper's call site is a wait site of the same condition; the wrapper's own
// obligations cover its body). A helper whose Wait sits in a re-check loop inside the helper is
// a complete waiter: the Wait is judged there, with the lock context of its callers (entry
// lockset); its call sites are only D5 sites.
func (a *c16An) waitSites() []c16Site {
	a.waitFns = map[*ssa.Function]bool{a.fnWait: true}
	a.waitHelpers = map[*ssa.Function]bool{}
	sites := a.sitesOf(a.fnWait)
	cg := a.w.callGraph()
	for i := 0; i < len(sites) && i < 200; i++ {
		s := sites[i]
		fn := s.Fn
		if a.waitFns[fn] || c16IsRoot(a.w, fn) || s.Cond == "" {
			continue
		}
		res := fn.Signature.Results()
		if res.Len() != 1 || !isBoolType(res.At(0).Type()) {
			continue
		}
		if s.HelperCall {
			continue
		}
		selfLoop := false
		if call, ok := s.Call.(*ssa.Call); ok {
			in := ssa.Instruction(call)
			r := c16Walk(in, c16Env{map[ssa.Value]bool{call: true}, map[ssa.Value]int64{}}, a.isWaitCall)
			for _, st := range r.Stops {
				if st == in {
					selfLoop = true
				}
			}
		}
		if selfLoop {
			if !a.waitHelpers[fn] {
				a.waitHelpers[fn] = true
				for _, cs := range cg.callers[fn] {
					if p := fnPkg(cs.Caller); p != nil && p.Path() == c16PkgNotify {
						continue
					}
					sites = append(sites, c16Site{Fn: cs.Caller, Call: cs.Instr, Cond: s.Cond, HelperCall: true})
				}
			}
			continue
		}
		a.waitFns[fn] = true
		for _, cs := range cg.callers[fn] {
			if p := fnPkg(cs.Caller); p != nil && p.Path() == c16PkgNotify {
				continue
			}
			sites = append(sites, c16Site{Fn: cs.Caller, Call: cs.Instr, Cond: s.Cond})
		}
	}
	return sites
}

func (a *c16An) isWaitCall(in ssa.Instruction) bool {
	ci, ok := in.(ssa.CallInstruction)
	if !ok {
		return false
	}
	f := staticCallee(ci.Common())
	return f != nil && (a.waitFns[f] || a.waitHelpers[f])
}

func c16Construct(sites []c16Site, i int, what string) string {
	s := sites[i]
	n, k := 0, 0
	for j, o := range sites {
		if o.Fn == s.Fn && o.Cond == s.Cond {
			n++
			if j < i {
				k++
			}
		}
	}
	base := fnName(s.Fn) + "+" + what + "(" + s.Cond + ")"
	if n > 1 {
		base += fmt.Sprintf("#%d", k+1)
	}
	return base
}

// ---------------------------------------------------------------------------
// path-sensitive walk with a few known boolean / integer values

type c16Env struct {
	b map[ssa.Value]bool
	i map[ssa.Value]int64
}

func (e c16Env) clone() c16Env {
	n := c16Env{map[ssa.Value]bool{}, map[ssa.Value]int64{}}
	for k, v := range e.b {
		n.b[k] = v
	}
	for k, v := range e.i {
		n.i[k] = v
	}
	return n
}

func (e c16Env) key() string {
	var l []string
	for k, v := range e.b {
		l = append(l, fmt.Sprintf("%s=%v", k.Name(), v))
	}
	for k, v := range e.i {
		l = append(l, fmt.Sprintf("%s=%d", k.Name(), v))
	}
	sort.Strings(l)
	return strings.Join(l, ",")
}

func (e c16Env) evalBool(v ssa.Value, depth int) (val, known bool) {
	if depth > 6 {
		return false, false
	}
	if b, ok := constBool(v); ok {
		return b, true
	}
	if b, ok := e.b[v]; ok {
		return b, true
	}
	switch x := v.(type) {
	case *ssa.UnOp:
		if x.Op == token.NOT {
			b, ok := e.evalBool(x.X, depth+1)
			return !b, ok
		}
	case *ssa.BinOp:
		if x.Op != token.EQL && x.Op != token.NEQ {
			return false, false
		}
		if isBoolType(x.X.Type()) {
			l, ok1 := e.evalBool(x.X, depth+1)
			r, ok2 := e.evalBool(x.Y, depth+1)
			if ok1 && ok2 {
				return (l == r) == (x.Op == token.EQL), true
			}
			return false, false
		}
		li, ok1 := e.evalInt(x.X)
		ri, ok2 := e.evalInt(x.Y)
		if ok1 && ok2 {
			return (li == ri) == (x.Op == token.EQL), true
		}
	}
	return false, false
}

func (e c16Env) evalInt(v ssa.Value) (int64, bool) {
	if n, ok := constInt(v); ok {
		return n, true
	}
	n, ok := e.i[v]
	return n, ok
}

type c16WalkResult struct {
	Stops     []ssa.Instruction // instructions matched by stop that were reached
	Returns   []*ssa.Return
	RetEnvs   []c16Env
	Truncated bool
}

// c16Walk explores the CFG from just after start (or from start of block when after is nil)
// under env, following only the branch an If takes when its condition is decided by env.
func c16Walk(start ssa.Instruction, env c16Env, stop func(ssa.Instruction) bool) c16WalkResult {
	var res c16WalkResult
	type state struct {
		b   *ssa.BasicBlock
		idx int
		env c16Env
	}
	b := start.Block()
	idx := 0
	for i, in := range b.Instrs {
		if in == start {
			idx = i + 1
		}
	}
	seen := map[string]bool{}
	stack := []state{{b, idx, env.clone()}}
	stopSeen := map[ssa.Instruction]bool{}
	for len(stack) > 0 {
		s := stack[len(stack)-1]
		stack = stack[:len(stack)-1]
		k := fmt.Sprintf("%d|%d|%s", s.b.Index, s.idx, s.env.key())
		if seen[k] {
			continue
		}
		seen[k] = true
		if len(seen) > 4000 {
			res.Truncated = true
			return res
		}
		enter := func(to *ssa.BasicBlock) {
			ne := s.env.clone()
			pi := -1
			for i, p := range to.Preds {
				if p == s.b {
					pi = i
				}
			}
			// parallel phi binding
			type bind struct {
				phi *ssa.Phi
				b   *bool
				n   *int64
			}
			var binds []bind
			for _, in := range to.Instrs {
				phi, ok := in.(*ssa.Phi)
				if !ok {
					break
				}
				bd := bind{phi: phi}
				if pi >= 0 && pi < len(phi.Edges) {
					ev := phi.Edges[pi]
					if isBoolType(phi.Type()) {
						if v, ok := s.env.evalBool(ev, 0); ok {
							bd.b = &v
						}
					} else if v, ok := s.env.evalInt(ev); ok {
						bd.n = &v
					}
				}
				binds = append(binds, bd)
			}
			for _, bd := range binds {
				delete(ne.b, bd.phi)
				delete(ne.i, bd.phi)
				if bd.b != nil {
					ne.b[bd.phi] = *bd.b
				}
				if bd.n != nil {
					ne.i[bd.phi] = *bd.n
				}
			}
			stack = append(stack, state{to, 0, ne})
		}
		halted := false
		for i := s.idx; i < len(s.b.Instrs) && !halted; i++ {
			in := s.b.Instrs[i]
			if stop != nil && stop(in) {
				if !stopSeen[in] {
					stopSeen[in] = true
					res.Stops = append(res.Stops, in)
				}
				halted = true
				break
			}
			switch x := in.(type) {
			case *ssa.If:
				if v, ok := s.env.evalBool(x.Cond, 0); ok {
					if v {
						enter(s.b.Succs[0])
					} else {
						enter(s.b.Succs[1])
					}
				} else {
					enter(s.b.Succs[0])
					enter(s.b.Succs[1])
				}
				halted = true
			case *ssa.Jump:
				enter(s.b.Succs[0])
				halted = true
			case *ssa.Return:
				res.Returns = append(res.Returns, x)
				res.RetEnvs = append(res.RetEnvs, s.env.clone())
				halted = true
			case *ssa.Panic:
				halted = true
			}
		}
	}
	return res
}

func c16BoolResultIdx(sig *types.Signature) []int {
	var out []int
	for i := 0; i < sig.Results().Len(); i++ {
		if isBoolType(sig.Results().At(i).Type()) {
			out = append(out, i)
		}
	}
	return out
}

// ---------------------------------------------------------------------------

func runC16(c *Ctx) {
	a := &c16An{c: c, w: c.W, conds: map[string]*c16Cond{}, parent: map[string]string{}, flows: map[*ssa.Function]*c16Flow{},
		entry: map[*ssa.Function]lockSet{}, entryBusy: map[*ssa.Function]bool{}, ifaceC: map[string][]*ssa.Function{},
		mustMemo: map[string]bool{}, mustBusy: map[string]bool{}}
	t0 := time.Now()
	lap := func(what string) {
		if debugOn() {
			fmt.Fprintf(os.Stderr, "c16 %-12s %v\n", what, time.Since(t0))
		}
		t0 = time.Now()
	}
	if !a.setup() {
		return
	}
	lap("setup")
	if len(a.conds) == 0 {
		c.undecided("D2", "owners", token.NoPos, "no module struct owns a notify.Notify: anchors not found")
		return
	}
	for _, u := range a.unresolved {
		c.undecided("D1", "lock-of-condition", token.NoPos, "cannot resolve which lock a condition is built on: %s", u)
	}
	c.count("conditions (struct fields of type *notify.Notify)", len(a.conds))
	a.buildDyn()
	a.computeAcq()
	lap("acq")
	waits := a.waitSites()
	bcasts := a.sitesOf(a.fnBcast)
	c.count("Notify.Wait sites", len(waits))
	c.count("Notify.Broadcast sites", len(bcasts))
	a.computePred(waits)
	lap("computePred")
	a.checkD1()
	lap("checkD1")
	a.checkD2(bcasts)
	lap("checkD2")
	a.checkD3(waits, bcasts)
	lap("checkD3")
	a.checkD4()
	lap("checkD4")
	a.checkD5(waits)
	lap("checkD5")
	a.checkD6(waits)
	lap("checkD6")
	a.checkD7()
	lap("checkD7")
	a.checkD8()
	lap("checkD8")
	a.checkD9()
	lap("checkD9")
}

// ---------- D1

func (a *c16An) inScope(class string) bool {
	class = strings.TrimPrefix(class, c16WGPrefix)
	for _, cd := range a.conds {
		if strings.HasPrefix(class, cd.Class+".") {
			return true
		}
		for f := range cd.Family {
			if strings.HasPrefix(class, f+".") {
				return true
			}
		}
	}
	return false
}

func (a *c16An) checkD1() {
	c := a.c
	edges := a.edges()
	// class-level graph
	adj := map[string]map[string]c16Edge{}
	nodes := map[string]bool{}
	for _, fn := range a.w.ModFuncs {
		for id, q := range a.acq[fn] {
			_ = id
			if !strings.HasPrefix(q.Key, "~") && !strings.HasPrefix(q.Key, "?") {
				nodes[c16KeyClass(q.Key)] = true
			}
		}
	}
	for _, e := range edges {
		f, t := c16KeyClass(e.From), c16KeyClass(e.To)
		nodes[f], nodes[t] = true, true
		if adj[f] == nil {
			adj[f] = map[string]c16Edge{}
		}
		if _, ok := adj[f][t]; !ok {
			adj[f][t] = e
		}
	}
	// also the instantiated Notify-internal locks of every condition
	for _, cd := range a.conds {
		nodes[a.lClass(cd.Class)] = true
	}
	c.count("lock-order edges (module)", len(edges))
	var scope []string
	for n := range nodes {
		if a.inScope(n) {
			scope = append(scope, n)
		}
	}
	sort.Strings(scope)
	describe := func(e c16Edge) string {
		f, t := c16KeyClass(e.From), c16KeyClass(e.To)
		switch {
		case strings.HasPrefix(t, c16WGPrefix):
			return fmt.Sprintf("%s.Wait() blocks until every Add is matched by a Done while %s is held in %s (%s)", strings.TrimPrefix(t, c16WGPrefix), f, e.Via, c.pos(e.Pos))
		case strings.HasPrefix(f, c16WGPrefix):
			return fmt.Sprintf("%s is taken (or re-taken after a sleep) while an Add on %s is outstanding in %s (%s)", t, strings.TrimPrefix(f, c16WGPrefix), e.Via, c.pos(e.Pos))
		}
		return fmt.Sprintf("%s is taken while %s is held in %s (%s)", c16KeyClass(e.To), c16KeyClass(e.From), e.Via, c.pos(e.Pos))
	}
	// SCCs (Tarjan)
	index, low := map[string]int{}, map[string]int{}
	onStack := map[string]bool{}
	var stack []string
	var sccs [][]string
	next := 0
	var names []string
	for n := range nodes {
		names = append(names, n)
	}
	sort.Strings(names)
	var strong func(v string)
	strong = func(v string) {
		index[v], low[v] = next, next
		next++
		stack = append(stack, v)
		onStack[v] = true
		var succ []string
		for t := range adj[v] {
			succ = append(succ, t)
		}
		sort.Strings(succ)
		for _, t := range succ {
			if t == v {
				continue
			}
			if _, ok := index[t]; !ok {
				strong(t)
				if low[t] < low[v] {
					low[v] = low[t]
				}
			} else if onStack[t] && index[t] < low[v] {
				low[v] = index[t]
			}
		}
		if low[v] == index[v] {
			var comp []string
			for {
				x := stack[len(stack)-1]
				stack = stack[:len(stack)-1]
				onStack[x] = false
				comp = append(comp, x)
				if x == v {
					break
				}
			}
			if len(comp) > 1 {
				sort.Strings(comp)
				sccs = append(sccs, comp)
			}
		}
	}
	for _, n := range names {
		if _, ok := index[n]; !ok {
			strong(n)
		}
	}
	inCycle := map[string]bool{}
	for _, comp := range sccs {
		touches := false
		for _, n := range comp {
			if a.inScope(n) {
				touches = true
			}
		}
		if !touches {
			continue
		}
		in := map[string]bool{}
		for _, n := range comp {
			in[n] = true
			inCycle[n] = true
		}
		var ev []string
		var pos token.Pos
		for _, n := range comp {
			var ts []string
			for t := range adj[n] {
				if in[t] && t != n {
					ts = append(ts, t)
				}
			}
			sort.Strings(ts)
			for _, t := range ts {
				ev = append(ev, describe(adj[n][t]))
				if !pos.IsValid() {
					pos = adj[n][t].Pos
				}
				a.c.analysed(adj[n][t].Fn)
			}
		}
		c.fail("D1", "lock-order:"+strings.Join(comp, "<->"), pos, "locks are taken in opposite orders, two goroutines can block each other for ever: %s", strings.Join(ev, "; "))
	}
	for _, n := range scope {
		if e, ok := adj[n][n]; ok {
			c.fail("D1", "relock:"+n, e.Pos, "%s: the lock is not reentrant (or, for two instances of the class, their order is not fixed)", describe(e))
			inCycle[n] = true
			a.c.analysed(e.Fn)
		}
	}
	for _, n := range scope {
		if inCycle[n] {
			continue
		}
		var after []string
		for t := range adj[n] {
			after = append(after, t)
		}
		sort.Strings(after)
		c.ok("D1", "lock:"+n, token.NoPos, "on no cycle of the lock-order graph (taken while held: %s)", func() string {
			if len(after) == 0 {
				return "nothing"
			}
			return strings.Join(after, ", ")
		}())
	}
}

// ---------- D2

func (a *c16An) checkD2(bcasts []c16Site) {
	c := a.c
	for i, s := range bcasts {
		c.analysed(s.Fn)
		cons := c16Construct(bcasts, i, "Broadcast")
		in := s.Call.(ssa.Instruction)
		if s.Cond == "" {
			c.undecided("D2", cons, posOf(in), "Broadcast on a Notify that is not read from an owner's field: cannot tell which lock must be held")
			continue
		}
		if _, isGo := in.(*ssa.Go); isGo {
			c.fail("D2", cons, posOf(in), "Broadcast is started in a new goroutine, which holds no lock")
			continue
		}
		l := a.lClass(s.Cond)
		held := a.mustAt(in)
		if _, isDefer := in.(*ssa.Defer); isDefer {
			held = lockSet{} // runs at exit; what is still held then is not tracked
			for k := range a.deferHeld(s.Fn, in.(*ssa.Defer)) {
				held[k] = true
			}
		}
		c.check(c16Holds(held, l, 'R'), "D2", cons, posOf(in),
			"Broadcast made with "+l+" held",
			fmt.Sprintf("Broadcast on %s is made without its lock %s held (held: %v): an update can land between a waiter's test and its registration in Wait, close nothing, and the waiter sleeps on a state that already differs", s.Cond, l, held.list()))
	}
}

// deferHeld: locks whose release is itself deferred *earlier* than d (they are still held
// when d runs, deferred calls running last-in first-out) and that are held at the defer point.
func (a *c16An) deferHeld(fn *ssa.Function, d *ssa.Defer) lockSet {
	out := lockSet{}
	held := a.mustAt(d)
	for _, b := range fn.Blocks {
		for _, in := range b.Instrs {
			df, ok := in.(*ssa.Defer)
			if !ok || df == d {
				continue
			}
			op, ok := lockOpOf(df)
			if !ok || op.Acquire {
				continue
			}
			k := a.lockKey(op, c16LockRecv(df))
			if k != "" && held[k] && instrDominates(df, d) {
				out[k] = true
			}
		}
	}
	return out
}

// ---------- D3

// needed: the locks a broadcaster must obtain before it can reach the Broadcast site.
func (a *c16An) neededBefore(s c16Site) map[string]string {
	out := map[string]string{}
	in := s.Call.(ssa.Instruction)
	for k := range a.mustAt(in) {
		out[k] = fnName(s.Fn)
	}
	for _, b := range s.Fn.Blocks {
		for _, x := range b.Instrs {
			ci, ok := x.(ssa.CallInstruction)
			if !ok || x == in {
				continue
			}
			if _, isGo := x.(*ssa.Go); isGo {
				continue
			}
			if !instrReaches(x, in) {
				continue
			}
			if op, ok := lockOpOf(ci); ok {
				if op.Acquire && !op.Deferred {
					if k := a.lockKey(op, c16LockRecv(ci)); k != "" {
						out[k] = fnName(s.Fn)
					}
				}
				continue
			}
			if _, isDefer := x.(*ssa.Defer); isDefer {
				continue
			}
			for _, callee := range a.callees(ci) {
				for _, q := range a.acq[callee] {
					out[a.subst(q.Key, ci)] = fnName(s.Fn) + " -> " + q.Via
				}
			}
		}
	}
	return out
}

func (a *c16An) checkD3(waits, bcasts []c16Site) {
	c := a.c
	isWait := a.isWaitCall
	for i, s := range waits {
		c.analysed(s.Fn)
		if s.HelperCall {
			continue
		}
		cons := c16Construct(waits, i, "Wait")
		in := s.Call.(ssa.Instruction)
		call, isCall := in.(*ssa.Call)
		if s.Cond == "" || !isCall {
			c.undecided("D3", cons, posOf(in), "Wait on a Notify that is not read from an owner's field (or deferred/go): cannot tell which lock must be held")
			continue
		}
		l := a.lClass(s.Cond)
		held := a.mustAt(in)
		c.check(c16Holds(held, l, 'W'), "D3", cons+"+holds-L", posOf(in),
			"Wait called with "+l+" held",
			fmt.Sprintf("Wait on %s is called without its lock %s held (held: %v): the test made before it and the registration are not atomic with respect to Broadcast, and Wait unlocks a lock that is not locked", s.Cond, l, held.list()))
		// loop: after a wake-up the same Wait can be reached again
		r := c16Walk(in, c16Env{map[ssa.Value]bool{call: true}, map[ssa.Value]int64{}}, isWait)
		again := false
		for _, st := range r.Stops {
			if st == in {
				again = true
			}
		}
		if r.Truncated {
			c.undecided("D3", cons+"+loop", posOf(in), "path exploration truncated")
		} else {
			c.check(again || c16CallersLoop(a, s.Fn, isWait, 0), "D3", cons+"+loop", posOf(in),
				"a woken waiter comes back to this Wait unless its predicate lets it leave (re-check loop)",
				"after a wake-up the function cannot come back to this Wait: it is not in a re-check loop, a wake-up that found the state unchanged again is reported as a change")
		}
		// the predicate is evaluated under L: inside the re-check loop every read of a field
		// the waiters test (directly or in a static callee) is made with L held
		var unl []string
		for _, b := range s.Fn.Blocks {
			for _, x := range b.Instrs {
				if x == in || !instrReaches(in, x) || !instrReaches(x, in) {
					continue
				}
				reads := false
				switch y := x.(type) {
				case *ssa.FieldAddr, *ssa.Field:
					cls := a.predRead(y.(ssa.Value), a.conds[s.Cond])
					reads = cls != "" && a.pred[cls][s.Cond]
				case *ssa.Call:
					reads = a.readsPred(staticCallee(y.Common()), s.Cond, map[*ssa.Function]bool{}, 0)
				}
				if reads && !c16Holds(a.mustAt(x), l, 'R') {
					unl = append(unl, c.pos(posOf(x)))
				}
			}
		}
		sort.Strings(unl)
		unl = c16Uniq(unl)
		c.check(len(unl) == 0, "D3", cons+"+predicate-under-L", posOf(in),
			"inside the re-check loop the tested state is only read with "+l+" held",
			fmt.Sprintf("inside the re-check loop the state the waiter tests is read without %s held (%s): an update and its Broadcast can fall between that test and the registration in Wait, and the waiter sleeps on a state that already differs", l, strings.Join(unl, ", ")))
		// the decision to sleep is taken on fresh state: every read of the tested state that
		// flows into a branch taken with L held on the way to this Wait was itself made with L held
		stale := a.staleDecisionSources(s, l)
		c.check(len(stale) == 0, "D3", cons+"+decides-on-locked-read", posOf(in),
			"every branch taken under "+l+" before this Wait tests state that was read with "+l+" held",
			fmt.Sprintf("a branch taken with %s held on the way to this Wait tests a value of the waiters' state that was read without %s held (%s): the value can be stale, an update and its Broadcast made in between are not seen and the waiter sleeps on a state that already differs", l, l, strings.Join(stale, ", ")))
		// nested monitor: no other lock held across the sleep that a broadcaster needs
		may := a.mayAt(in)
		var bad []string
		for h := range may {
			if c16KeyClass(h) == l {
				continue
			}
			for _, bs := range bcasts {
				if bs.Cond != s.Cond {
					continue
				}
				for need, via := range a.neededBefore(bs) {
					if c16KeyClass(need) != c16KeyClass(h) {
						continue
					}
					if strings.HasSuffix(need, "/R") && strings.HasSuffix(h, "/R") {
						continue
					}
					bad = append(bad, fmt.Sprintf("%s (needed by %s)", c16KeyClass(h), via))
				}
			}
		}
		sort.Strings(bad)
		bad = c16Uniq(bad)
		c.check(len(bad) == 0, "D3", cons+"+sleeps-with-L-only", posOf(in),
			"no lock a broadcaster needs stays held across the sleep",
			fmt.Sprintf("the waiter sleeps in Wait still holding %s: that broadcaster blocks before it can broadcast and the waiter is never woken", strings.Join(bad, ", ")))
	}
}

// staleDecisionSources: positions of reads of the condition's predicate state (field loads, or
// calls of functions that read it) made without l held whose value flows into the condition
// of a branch that is executed with l held and from which the Wait site can be reached.
func (a *c16An) staleDecisionSources(s c16Site, l string) []string {
	cd := a.conds[s.Cond]
	wait := s.Call.(ssa.Instruction)
	var out []string
	reported := map[ssa.Instruction]bool{}
	flag := func(src ssa.Instruction) {
		if reported[src] {
			return
		}
		reported[src] = true
		if !c16Holds(a.mustAt(src), l, 'R') {
			out = append(out, a.c.pos(posOf(src)))
		}
	}
	seen := map[ssa.Value]bool{}
	var visit func(v ssa.Value, depth int)
	visit = func(v ssa.Value, depth int) {
		if v == nil || seen[v] || depth > 24 {
			return
		}
		seen[v] = true
		// a reference (pointer, map, channel, function) identifies the shared object, it is not a
		// copy of its state: what is read through it later is read at that later point
		switch v.Type().Underlying().(type) {
		case *types.Pointer, *types.Map, *types.Chan, *types.Signature:
			return
		}
		switch x := v.(type) {
		case *ssa.Phi:
			for _, e := range x.Edges {
				visit(e, depth+1)
			}
		case *ssa.BinOp:
			visit(x.X, depth+1)
			visit(x.Y, depth+1)
		case *ssa.UnOp:
			if x.Op != token.MUL {
				visit(x.X, depth+1)
				return
			}
			switch ad := x.X.(type) {
			case *ssa.FieldAddr:
				if cls := a.predRead(ad, cd); cls != "" && a.pred[cls][s.Cond] {
					flag(x)
				}
			case *ssa.Alloc:
				if ad.Referrers() != nil {
					for _, r := range *ad.Referrers() {
						if st, ok := r.(*ssa.Store); ok && st.Addr == ssa.Value(ad) {
							visit(st.Val, depth+1)
						}
					}
				}
			case *ssa.IndexAddr:
				visit(ad.X, depth+1)
			}
		case *ssa.Field:
			if cls := a.predRead(x, cd); cls != "" && a.pred[cls][s.Cond] {
				flag(x)
			}
			visit(x.X, depth+1)
		case *ssa.Extract:
			visit(x.Tuple, depth+1)
		case *ssa.Call:
			if f := staticCallee(x.Common()); f != nil && !a.waitFns[f] && a.readsPred(f, s.Cond, map[*ssa.Function]bool{}, 0) {
				flag(x)
			}
			for _, arg := range x.Common().Args {
				visit(arg, depth+1)
			}
		case *ssa.Lookup:
			// the content of a map of the tested state is read here
			if ld, ok := x.X.(*ssa.UnOp); ok && ld.Op == token.MUL {
				if fa, ok := ld.X.(*ssa.FieldAddr); ok {
					if cls := a.predRead(fa, cd); cls != "" && a.pred[cls][s.Cond] {
						flag(x)
					}
				}
			}
			visit(x.Index, depth+1)
		case *ssa.Index:
			visit(x.X, depth+1)
		case *ssa.Slice:
			visit(x.X, depth+1)
		case *ssa.Next:
			visit(x.Iter, depth+1)
		case *ssa.Range:
			visit(x.X, depth+1)
		case *ssa.Convert:
			visit(x.X, depth+1)
		case *ssa.ChangeType:
			visit(x.X, depth+1)
		case *ssa.MakeInterface:
			visit(x.X, depth+1)
		case *ssa.TypeAssert:
			visit(x.X, depth+1)
		case *ssa.Parameter:
			// a value handed in by the callers of an unexported helper: judged where it was read
			fn := x.Parent()
			if c16IsRoot(a.w, fn) {
				return
			}
			idx := -1
			for i, p := range fn.Params {
				if p == x {
					idx = i
				}
			}
			for _, cs := range a.w.callGraph().callers[fn] {
				if args := cs.Instr.Common().Args; !cs.Instr.Common().IsInvoke() && idx >= 0 && idx < len(args) {
					visit(args[idx], depth+1)
				}
			}
		}
	}
	for _, b := range s.Fn.Blocks {
		if len(b.Instrs) == 0 {
			continue
		}
		iff, ok := b.Instrs[len(b.Instrs)-1].(*ssa.If)
		if !ok || !instrReaches(iff, wait) || !c16Holds(a.mustAt(iff), l, 'R') {
			continue
		}
		visit(iff.Cond, 0)
	}
	sort.Strings(out)
	return c16Uniq(out)
}

func c16Uniq(l []string) []string {
	var out []string
	for i, s := range l {
		if i == 0 || s != l[i-1] {
			out = append(out, s)
		}
	}
	return out
}

// c16CallersLoop: fn is an unexported helper and each of its call sites sits in a loop that can
// reach the call again.
func c16CallersLoop(a *c16An, fn *ssa.Function, _ func(ssa.Instruction) bool, depth int) bool {
	if depth > 2 || c16IsRoot(a.w, fn) {
		return false
	}
	for _, cs := range a.w.callGraph().callers[fn] {
		in, ok := cs.Instr.(*ssa.Call)
		if !ok {
			return false
		}
		if !instrReaches(in, in) && !c16CallersLoop(a, cs.Caller, nil, depth+1) {
			return false
		}
	}
	return true
}

// ---------- D4

func (a *c16An) checkD4() {
	c := a.c
	fn := a.fnWait
	c.analysed(fn)
	c.analysed(a.fnBcast)
	name := fnName(fn)
	var sel *ssa.Select
	for _, b := range fn.Blocks {
		for _, in := range b.Instrs {
			if s, ok := in.(*ssa.Select); ok {
				if sel != nil {
					c.undecided("D4", name+"+select", posOf(in), "more than one select in Wait")
					return
				}
				sel = s
			}
		}
	}
	if sel == nil || !sel.Blocking || len(sel.States) < 2 {
		c.undecided("D4", name+"+select", fn.Pos(), "Wait does not sleep in one blocking select over the context and the signal channel: shape not understood")
		return
	}
	cancelIdx, signalIdx := -1, -1
	for i, st := range sel.States {
		if st.Dir != types.RecvOnly {
			continue
		}
		if call, ok := st.Chan.(*ssa.Call); ok && calleeKey(call.Common()) == "(context.Context).Done" {
			cancelIdx = i
		} else if signalIdx < 0 {
			signalIdx = i
		} else {
			signalIdx = -2
		}
	}
	if cancelIdx < 0 || signalIdx < 0 || len(sel.States) != 2 {
		c.undecided("D4", name+"+select", posOf(sel), "select arms are not exactly {context done, signal}")
		return
	}
	signal := sel.States[signalIdx].Chan
	// lock operations on the receiver's L
	var rel, acq []ssa.CallInstruction
	var deferredAcq []ssa.CallInstruction
	for _, b := range fn.Blocks {
		for _, in := range b.Instrs {
			ci, ok := in.(ssa.CallInstruction)
			if !ok {
				continue
			}
			op, ok := lockOpOf(ci)
			if !ok || a.lockKey(op, c16LockRecv(ci)) != "~.L/W" {
				continue
			}
			switch {
			case op.Acquire && op.Deferred:
				deferredAcq = append(deferredAcq, ci)
			case op.Acquire:
				acq = append(acq, ci)
			case !op.Deferred:
				rel = append(rel, ci)
			}
		}
	}
	// (i) L is released before sleeping
	released := false
	for _, r := range rel {
		if instrDominates(r, sel) {
			released = true
		}
	}
	c.check(released, "D4", name+"+releases-L-before-sleep", posOf(sel),
		"L is released on every path to the select", "Wait sleeps in the select without having released L: no broadcaster can take L, nobody is ever woken")
	// (ii) the channel is obtained before L is released
	sigIn, isInstr := signal.(ssa.Instruction)
	if !isInstr {
		c.undecided("D4", name+"+register-before-release", posOf(sel), "signal channel is not computed in Wait")
	} else {
		okReg := len(rel) > 0
		for _, r := range rel {
			if !instrDominates(sigIn, r) {
				okReg = false
			}
		}
		c.check(okReg, "D4", name+"+register-before-release", posOf(sigIn),
			"the signal channel is obtained while L is still held",
			"the signal channel is obtained after L has been released: a Broadcast made in between closes the previous channel and this waiter sleeps on a new one although the state already changed")
	}
	// (iii) L re-acquired on every path from the select to a return
	reacq := true
	if len(deferredAcq) == 0 || !instrDominates(deferredAcq[0], sel) {
		seen := map[ssa.Instruction]bool{}
		var q []ssa.Instruction
		push := func(b *ssa.BasicBlock, i int) {
			if i < len(b.Instrs) && !seen[b.Instrs[i]] {
				seen[b.Instrs[i]] = true
				q = append(q, b.Instrs[i])
			}
		}
		sb := sel.Block()
		for i, in := range sb.Instrs {
			if in == ssa.Instruction(sel) {
				push(sb, i+1)
			}
		}
		isAcq := map[ssa.Instruction]bool{}
		for _, x := range acq {
			isAcq[x.(ssa.Instruction)] = true
		}
		for len(q) > 0 {
			in := q[0]
			q = q[1:]
			if isAcq[in] {
				continue
			}
			if _, isRet := in.(*ssa.Return); isRet {
				reacq = false
				break
			}
			b := in.Block()
			idx := 0
			for i, x := range b.Instrs {
				if x == in {
					idx = i
				}
			}
			if idx+1 < len(b.Instrs) {
				push(b, idx+1)
			} else {
				for _, s := range b.Succs {
					push(s, 0)
				}
			}
		}
	}
	c.check(reacq, "D4", name+"+reacquires-L", posOf(sel),
		"L is taken again on every path from the select to a return",
		"a path from the select returns without taking L again: the caller then unlocks a lock it does not hold / reads its state unlocked")
	// (iv) results per arm
	idxVal := ssa.Value(nil)
	for _, e := range extractsOf(sel, 0) {
		idxVal = e
	}
	bres := c16BoolResultIdx(fn.Signature)
	if len(bres) != 1 {
		c.undecided("D4", name+"+cancel-arm-false", fn.Pos(), "Wait does not have exactly one boolean result")
		return
	}
	armResult := func(arm int) (val, known bool) {
		env := c16Env{map[ssa.Value]bool{}, map[ssa.Value]int64{}}
		if idxVal != nil {
			env.i[idxVal] = int64(arm)
		}
		r := c16Walk(sel, env, nil)
		if len(r.Returns) == 0 || r.Truncated || idxVal == nil {
			return false, false
		}
		for j, ret := range r.Returns {
			v, ok := r.RetEnvs[j].evalBool(retResults(ret)[bres[0]], 0)
			if !ok {
				return false, false
			}
			if j > 0 && v != val {
				return false, false
			}
			val = v
		}
		return val, true
	}
	cv, ck := armResult(cancelIdx)
	c.check(ck && !cv, "D4", name+"+cancel-arm-false", posOf(sel),
		"the context arm makes Wait return false", "the context arm does not make Wait return false: a cancelled wait is indistinguishable from a wake-up (or the result is not a constant per arm)")
	sv, sk := armResult(signalIdx)
	c.check(sk && sv, "D4", name+"+signal-arm-true", posOf(sel),
		"the signal arm makes Wait return true", "the signal arm does not make Wait return true: a woken waiter is told it was cancelled")
	// (v) Broadcast closes the channel Wait sleeps on, and forgets it
	sigField := a.chanField(signal, 0)
	var closeCall ssa.CallInstruction
	closedField := -1
	// the close may sit in a method of the nested struct that Broadcast calls
	bfuncs := []*ssa.Function{a.fnBcast}
	for i := 0; i < len(bfuncs) && i < 8; i++ {
		for _, ci := range callsIn(bfuncs[i], func(string, *ssa.CallCommon) bool { return true }) {
			if _, isGo := ci.(*ssa.Go); isGo {
				continue
			}
			f := staticCallee(ci.Common())
			if f == nil || f.Blocks == nil || fnPkg(f) == nil || fnPkg(f).Path() != c16PkgNotify {
				continue
			}
			dup := false
			for _, g := range bfuncs {
				if g == f {
					dup = true
				}
			}
			if !dup {
				bfuncs = append(bfuncs, f)
			}
		}
	}
	for _, f := range bfuncs {
		c.analysed(f)
		for _, ci := range callsIn(f, keyIs("builtin.close")) {
			closeCall = ci
			closedField = a.chanField(ci.Common().Args[0], 0)
		}
	}
	bname := fnName(a.fnBcast)
	switch {
	case closeCall == nil:
		c.fail("D4", bname+"+closes-registered-channel", a.fnBcast.Pos(), "Broadcast does not close any channel: sleeping waiters are never woken")
	case sigField < 0 || closedField < 0:
		c.undecided("D4", bname+"+closes-registered-channel", posOf(closeCall), "cannot relate the channel closed by Broadcast (field #%d) to the one Wait sleeps on (field #%d)", closedField, sigField)
	default:
		c.check(sigField == closedField, "D4", bname+"+closes-registered-channel", posOf(closeCall),
			"Broadcast closes the channel field Wait takes its signal channel from", "Broadcast closes another channel than the one Wait sleeps on")
	}
	if closeCall != nil && closedField >= 0 {
		forgot := false
		for _, b := range closeCall.Parent().Blocks {
			for _, in := range b.Instrs {
				st, ok := in.(*ssa.Store)
				if !ok {
					continue
				}
				fa, ok := st.Addr.(*ssa.FieldAddr)
				if !ok || a.famFieldID(fa) != closedField || st.Val == closeCall.Common().Args[0] {
					continue
				}
				closed, isIn := closeCall.Common().Args[0].(ssa.Instruction)
				if instrDominates(closeCall.(ssa.Instruction), st) {
					forgot = true
				} else if isIn && instrDominates(closed, st) && instrDominates(st, closeCall.(ssa.Instruction)) {
					forgot = true // old value taken, field replaced, then the old value is closed
				}
			}
		}
		c.check(forgot, "D4", bname+"+forgets-closed-channel", posOf(closeCall),
			"the closed channel is replaced before Broadcast returns", "the closed channel stays registered: the next Broadcast closes it again (panic) and every later Wait returns at once")
	}
	// (vi) the registered channel is shared by all sleeping waiters: it may only be replaced
	// when there is none (the field is nil) or together with a close of the old channel
	if sigField >= 0 {
		a.checkChanFieldWrites(sigField)
	}
}

// checkChanFieldWrites: every store to the wait-channel field of a Notify in its package is
// either the registration of a first channel (made on the nil side of a test of the field) or
// goes with a close of the channel read from the field (close before the store, or the old
// value read before the store and closed after it).
func (a *c16An) checkChanFieldWrites(field int) {
	c := a.c
	isFieldLoad := func(v ssa.Value) *ssa.UnOp {
		for {
			if ct, ok := v.(*ssa.ChangeType); ok {
				v = ct.X
				continue
			}
			break
		}
		ld, ok := v.(*ssa.UnOp)
		if !ok || ld.Op != token.MUL {
			return nil
		}
		fa, ok := ld.X.(*ssa.FieldAddr)
		if !ok || a.famFieldID(fa) != field {
			return nil
		}
		return ld
	}
	n := 0
	for _, fn := range a.w.ModFuncs {
		if p := fnPkg(fn); p == nil || p.Path() != c16PkgNotify {
			continue
		}
		seen := 0
		for _, b := range fn.Blocks {
			for _, in := range b.Instrs {
				st, ok := in.(*ssa.Store)
				if !ok {
					continue
				}
				fa, ok := st.Addr.(*ssa.FieldAddr)
				if !ok || a.famFieldID(fa) != field || c16FreshAlloc(fa.X) {
					continue
				}
				n++
				seen++
				cons := fnName(fn) + "+channel-field-write"
				if seen > 1 {
					cons += fmt.Sprintf("#%d", seen)
				}
				c.analysed(fn)
				okWrite, how := false, ""
				// closed together with the replacement
				for _, ci := range callsIn(fn, keyIs("builtin.close")) {
					ld := isFieldLoad(ci.Common().Args[0])
					if ld == nil {
						continue
					}
					cin := ci.(ssa.Instruction)
					if _, isDefer := cin.(*ssa.Defer); isDefer {
						if instrDominates(ld, st) {
							okWrite, how = true, "the old channel is closed by a deferred close"
						}
						continue
					}
					if instrDominates(cin, st) {
						okWrite, how = true, "the old channel is closed before it is replaced"
					} else if instrDominates(ld, st) && instrReaches(st, cin) {
						okWrite, how = true, "the old channel is read before the store and closed after it"
					}
				}
				// first registration: the field is nil
				if !okWrite {
					for _, b2 := range fn.Blocks {
						iff, ok := b2.Instrs[len(b2.Instrs)-1].(*ssa.If)
						if !ok {
							continue
						}
						cmp, ok := iff.Cond.(*ssa.BinOp)
						if !ok || (cmp.Op != token.EQL && cmp.Op != token.NEQ) {
							continue
						}
						var other ssa.Value
						if isFieldLoad(cmp.X) != nil {
							other = cmp.Y
						} else if isFieldLoad(cmp.Y) != nil {
							other = cmp.X
						}
						if other == nil || !isNilConst(other) {
							continue
						}
						nilEdge := edge{b2, b2.Succs[0]}
						if cmp.Op == token.NEQ {
							nilEdge = edge{b2, b2.Succs[1]}
						}
						if edgeDominates(nilEdge, st.Block()) {
							okWrite, how = true, "no channel was registered (the field is nil on this path)"
						}
					}
				}
				c.check(okWrite, "D4", cons, posOf(st),
					"write of the wait-channel field: "+how,
					"the registered wait channel is replaced or dropped without being closed and without the field being nil: it is shared by every waiter asleep on this condition, the others stay registered on a channel no Broadcast will ever close")
			}
		}
	}
	if n == 0 {
		c.undecided("D4", "channel-field-write", token.NoPos, "no store to the wait-channel field found in package notify")
	}
}

// chanField: index of the Notify field the channel value is read from (through the getter).
func (a *c16An) chanField(v ssa.Value, depth int) int {
	if depth > 5 {
		return -1
	}
	switch x := v.(type) {
	case *ssa.ChangeType:
		return a.chanField(x.X, depth+1)
	case *ssa.UnOp:
		if x.Op == token.MUL {
			if fa, ok := x.X.(*ssa.FieldAddr); ok {
				if id := a.famFieldID(fa); id >= 0 {
					return id
				}
			}
		}
	case *ssa.Phi:
		f := -1
		for _, e := range x.Edges {
			g := a.chanField(e, depth+1)
			if g < 0 || (f >= 0 && g != f) {
				return -1
			}
			f = g
		}
		return f
	case *ssa.Call:
		callee := staticCallee(x.Common())
		if callee == nil || callee.Blocks == nil || fnPkg(callee) == nil || fnPkg(callee).Path() != c16PkgNotify {
			return -1
		}
		f := -1
		for _, r := range returnsOf(callee) {
			res := retResults(r)
			if len(res) != 1 {
				return -1
			}
			g := a.chanField(res[0], depth+1)
			if g < 0 || (f >= 0 && g != f) {
				return -1
			}
			f = g
		}
		return f
	}
	return -1
}

// ---------- D5

func (a *c16An) checkD5(waits []c16Site) {
	c := a.c
	isWait := a.isWaitCall
	for i, s := range waits {
		cons := c16Construct(waits, i, "Wait")
		in := s.Call.(ssa.Instruction)
		call, ok := in.(*ssa.Call)
		if !ok {
			continue
		}
		r := c16Walk(in, c16Env{map[ssa.Value]bool{call: false}, map[ssa.Value]int64{}}, isWait)
		if r.Truncated {
			c.undecided("D5", cons+"+cancel-no-rewait", posOf(in), "path exploration truncated")
			continue
		}
		c.check(len(r.Stops) == 0, "D5", cons+"+cancel-no-rewait", posOf(in),
			"after a cancelled Wait no further Wait is reached",
			"after Wait returned false (context cancelled) the function can reach a Wait again: the cancellation is not propagated promptly")
		bres := c16BoolResultIdx(s.Fn.Signature)
		switch {
		case len(bres) == 0:
			c.ok("D5", cons+"+cancel-returns-false", posOf(in), "function has no boolean result to carry the cancellation (nothing to check)")
		case len(bres) > 1:
			c.undecided("D5", cons+"+cancel-returns-false", posOf(in), "function has several boolean results")
		default:
			bad := ""
			for j, ret := range r.Returns {
				v, known := r.RetEnvs[j].evalBool(retResults(ret)[bres[0]], 0)
				if !known || v {
					bad = c.pos(posOf(ret))
				}
			}
			if len(r.Returns) == 0 && len(r.Stops) == 0 {
				bad = "no return reached"
			}
			c.check(bad == "", "D5", cons+"+cancel-returns-false", posOf(in),
				"every return reachable after a cancelled Wait yields false",
				fmt.Sprintf("a return reachable after a cancelled Wait (%s) does not yield false: the caller takes the cancellation for a change", bad))
		}
	}
}

// ---------- D6

// computePred: the predicate fields of each condition: fields of family objects read in the
// code a waiter runs (the function containing the Wait and its static callees).
func (a *c16An) computePred(waits []c16Site) {
	c := a.c
	pred := map[string]map[string]bool{} // data class -> conds
	a.pred = pred
	for _, s := range waits {
		if s.Cond == "" {
			continue
		}
		cd := a.conds[s.Cond]
		seen := map[*ssa.Function]bool{}
		var visit func(fn *ssa.Function, depth int)
		visit = func(fn *ssa.Function, depth int) {
			if fn == nil || seen[fn] || fn.Blocks == nil || depth > 4 {
				return
			}
			if p := fnPkg(fn); p == nil || p.Path() == c16PkgNotify || !inModule(fn) {
				return
			}
			seen[fn] = true
			for _, b := range fn.Blocks {
				for _, in := range b.Instrs {
					switch x := in.(type) {
					case *ssa.FieldAddr, *ssa.Field:
						if cls := a.predRead(x.(ssa.Value), cd); cls != "" {
							if pred[cls] == nil {
								pred[cls] = map[string]bool{}
							}
							pred[cls][s.Cond] = true
						}
					case ssa.CallInstruction:
						if _, isGo := in.(*ssa.Go); isGo {
							continue
						}
						visit(staticCallee(x.Common()), depth+1)
					}
				}
			}
		}
		visit(s.Fn, 0)
	}
	var pl []string
	for k := range pred {
		pl = append(pl, k)
	}
	sort.Strings(pl)
	c.note("predicate fields (read by waiters): %s", strings.Join(pl, ", "))
}

// predRead: v is a read of a data field of an object of the condition's family; returns its class.
func (a *c16An) predRead(v ssa.Value, cd *c16Cond) string {
	if !c16IsRead(v) {
		return ""
	}
	cls, root, _ := c16DataClass(v)
	if cls == "" || root == nil || !cd.Family[c16TypeName(root)] || c16SyncOrNotify(a, v.Type()) {
		return ""
	}
	return cls
}

// predConds: the conditions whose waiters read the location class cls (or a part / the whole of it).
func (a *c16An) predConds(cls string) map[string]bool {
	out := map[string]bool{}
	for p, conds := range a.pred {
		if p == cls || strings.HasPrefix(p, cls+".") || strings.HasPrefix(cls, p+".") {
			for k := range conds {
				out[k] = true
			}
		}
	}
	return out
}

// readsPred: fn (or a static callee) reads a predicate field of cond.
func (a *c16An) readsPred(fn *ssa.Function, cond string, seen map[*ssa.Function]bool, depth int) bool {
	if fn == nil || fn.Blocks == nil || seen[fn] || depth > 4 || !inModule(fn) {
		return false
	}
	if p := fnPkg(fn); p == nil || p.Path() == c16PkgNotify {
		return false
	}
	seen[fn] = true
	cd := a.conds[cond]
	for _, b := range fn.Blocks {
		for _, in := range b.Instrs {
			switch x := in.(type) {
			case *ssa.FieldAddr, *ssa.Field:
				if cls := a.predRead(x.(ssa.Value), cd); cls != "" && a.pred[cls][cond] {
					return true
				}
			case ssa.CallInstruction:
				if _, isGo := in.(*ssa.Go); isGo {
					continue
				}
				if a.readsPred(staticCallee(x.Common()), cond, seen, depth+1) {
					return true
				}
			}
		}
	}
	return false
}

type c16Write struct {
	Fn    *ssa.Function
	In    ssa.Instruction
	Class string
	Kind  string // store | insert | delete
}

func c16FreshAlloc(v ssa.Value) bool {
	switch x := v.(type) {
	case *ssa.Alloc:
		return true
	case *ssa.MakeMap, *ssa.MakeSlice, *ssa.MakeChan:
		return true
	case *ssa.Phi:
		_ = x
	}
	return false
}

func (a *c16An) computeBcast() {
	a.bcast = map[*ssa.Function]map[string]bool{}
	cg := a.w.callGraph()
	var work []*ssa.Function
	add := func(fn *ssa.Function, k string) {
		if a.bcast[fn] == nil {
			a.bcast[fn] = map[string]bool{}
		}
		if !a.bcast[fn][k] {
			a.bcast[fn][k] = true
			work = append(work, fn)
		}
	}
	for _, cs := range cg.callers[a.fnBcast] {
		if _, isGo := cs.Instr.(*ssa.Go); isGo {
			continue
		}
		if cs.Instr.Common().IsInvoke() || len(cs.Instr.Common().Args) == 0 {
			continue
		}
		if cls := c16Class(cs.Instr.Common().Args[0]); a.conds[cls] != nil {
			add(cs.Caller, cls)
		}
	}
	for len(work) > 0 {
		callee := work[0]
		work = work[1:]
		for _, cs := range a.callersOf(callee) {
			if _, isGo := cs.Instr.(*ssa.Go); isGo {
				continue
			}
			for k := range a.bcast[callee] {
				add(cs.Caller, k)
			}
		}
	}
}

// broadcastsAt: the conditions a call instruction may broadcast on.
func (a *c16An) broadcastsAt(in ssa.Instruction) map[string]bool {
	ci, ok := in.(ssa.CallInstruction)
	if !ok {
		return nil
	}
	if _, isGo := in.(*ssa.Go); isGo {
		return nil
	}
	if staticCallee(ci.Common()) == a.fnBcast {
		if cls := c16Class(ci.Common().Args[0]); a.conds[cls] != nil {
			return map[string]bool{cls: true}
		}
		return nil
	}
	out := map[string]bool{}
	for _, callee := range a.callees(ci) {
		for k := range a.bcast[callee] {
			out[k] = true
		}
	}
	return out
}

// announcedAfter: a Broadcast on cond can execute after instruction in (in its function, or
// after the calls of that function in its callers).
func (a *c16An) announcedAfter(in ssa.Instruction, cond string, depth int) bool {
	fn := in.Parent()
	for _, b := range fn.Blocks {
		for _, x := range b.Instrs {
			if x == in {
				continue
			}
			if a.broadcastsAt(x)[cond] && instrReaches(in, x) {
				return true
			}
		}
	}
	if depth >= 3 || c16IsRoot(a.w, fn) {
		return false
	}
	callers := a.w.callGraph().callers[fn]
	if len(callers) == 0 {
		return false
	}
	for _, cs := range callers {
		if _, isCall := cs.Instr.(*ssa.Call); !isCall {
			return false
		}
		if !a.announcedAfter(cs.Instr.(ssa.Instruction), cond, depth+1) {
			return false
		}
	}
	return true
}

// mustBroadcastAt: executing instruction x certainly makes a Broadcast on cond (a direct call
// or defer of Broadcast, or a call all of whose callees broadcast on every path to their return).
func (a *c16An) mustBroadcastAt(x ssa.Instruction, cond string, depth int) bool {
	ci, ok := x.(ssa.CallInstruction)
	if !ok {
		return false
	}
	if _, isGo := x.(*ssa.Go); isGo {
		return false
	}
	if staticCallee(ci.Common()) == a.fnBcast {
		return len(ci.Common().Args) > 0 && c16Class(ci.Common().Args[0]) == cond
	}
	if depth > 3 {
		return false
	}
	callees := a.callees(ci)
	if len(callees) == 0 {
		return false
	}
	for _, f := range callees {
		if !a.bcast[f][cond] {
			return false
		}
		key := f.String() + "|" + cond
		if a.mustBusy[key] {
			return false
		}
		v, done := a.mustMemo[key]
		if !done {
			a.mustBusy[key] = true
			skip := true
			if len(f.Blocks) > 0 && len(f.Blocks[0].Instrs) > 0 {
				skip, _ = a.skipsFrom(f.Blocks[0], 0, cond, nil, depth+1)
			}
			delete(a.mustBusy, key)
			v = !skip
			a.mustMemo[key] = v
		}
		if !v {
			return false
		}
	}
	return true
}

// skipsFrom: there is a path from instruction idx of block b to a return on which no Broadcast
// on cond is certainly made. The exit edge of a range loop whose body broadcasts on every
// iteration is not followed (one Broadcast per element is the announcement); edges in blocked
// are not followed either.
func (a *c16An) skipsFrom(b *ssa.BasicBlock, idx int, cond string, blocked map[edge]bool, depth int) (bool, string) {
	type pos struct {
		b   *ssa.BasicBlock
		idx int
	}
	seen := map[*ssa.BasicBlock]bool{}
	stack := []pos{{b, idx}}
	for len(stack) > 0 {
		p := stack[len(stack)-1]
		stack = stack[:len(stack)-1]
		stopped := false
		for i := p.idx; i < len(p.b.Instrs); i++ {
			x := p.b.Instrs[i]
			if a.mustBroadcastAt(x, cond, depth) {
				stopped = true
				break
			}
			if r, ok := x.(*ssa.Return); ok {
				return true, "return at " + a.c.pos(posOf(r))
			}
			if _, ok := x.(*ssa.Panic); ok {
				stopped = true
				break
			}
		}
		if stopped {
			continue
		}
		for _, s := range p.b.Succs {
			e := edge{p.b, s}
			if blocked[e] || seen[s] {
				continue
			}
			if a.rangeExitCovered(e, cond, depth) {
				continue
			}
			seen[s] = true
			stack = append(stack, pos{s, 0})
		}
	}
	return false, ""
}

// rangeExitCovered: e leaves the header of a range loop (iterator or index form) whose body
// cannot come back to the header without making a Broadcast on cond.
func (a *c16An) rangeExitCovered(e edge, cond string, depth int) bool {
	h := e.From
	if len(h.Succs) != 2 || e.To != h.Succs[1] || len(h.Instrs) == 0 {
		return false
	}
	iff, ok := h.Instrs[len(h.Instrs)-1].(*ssa.If)
	if !ok {
		return false
	}
	isRange := h.Comment == "rangeindex.loop"
	if ex, ok := iff.Cond.(*ssa.Extract); ok && ex.Index == 0 {
		if _, isNext := ex.Tuple.(*ssa.Next); isNext {
			isRange = true
		}
	}
	if !isRange {
		return false
	}
	// body: from Succs[0], can the header (or a return) be reached without a Broadcast ?
	seen := map[*ssa.BasicBlock]bool{}
	stack := []*ssa.BasicBlock{h.Succs[0]}
	for len(stack) > 0 {
		b := stack[len(stack)-1]
		stack = stack[:len(stack)-1]
		if seen[b] {
			continue
		}
		seen[b] = true
		if b == h {
			return false
		}
		stopped := false
		for _, x := range b.Instrs {
			if a.mustBroadcastAt(x, cond, depth) {
				stopped = true
				break
			}
			if _, ok := x.(*ssa.Return); ok {
				return false
			}
		}
		if !stopped {
			stack = append(stack, b.Succs...)
		}
	}
	return true
}

// skipsBroadcast: after instruction in, a return of its function (and, for an unexported
// helper, of its callers) can be reached without a Broadcast on cond.
func (a *c16An) skipsBroadcast(in ssa.Instruction, cond string, blocked map[edge]bool, depth int) (bool, string) {
	b := in.Block()
	idx := 0
	for i, x := range b.Instrs {
		if x == in {
			idx = i + 1
		}
	}
	skip, via := a.skipsFrom(b, idx, cond, blocked, 0)
	if !skip {
		return false, ""
	}
	fn := in.Parent()
	if depth >= 3 || c16IsRoot(a.w, fn) {
		return true, via
	}
	callers := a.w.callGraph().callers[fn]
	if len(callers) == 0 {
		return true, via
	}
	for _, cs := range callers {
		call, isCall := cs.Instr.(*ssa.Call)
		if !isCall {
			return true, via
		}
		if s2, v2 := a.skipsBroadcast(call, cond, nil, depth+1); s2 {
			return true, via + ", then " + v2 + " in " + fnName(cs.Caller)
		}
	}
	return false, ""
}

// c16SameValueEdges: for a store of value v to a field, the branch edges taken when v equals
// the value the field held before (a comparison of v with a load of the same location that
// dominates the store): on them nothing changed, no announcement is due.
func c16SameValueEdges(in ssa.Instruction) map[edge]bool {
	st, ok := in.(*ssa.Store)
	if !ok {
		return nil
	}
	cls, _, base := c16DataClass(st.Addr)
	if cls == "" {
		return nil
	}
	out := map[edge]bool{}
	isOldLoad := func(v ssa.Value) bool {
		ld, ok := v.(*ssa.UnOp)
		if !ok || ld.Op != token.MUL {
			return false
		}
		c2, _, b2 := c16DataClass(ld.X)
		return c2 == cls && b2 == base && instrDominates(ld, st)
	}
	for _, b := range in.Parent().Blocks {
		if len(b.Instrs) == 0 {
			continue
		}
		iff, ok := b.Instrs[len(b.Instrs)-1].(*ssa.If)
		if !ok {
			continue
		}
		cond := iff.Cond
		neg := false
		for {
			u, ok := cond.(*ssa.UnOp)
			if !ok || u.Op != token.NOT {
				break
			}
			cond, neg = u.X, !neg
		}
		cmp, ok := cond.(*ssa.BinOp)
		if !ok || (cmp.Op != token.EQL && cmp.Op != token.NEQ) {
			continue
		}
		if !((cmp.X == st.Val && isOldLoad(cmp.Y)) || (cmp.Y == st.Val && isOldLoad(cmp.X))) {
			continue
		}
		eqOnTrue := (cmp.Op == token.EQL) != neg
		if eqOnTrue {
			out[edge{b, b.Succs[0]}] = true
		} else {
			out[edge{b, b.Succs[1]}] = true
		}
	}
	return out
}

// announcedBefore: a Broadcast on cond precedes in inside one uninterrupted critical section of
// the condition's lock (both under L, no release of L in between).
func (a *c16An) announcedBefore(in ssa.Instruction, cond string) bool {
	fn := in.Parent()
	l := a.lClass(cond)
	if !c16Holds(a.mustAt(in), l, 'W') {
		return false
	}
	for _, b := range fn.Blocks {
		for _, x := range b.Instrs {
			if x == in || !a.broadcastsAt(x)[cond] || !instrDominates(x, in) || !c16Holds(a.mustAt(x), l, 'W') {
				continue
			}
			// no release of L between x and in
			released := false
			for _, b2 := range fn.Blocks {
				for _, y := range b2.Instrs {
					ci, ok := y.(ssa.CallInstruction)
					if !ok {
						continue
					}
					if op, ok := lockOpOf(ci); ok && !op.Acquire && !op.Deferred && c16KeyClass(a.lockKey(op, c16LockRecv(ci))) == l {
						if instrReaches(x, y) && instrReaches(y, in) {
							released = true
						}
					} else if !ok && a.isWaitCall(y) && instrReaches(x, y) && instrReaches(y, in) {
						released = true
					}
				}
			}
			if !released {
				return true
			}
		}
	}
	return false
}

func (a *c16An) checkD6(waits []c16Site) {
	c := a.c
	a.computeBcast()
	match := a.predConds
	// writes
	var writes []c16Write
	for _, fn := range a.w.ModFuncs {
		if p := fnPkg(fn); p != nil && p.Path() == c16PkgNotify {
			continue
		}
		for _, b := range fn.Blocks {
			for _, in := range b.Instrs {
				switch x := in.(type) {
				case *ssa.Store:
					cls, _, base := c16DataClass(x.Addr)
					if cls == "" || c16FreshAlloc(base) {
						continue
					}
					writes = append(writes, c16Write{fn, in, cls, "store"})
				case *ssa.MapUpdate:
					ld, ok := x.Map.(*ssa.UnOp)
					if !ok || ld.Op != token.MUL {
						continue
					}
					cls, _, base := c16DataClass(ld.X)
					if cls == "" || c16FreshAlloc(base) || c16FreshAlloc(x.Value) {
						continue
					}
					writes = append(writes, c16Write{fn, in, cls, "insert"})
				case *ssa.Call:
					if calleeKey(x.Common()) != "builtin.delete" || len(x.Common().Args) < 1 {
						continue
					}
					ld, ok := x.Common().Args[0].(*ssa.UnOp)
					if !ok || ld.Op != token.MUL {
						continue
					}
					cls, _, base := c16DataClass(ld.X)
					if cls == "" || c16FreshAlloc(base) {
						continue
					}
					writes = append(writes, c16Write{fn, in, cls, "delete"})
				}
			}
		}
	}
	seenCons := map[string]int{}
	for _, wr := range writes {
		conds := match(wr.Class)
		if len(conds) == 0 {
			continue
		}
		var cl []string
		for k := range conds {
			cl = append(cl, k)
		}
		sort.Strings(cl)
		for _, cond := range cl {
			if wr.Kind == "delete" {
				if !c16Holds(a.mustAt(wr.In), a.lClass(cond), 'W') {
					c.note("%s removes an entry of %s (read by the waiters of %s) without %s held and without a Broadcast (%s): a data race with the waiter's read, not a missed update; outside D6", fnName(wr.Fn), wr.Class, cond, a.lClass(cond), c.pos(posOf(wr.In)))
				}
				continue
			}
			c.analysed(wr.Fn)
			cons := fnName(wr.Fn) + "+write(" + wr.Class + ")->" + cond
			seenCons[cons]++
			if n := seenCons[cons]; n > 1 {
				cons += fmt.Sprintf("#%d", n)
			}
			switch {
			case a.announcedBefore(wr.In, cond):
				c.ok("D6", cons, posOf(wr.In), "the write is announced: a Broadcast on %s precedes it in the same critical section", cond)
			case !a.announcedAfter(wr.In, cond, 0):
				c.fail("D6", cons, posOf(wr.In), "%s changes %s, which the waiters of %s test, and no Broadcast on that condition follows: a waiter already asleep is not woken although the state differs from what it saw", fnName(wr.Fn), wr.Class, cond)
			default:
				if skip, via := a.skipsBroadcast(wr.In, cond, c16SameValueEdges(wr.In), 0); skip {
					c.fail("D6", cons, posOf(wr.In), "%s changes %s, which the waiters of %s test, but the Broadcast that follows is conditional: a path from the write reaches a return without any Broadcast on that condition (%s); on that path a waiter already asleep is not woken although the state differs from what it saw", fnName(wr.Fn), wr.Class, cond, via)
				} else {
					c.ok("D6", cons, posOf(wr.In), "the write is announced: every path from it to a return makes a Broadcast on %s (one per element for a range loop; the branch on which the stored value equals the old one is exempt)", cond)
				}
			}
		}
	}
}

// ---------- D7: one object per key for the objects waiters sleep on

// mapFieldClass: v is a load of a map-typed struct field; returns the field's data class and
// the root struct type.
func c16MapFieldClass(v ssa.Value) (string, *types.Named) {
	ld, ok := v.(*ssa.UnOp)
	if !ok || ld.Op != token.MUL {
		return "", nil
	}
	if _, isMap := ld.Type().Underlying().(*types.Map); !isMap {
		return "", nil
	}
	cls, root, base := c16DataClass(ld.X)
	if cls == "" || c16FreshAlloc(base) {
		return "", nil
	}
	return cls, root
}

func (a *c16An) inAnyFamily(n *types.Named) bool {
	if n == nil {
		return false
	}
	name := c16TypeName(n)
	for _, cd := range a.conds {
		if cd.Family[name] || cd.Owner.Obj() == n.Obj() {
			return true
		}
	}
	return false
}

// checkD7: registries = map fields of family objects into which freshly allocated family
// objects (the condition-carrying GroupStatus / topicUpdate, the PeerStatus whose status the
// waiters test) are inserted. (a) every such get-or-create insert is dominated by the miss of
// a lookup of the same map made in the same write-locked critical section (same lock
// write-held at both, not released in between); (b) entries of a registry are never deleted.
func (a *c16An) checkD7() {
	c := a.c
	type site struct {
		fn  *ssa.Function
		in  *ssa.MapUpdate
		cls string
	}
	var inserts []site
	registries := map[string]bool{}
	for _, fn := range a.w.ModFuncs {
		if p := fnPkg(fn); p != nil && p.Path() == c16PkgNotify {
			continue
		}
		for _, b := range fn.Blocks {
			for _, in := range b.Instrs {
				mu, ok := in.(*ssa.MapUpdate)
				if !ok {
					continue
				}
				cls, root := c16MapFieldClass(mu.Map)
				if cls == "" || !a.inAnyFamily(root) {
					continue
				}
				al, isAlloc := mu.Value.(*ssa.Alloc)
				if !isAlloc || !a.inAnyFamily(c16Named(al.Type())) {
					continue
				}
				if _, isStruct := c16Named(al.Type()).Underlying().(*types.Struct); !isStruct {
					continue
				}
				inserts = append(inserts, site{fn, mu, cls})
				registries[cls] = true
			}
		}
	}
	if len(inserts) == 0 {
		c.undecided("D7", "registries", token.NoPos, "no get-or-create site of a waiter-observed object found: anchors not found")
		return
	}
	seenCons := map[string]int{}
	for _, s := range inserts {
		c.analysed(s.fn)
		cons := fnName(s.fn) + "+get-or-create(" + s.cls + ")"
		seenCons[cons]++
		if n := seenCons[cons]; n > 1 {
			cons += fmt.Sprintf("#%d", n)
		}
		// lookups of the same map whose miss dominates the insert
		var lookups []*ssa.Lookup
		for _, b := range s.fn.Blocks {
			for _, in := range b.Instrs {
				lk, ok := in.(*ssa.Lookup)
				if !ok {
					continue
				}
				if cls, _ := c16MapFieldClass(lk.X); cls != s.cls {
					continue
				}
				var miss []edge
				if lk.CommaOk {
					for _, ex := range extractsOf(lk, 1) {
						miss = append(miss, edgesOfVerdict(ex).Reject...)
					}
				} else {
					miss = edgesOfVerdict(lk).Accept // pointer == nil
				}
				for _, e := range miss {
					if edgeDominates(e, s.in.Block()) {
						lookups = append(lookups, lk)
						break
					}
				}
			}
		}
		if len(lookups) == 0 {
			c.fail("D7", cons, posOf(s.in), "a freshly created object is stored in %s without a preceding lookup of that map whose miss leads here: an object already registered for the key (on whose condition waiters may sleep) is replaced", s.cls)
			continue
		}
		heldIns := a.mustAt(s.in)
		okSection, why := false, ""
		for _, lk := range lookups {
			heldLk := a.mustAt(lk)
			for k := range heldIns {
				if !strings.HasSuffix(k, "/W") || strings.HasPrefix(k, c16WGPrefix) || !heldLk[k] {
					continue
				}
				if !a.releasedBetween(lk, s.in, k) {
					okSection, why = true, c16KeyClass(k)
				}
			}
		}
		c.check(okSection, "D7", cons, posOf(s.in),
			"the miss that decides the creation and the store are in one critical section of "+why,
			fmt.Sprintf("the lookup of %s whose miss decides the creation and the store of the new object are not in one write-locked critical section (held at the store: %v): two goroutines can both miss and each register its own object; a waiter then sleeps on a condition nobody broadcasts on", s.cls, heldIns.list()))
	}
	// (b) no removal
	var regs []string
	for r := range registries {
		regs = append(regs, r)
	}
	sort.Strings(regs)
	removed := map[string]bool{}
	for _, fn := range a.w.ModFuncs {
		for _, ci := range callsIn(fn, keyIs("builtin.delete")) {
			if len(ci.Common().Args) < 1 {
				continue
			}
			cls, _ := c16MapFieldClass(ci.Common().Args[0])
			if !registries[cls] {
				continue
			}
			removed[cls] = true
			c.analysed(fn)
			c.fail("D7", fnName(fn)+"+delete("+cls+")", posOf(ci), "an entry of %s is deleted: a waiter may still be asleep on the condition of the removed object, the next get-or-create for the key builds a fresh object with a new condition and that waiter is never woken", cls)
		}
	}
	for _, r := range regs {
		if !removed[r] {
			c.ok("D7", "registry:"+r+"+never-removed", token.NoPos, "no delete on this map anywhere in the module: one object per key for the life of the owner")
		}
	}
}

// releasedBetween: lock key k can be released on a path from instruction x to instruction y of
// the same function (an unlock, or a call that releases and re-takes it such as notify.Wait).
func (a *c16An) releasedBetween(x, y ssa.Instruction, k string) bool {
	for _, b := range x.Parent().Blocks {
		for _, in := range b.Instrs {
			ci, ok := in.(ssa.CallInstruction)
			if !ok || in == x || in == y {
				continue
			}
			if !instrReaches(x, in) || !instrReaches(in, y) {
				continue
			}
			if op, key, ok := a.opOf(ci); ok {
				if !op.Acquire && !op.Probe && !op.Deferred && key == k {
					return true
				}
				continue
			}
			for _, callee := range a.callees(ci) {
				for _, q := range a.acq[callee] {
					if q.Reacq && c16KeyClass(a.subst(q.Key, ci)) == c16KeyClass(k) {
						return true
					}
				}
			}
		}
	}
	return false
}

// ---------- D9: unlock balance

// checkD9: in every function that releases a lock of the family (explicitly or by defer), no
// release is executed at a point where the lockset says the lock cannot be held: an explicit
// Unlock/RUnlock needs the lock (in that mode) possibly held just before it (locally, or held
// by every caller for an unexported helper); at every return the deferred releases that can
// have been registered are replayed against the locks possibly still held there. notify.Wait
// is release-then-reacquire (net zero) and the locks a Notify method releases for its caller
// are covered by D3 holds-L. A release of a lock that is not held is "fatal error: sync:
// unlock of unlocked mutex", which no recover can stop.
func (a *c16An) checkD9() {
	c := a.c
	n := 0
	for _, fn := range a.w.ModFuncs {
		fl := a.flow(fn)
		if len(fl.may) == 0 {
			continue
		}
		type rel struct {
			in  ssa.Instruction
			key string
			op  c16Op
		}
		var explicit, deferred []rel
		for _, b := range fn.Blocks {
			for _, in := range b.Instrs {
				ci, ok := in.(ssa.CallInstruction)
				if !ok {
					continue
				}
				op, key, ok := a.opOf(ci)
				if !ok || key == "" || op.WG || op.Probe || strings.HasPrefix(key, "~") || strings.HasPrefix(key, "?") {
					continue
				}
				if !a.inScope(c16KeyClass(key)) {
					continue
				}
				if op.Deferred {
					deferred = append(deferred, rel{in, key, op})
				} else if !op.Acquire {
					explicit = append(explicit, rel{in, key, op})
				}
			}
		}
		hasRelease := len(explicit) > 0
		for _, d := range deferred {
			if !d.op.Acquire {
				hasRelease = true
			}
		}
		if !hasRelease {
			continue
		}
		n++
		c.analysed(fn)
		var bad []string
		var pos token.Pos
		note := func(in ssa.Instruction, msg string) {
			bad = append(bad, msg)
			if !pos.IsValid() {
				pos = posOf(in)
			}
		}
		for _, r := range explicit {
			if !a.mayAt(r.in)[r.key] {
				note(r.in, fmt.Sprintf("%s is released at %s where it cannot be held in that mode (possibly held there: %v)", c16KeyClass(r.key), c.pos(posOf(r.in)), a.mayAt(r.in).list()))
			}
		}
		if len(deferred) > 0 {
			for _, ret := range returnsOf(fn) {
				held := a.mayAt(ret).clone()
				// last registered runs first
				for i := len(deferred) - 1; i >= 0; i-- {
					d := deferred[i]
					if !instrReaches(d.in, ret) {
						continue
					}
					if d.op.Acquire {
						held[d.key] = true
						continue
					}
					if !held[d.key] {
						note(ret, fmt.Sprintf("the deferred release of %s (registered at %s) runs at the return at %s, where the lock has already been released on every path (possibly held there: %v)", c16KeyClass(d.key), c.pos(posOf(d.in)), c.pos(posOf(ret)), a.mayAt(ret).list()))
						continue
					}
					delete(held, d.key)
				}
			}
		}
		sort.Strings(bad)
		bad = c16Uniq(bad)
		c.check(len(bad) == 0, "D9", fnName(fn)+"+unlock-balance", func() token.Pos {
			if pos.IsValid() {
				return pos
			}
			return fn.Pos()
		}(),
			"every release (explicit or deferred) of a family lock is made where the lock can be held",
			"a lock is released more often than it is taken on a path of this function: "+strings.Join(bad, "; ")+" — the Go runtime stops the whole process with \"fatal error: sync: unlock of unlocked mutex\" (not recoverable: the request that takes this path crashes the service), and until then the lock protects nothing")
	}
	if n == 0 {
		c.undecided("D9", "unlock-balance", token.NoPos, "no function releasing a lock of the family found: anchors not found")
	}
}

// ---------- D8: the cancellation that reaches a wait is the caller's

func c16IsContext(t types.Type) bool {
	n, ok := types.Unalias(t).(*types.Named)
	return ok && n.Obj().Pkg() != nil && n.Obj().Pkg().Path() == "context" && n.Obj().Name() == "Context"
}

// c16HasContextMethod: values of type t offer Context() context.Context (a stream).
func c16HasContextMethod(t types.Type) bool {
	if c16IsContext(t) {
		return false
	}
	ms := types.NewMethodSet(t)
	for i := 0; i < ms.Len(); i++ {
		f, ok := ms.At(i).Obj().(*types.Func)
		if !ok || f.Name() != "Context" {
			continue
		}
		sig := f.Type().(*types.Signature)
		if sig.Params().Len() == 0 && sig.Results().Len() == 1 && c16IsContext(sig.Results().At(0).Type()) {
			return true
		}
	}
	return false
}

// c16CtxRoots: where a context value comes from. Roots are *ssa.Parameter (a context
// parameter, or a stream parameter whose Context() is taken) or strings describing other
// origins (field:<class>, background, detached, call:<key>, global:<name>, other).
func c16CtxRoots(v ssa.Value) (params map[*ssa.Parameter]bool, others map[string]bool) {
	params, others = map[*ssa.Parameter]bool{}, map[string]bool{}
	seen := map[ssa.Value]bool{}
	var storesTo func(al *ssa.Alloc, depth int)
	var visit func(v ssa.Value, depth int)
	storesTo = func(al *ssa.Alloc, depth int) {
		if al.Referrers() == nil {
			return
		}
		found := false
		for _, r := range *al.Referrers() {
			if st, ok := r.(*ssa.Store); ok && st.Addr == ssa.Value(al) {
				found = true
				visit(st.Val, depth+1)
			}
			// the variable may also be assigned inside closures that capture it
			if mc, ok := r.(*ssa.MakeClosure); ok {
				f, _ := mc.Fn.(*ssa.Function)
				for i, b := range mc.Bindings {
					if b != ssa.Value(al) || f == nil || i >= len(f.FreeVars) || f.FreeVars[i].Referrers() == nil {
						continue
					}
					for _, fr := range *f.FreeVars[i].Referrers() {
						if st, ok := fr.(*ssa.Store); ok && st.Addr == ssa.Value(f.FreeVars[i]) {
							found = true
							visit(st.Val, depth+1)
						}
					}
				}
			}
		}
		if !found {
			others["other"] = true
		}
	}
	visit = func(v ssa.Value, depth int) {
		if v == nil || seen[v] {
			return
		}
		seen[v] = true
		if depth > 30 {
			others["other"] = true
			return
		}
		switch x := v.(type) {
		case *ssa.Parameter:
			params[x] = true
		case *ssa.Phi:
			for _, e := range x.Edges {
				visit(e, depth+1)
			}
		case *ssa.Extract:
			visit(x.Tuple, depth+1)
		case *ssa.MakeInterface:
			visit(x.X, depth+1)
		case *ssa.ChangeInterface:
			visit(x.X, depth+1)
		case *ssa.ChangeType:
			visit(x.X, depth+1)
		case *ssa.TypeAssert:
			visit(x.X, depth+1)
		case *ssa.Const:
			others["nil"] = true
		case *ssa.FreeVar:
			// the captured value (or variable) in the enclosing function
			fn := x.Parent()
			idx := -1
			for i, fv := range fn.FreeVars {
				if fv == x {
					idx = i
				}
			}
			bound := false
			if p := fn.Parent(); p != nil && idx >= 0 {
				for _, b := range p.Blocks {
					for _, in := range b.Instrs {
						if mc, ok := in.(*ssa.MakeClosure); ok && mc.Fn == ssa.Value(fn) && idx < len(mc.Bindings) {
							bound = true
							visit(mc.Bindings[idx], depth+1)
						}
					}
				}
			}
			if !bound {
				others["other"] = true
			}
		case *ssa.Alloc:
			// reached as the binding of a variable captured by reference
			storesTo(x, depth)
		case *ssa.UnOp:
			if x.Op != token.MUL {
				others["other"] = true
				return
			}
			switch ad := x.X.(type) {
			case *ssa.Alloc:
				storesTo(ad, depth)
			case *ssa.FreeVar:
				visit(ad, depth+1)
			case *ssa.FieldAddr:
				cls, _, _ := c16DataClass(ad)
				others["field:"+cls] = true
			case *ssa.Global:
				others["global:"+ad.Name()] = true
			default:
				others["other"] = true
			}
		case *ssa.Field:
			cls, _, _ := c16DataClass(x)
			others["field:"+cls] = true
		case *ssa.Call:
			cc := x.Common()
			if cc.IsInvoke() {
				if cc.Method.Name() == "Context" && len(cc.Args) == 0 {
					visit(cc.Value, depth+1) // stream.Context(): the stream stands for the request
					return
				}
				others["call:"+calleeKey(cc)] = true
				return
			}
			key := calleeKey(cc)
			switch key {
			case "context.WithCancel", "context.WithTimeout", "context.WithDeadline", "context.WithValue",
				"context.WithCancelCause", "context.WithTimeoutCause", "context.WithDeadlineCause":
				visit(cc.Args[0], depth+1)
			case "context.Background", "context.TODO":
				others["background"] = true
			case "context.WithoutCancel":
				others["detached"] = true
			default:
				// a method Context() of a concrete stream, or a helper combining contexts: what it is given
				followed := false
				for _, arg := range cc.Args {
					if c16IsContext(arg.Type()) || c16HasContextMethod(arg.Type()) {
						followed = true
						visit(arg, depth+1)
					}
				}
				if !followed {
					others["call:"+key] = true
				}
			}
		default:
			others["other"] = true
		}
	}
	visit(v, 0)
	return
}

// c16StartedWithGo: f is a closure that is started with a go statement in its parent.
func c16StartedWithGo(f *ssa.Function) bool {
	p := f.Parent()
	if p == nil {
		return false
	}
	for _, b := range p.Blocks {
		for _, in := range b.Instrs {
			g, ok := in.(*ssa.Go)
			if !ok {
				continue
			}
			if mc, ok := g.Common().Value.(*ssa.MakeClosure); ok && mc.Fn == ssa.Value(f) {
				return true
			}
		}
	}
	return false
}

// checkD8: every call of a waiting primitive (Notify.Wait, a function that hands one of its
// context parameters to such a call, transitively up to 3 levels) made in a function that has
// a request context of its own (a context.Context parameter, or a stream parameter offering
// Context(), of the function or of the functions enclosing a closure) passes a context derived
// from that request context. Functions without any request context have nothing to propagate.
func (a *c16An) checkD8() {
	c := a.c
	cg := a.w.callGraph()
	// forwarders: function -> indices of the context parameters that reach a wait
	fwd := map[*ssa.Function]map[int]bool{}
	for i, p := range a.fnWait.Params {
		if c16IsContext(p.Type()) {
			fwd[a.fnWait] = map[int]bool{i: true}
		}
	}
	if len(fwd) == 0 {
		c.undecided("D8", "Notify.Wait", a.fnWait.Pos(), "Notify.Wait has no context parameter")
		return
	}
	type site struct {
		fn     *ssa.Function
		call   ssa.CallInstruction
		callee *ssa.Function
		arg    ssa.Value
	}
	var sites []site
	seenSite := map[ssa.Instruction]bool{}
	frontier := []*ssa.Function{a.fnWait}
	for round := 0; round < 4 && len(frontier) > 0; round++ {
		var next []*ssa.Function
		for _, callee := range frontier {
			idxs := fwd[callee]
			for _, cs := range cg.callers[callee] {
				if staticCallee(cs.Instr.Common()) != callee || seenSite[cs.Instr.(ssa.Instruction)] {
					continue
				}
				if p := fnPkg(cs.Caller); p == nil || p.Path() == c16PkgNotify {
					continue
				}
				if _, isGo := cs.Instr.(*ssa.Go); isGo {
					continue // the wait runs in a new goroutine: its context is that goroutine's business
				}
				seenSite[cs.Instr.(ssa.Instruction)] = true
				for i := range idxs {
					if i >= len(cs.Instr.Common().Args) {
						continue
					}
					arg := cs.Instr.Common().Args[i]
					sites = append(sites, site{cs.Caller, cs.Instr, callee, arg})
					// does the caller forward a parameter of its own (or of an enclosing function) ?
					ps, _ := c16CtxRoots(arg)
					for p := range ps {
						// only a function that itself blocks in the wait forwards it to its callers: a
						// parameter captured by a closure (typically started with go) does not count
						if !c16IsContext(p.Type()) || p.Parent() != cs.Caller {
							continue
						}
						f := p.Parent()
						for j, q := range f.Params {
							if q == p {
								if fwd[f] == nil {
									fwd[f] = map[int]bool{}
									if round < 3 {
										next = append(next, f)
									}
								}
								fwd[f][j] = true
							}
						}
					}
				}
			}
		}
		frontier = next
	}
	sort.Slice(sites, func(i, j int) bool {
		if sites[i].fn.String() != sites[j].fn.String() {
			return sites[i].fn.String() < sites[j].fn.String()
		}
		return sites[i].call.Pos() < sites[j].call.Pos()
	})
	seenCons := map[string]int{}
	for _, s := range sites {
		c.analysed(s.fn)
		cons := fnName(s.fn) + "+ctx->" + fnName(s.callee)
		seenCons[cons]++
		if n := seenCons[cons]; n > 1 {
			cons += fmt.Sprintf("#%d", n)
		}
		// the request contexts available here
		req := map[*ssa.Parameter]bool{}
		var reqNames []string
		for f := s.fn; f != nil; f = f.Parent() {
			for _, p := range f.Params {
				if c16IsContext(p.Type()) || c16HasContextMethod(p.Type()) {
					req[p] = true
					reqNames = append(reqNames, p.Name())
				}
			}
			if c16StartedWithGo(f) {
				break // goroutine boundary: the enclosing function does not wait for this closure
			}
		}
		sort.Strings(reqNames)
		ps, others := c16CtxRoots(s.arg)
		if len(req) == 0 {
			c.ok("D8", cons, posOf(s.call), "the function has no request context of its own (no context or stream parameter): nothing to propagate")
			continue
		}
		derived := false
		for p := range ps {
			if req[p] {
				derived = true
			}
		}
		var from []string
		for p := range ps {
			from = append(from, "parameter "+p.Name())
		}
		for o := range others {
			from = append(from, o)
		}
		sort.Strings(from)
		c.check(derived, "D8", cons, posOf(s.call),
			"the context handed to the wait derives from the function's own request context ("+strings.Join(reqNames, ", ")+")",
			fmt.Sprintf("the context handed to %s does not derive from the function's own request context (%s) but only from: %s; when the caller of %s cancels, the wait is not cancelled: it stays asleep until the state changes or the long-lived context ends, and a cancelled wait does not return promptly", fnName(s.callee), strings.Join(reqNames, ", "), strings.Join(from, ", "), fnName(s.fn)))
	}
}

func c16IsRead(v ssa.Value) bool {
	refs := v.Referrers()
	if refs == nil {
		return true
	}
	for _, r := range *refs {
		switch u := r.(type) {
		case *ssa.Store:
			if u.Addr == v {
				continue
			}
			return true
		case *ssa.DebugRef:
			continue
		default:
			return true
		}
	}
	return false
}

func c16SyncOrNotify(a *c16An, t types.Type) bool {
	for {
		p, ok := types.Unalias(t).Underlying().(*types.Pointer)
		if !ok {
			break
		}
		t = p.Elem()
	}
	n, _ := types.Unalias(t).(*types.Named)
	if n == nil || n.Obj().Pkg() == nil {
		_, isChan := types.Unalias(t).Underlying().(*types.Chan)
		return isChan
	}
	return n.Obj().Pkg().Path() == "sync" || n.Obj() == a.notifyT.Obj()
}
