package main

// C19.D6: library functions that panic when a byte-slice argument has the wrong length
// (ed25519.NewKeyFromSeed: "bad seed length", cipher.NewCTR: "IV length must equal block size",
// AEAD nonce, ed25519.Sign/Verify key lengths, binary.ByteOrder accessors, slice-to-array
// conversions). Every call site in module code is one obligation: the length of the argument
// must be established on every path to the call, or the bytes must not come from a request, a
// protobuf message field or the argument of an exported cryptoutil helper.

import (
	"fmt"
	"go/constant"
	"go/token"
	"go/types"
	"strings"

	"golang.org/x/tools/go/ssa"
)

// ---------------------------------------------------------------------------
// sink table

const (
	c19LenExact   = iota // len must be exactly N
	c19LenAtLeast        // len must be at least N
	c19LenDynamic        // len must equal a size only known at run time (cipher block size, AEAD nonce size)
)

type c19LenReq struct {
	Kind int
	N    int64
	Ord  int // ordinal among the byte-slice arguments of the call (receiver first)
	What string
}

// keyed by calleeKey; the x/crypto ed25519 package forwards to crypto/ed25519.
var c19LenSinks = map[string]c19LenReq{
	"crypto/ed25519.NewKeyFromSeed":              {c19LenExact, 32, 0, "ed25519 seed (panics: bad seed length)"},
	"golang.org/x/crypto/ed25519.NewKeyFromSeed": {c19LenExact, 32, 0, "ed25519 seed (panics: bad seed length)"},
	"crypto/ed25519.Sign":                        {c19LenExact, 64, 0, "ed25519 private key (panics: bad private key length)"},
	"golang.org/x/crypto/ed25519.Sign":           {c19LenExact, 64, 0, "ed25519 private key (panics: bad private key length)"},
	"crypto/ed25519.Verify":                      {c19LenExact, 32, 0, "ed25519 public key (panics: bad public key length)"},
	"golang.org/x/crypto/ed25519.Verify":         {c19LenExact, 32, 0, "ed25519 public key (panics: bad public key length)"},
	"crypto/ed25519.VerifyWithOptions":           {c19LenExact, 32, 0, "ed25519 public key (panics: bad public key length)"},
	"(crypto/ed25519.PrivateKey).Sign":           {c19LenExact, 64, 0, "ed25519 private key (panics: bad private key length)"},
	"(crypto/ed25519.PrivateKey).Seed":           {c19LenAtLeast, 32, 0, "ed25519 private key (slices the first 32 bytes)"},
	"(crypto/ed25519.PrivateKey).Public":         {c19LenAtLeast, 32, 0, "ed25519 private key (slices from byte 32)"},
	"crypto/cipher.NewCTR":                       {c19LenDynamic, 0, 0, "IV (panics: IV length must equal block size)"},
	"crypto/cipher.NewCBCEncrypter":              {c19LenDynamic, 0, 0, "IV (panics: IV length must equal block size)"},
	"crypto/cipher.NewCBCDecrypter":              {c19LenDynamic, 0, 0, "IV (panics: IV length must equal block size)"},
	"crypto/cipher.NewCFBEncrypter":              {c19LenDynamic, 0, 0, "IV (panics: IV length must equal block size)"},
	"crypto/cipher.NewCFBDecrypter":              {c19LenDynamic, 0, 0, "IV (panics: IV length must equal block size)"},
	"crypto/cipher.NewOFB":                       {c19LenDynamic, 0, 0, "IV (panics: IV length must equal block size)"},
	"(crypto/cipher.AEAD).Seal":                  {c19LenDynamic, 0, 1, "nonce (panics: incorrect nonce length)"},
	"(crypto/cipher.AEAD).Open":                  {c19LenDynamic, 0, 1, "nonce (panics: incorrect nonce length)"},
	"(encoding/binary.ByteOrder).Uint16":         {c19LenAtLeast, 2, 0, "buffer"},
	"(encoding/binary.ByteOrder).Uint32":         {c19LenAtLeast, 4, 0, "buffer"},
	"(encoding/binary.ByteOrder).Uint64":         {c19LenAtLeast, 8, 0, "buffer"},
	"(encoding/binary.ByteOrder).PutUint16":      {c19LenAtLeast, 2, 0, "buffer"},
	"(encoding/binary.ByteOrder).PutUint32":      {c19LenAtLeast, 4, 0, "buffer"},
	"(encoding/binary.ByteOrder).PutUint64":      {c19LenAtLeast, 8, 0, "buffer"},
	"(encoding/binary.bigEndian).Uint16":         {c19LenAtLeast, 2, 0, "buffer"},
	"(encoding/binary.bigEndian).Uint32":         {c19LenAtLeast, 4, 0, "buffer"},
	"(encoding/binary.bigEndian).Uint64":         {c19LenAtLeast, 8, 0, "buffer"},
	"(encoding/binary.bigEndian).PutUint16":      {c19LenAtLeast, 2, 0, "buffer"},
	"(encoding/binary.bigEndian).PutUint32":      {c19LenAtLeast, 4, 0, "buffer"},
	"(encoding/binary.bigEndian).PutUint64":      {c19LenAtLeast, 8, 0, "buffer"},
	"(encoding/binary.littleEndian).Uint16":      {c19LenAtLeast, 2, 0, "buffer"},
	"(encoding/binary.littleEndian).Uint32":      {c19LenAtLeast, 4, 0, "buffer"},
	"(encoding/binary.littleEndian).Uint64":      {c19LenAtLeast, 8, 0, "buffer"},
	"(encoding/binary.littleEndian).PutUint16":   {c19LenAtLeast, 2, 0, "buffer"},
	"(encoding/binary.littleEndian).PutUint32":   {c19LenAtLeast, 4, 0, "buffer"},
	"(encoding/binary.littleEndian).PutUint64":   {c19LenAtLeast, 8, 0, "buffer"},
	// takes interface{} keys; a []byte key of a length other than 32 panics ("unexpected type")
	"(github.com/aead/ecdh.KeyExchange).ComputeSecret": {c19LenExact, 32, -1, "X25519 key passed as a byte slice (panics: unexpected type of key)"},
}

// ---------------------------------------------------------------------------
// length facts

// c19LenFact: what is known about len(v): lo <= len <= hi (hi < 0: unbounded); DynEq: equal to
// a size computed at run time; DynGe: at least such a size.
type c19LenFact struct {
	Known        bool
	Lo, Hi       int64
	DynEq, DynGe bool
	Why          string
}

func c19FactEq(n int64, why string) c19LenFact {
	return c19LenFact{Known: true, Lo: n, Hi: n, Why: why}
}

func (f c19LenFact) any() bool { return f.Known || f.DynEq || f.DynGe }

// meet: the fact that holds when either a or b may be the value (phi, several returns / callers).
func c19FactMeet(a, b c19LenFact) c19LenFact {
	out := c19LenFact{Why: a.Why}
	if a.Known && b.Known {
		out.Known = true
		out.Lo = a.Lo
		if b.Lo < out.Lo {
			out.Lo = b.Lo
		}
		switch {
		case a.Hi < 0 || b.Hi < 0:
			out.Hi = -1
		case a.Hi > b.Hi:
			out.Hi = a.Hi
		default:
			out.Hi = b.Hi
		}
	}
	out.DynEq = a.DynEq && b.DynEq
	out.DynGe = (a.DynGe || a.DynEq) && (b.DynGe || b.DynEq)
	return out
}

// join: both facts hold (two dominating tests).
func c19FactJoin(a, b c19LenFact) c19LenFact {
	if !a.any() {
		return b
	}
	if !b.any() {
		return a
	}
	out := c19LenFact{DynEq: a.DynEq || b.DynEq, DynGe: a.DynGe || b.DynGe, Why: a.Why}
	if b.Why != "" && b.Why != a.Why {
		out.Why = a.Why + " and " + b.Why
	}
	switch {
	case a.Known && b.Known:
		out.Known = true
		out.Lo = a.Lo
		if b.Lo > out.Lo {
			out.Lo = b.Lo
		}
		switch {
		case a.Hi < 0:
			out.Hi = b.Hi
		case b.Hi < 0:
			out.Hi = a.Hi
		case a.Hi < b.Hi:
			out.Hi = a.Hi
		default:
			out.Hi = b.Hi
		}
	case a.Known:
		out.Known, out.Lo, out.Hi = true, a.Lo, a.Hi
	case b.Known:
		out.Known, out.Lo, out.Hi = true, b.Lo, b.Hi
	}
	return out
}

func (f c19LenFact) satisfies(r c19LenReq) bool {
	switch r.Kind {
	case c19LenExact:
		return f.Known && f.Lo == r.N && f.Hi == r.N
	case c19LenAtLeast:
		return f.Known && f.Lo >= r.N
	case c19LenDynamic:
		// the equality with the run-time size is accepted as written; a constant length is
		// accepted too (AES block size 16, GCM standard nonce 12 are constants of the algorithm)
		return f.DynEq || (f.Known && f.Lo == f.Hi && f.Lo > 0)
	}
	return false
}

// contradicts: the known interval excludes every admissible length.
func (f c19LenFact) contradicts(r c19LenReq) bool {
	if !f.Known {
		return false
	}
	switch r.Kind {
	case c19LenExact:
		return f.Lo > r.N || (f.Hi >= 0 && f.Hi < r.N)
	case c19LenAtLeast:
		return f.Hi >= 0 && f.Hi < r.N
	}
	return false
}

func (f c19LenFact) String() string {
	switch {
	case f.Known && f.Lo == f.Hi:
		return fmt.Sprintf("len == %d", f.Lo)
	case f.Known && f.Hi < 0:
		return fmt.Sprintf("len >= %d", f.Lo)
	case f.Known:
		return fmt.Sprintf("%d <= len <= %d", f.Lo, f.Hi)
	case f.DynEq:
		return "len == a size computed at run time"
	case f.DynGe:
		return "len >= a size computed at run time"
	}
	return "nothing known about len"
}

type c19Len struct {
	c            *Ctx
	n            *c19Nil
	bind         map[*ssa.Parameter]int64 // constants bound to the parameters of the callees being summarised
	fieldStores  map[*types.Var][]*ssa.Store
	fieldEscapes map[*types.Var]bool
	retM         map[*ssa.Function]*c19LenFact
	busy         map[*ssa.Function]bool
}

func c19IsLenOf(x ssa.Value) (ssa.Value, bool) {
	call, ok := x.(*ssa.Call)
	if !ok {
		return nil, false
	}
	b, ok := call.Common().Value.(*ssa.Builtin)
	if !ok || b.Name() != "len" || len(call.Common().Args) != 1 {
		return nil, false
	}
	return call.Common().Args[0], true
}

// c19SameBytes: a and b are the same value or two reads of the same access path.
func c19SameBytes(a, b ssa.Value) bool {
	if a == b {
		return true
	}
	ka, kb := c19Key(a), c19Key(b)
	return ka != "" && ka == kb
}

// c19CmpFact: the fact about len established on the edge taken when the comparison
// "len op k" (len on the left) has the truth value taken.
func c19CmpFact(op token.Token, k ssa.Value, taken bool, why string) c19LenFact {
	kc, isConst := constInt(k)
	if !taken {
		switch op {
		case token.EQL:
			op = token.NEQ
		case token.NEQ:
			op = token.EQL
		case token.LSS:
			op = token.GEQ
		case token.LEQ:
			op = token.GTR
		case token.GTR:
			op = token.LEQ
		case token.GEQ:
			op = token.LSS
		}
	}
	if !isConst {
		switch op {
		case token.EQL:
			return c19LenFact{DynEq: true, Why: why}
		case token.GEQ, token.GTR:
			return c19LenFact{DynGe: true, Why: why}
		}
		return c19LenFact{}
	}
	switch op {
	case token.EQL:
		return c19LenFact{Known: true, Lo: kc, Hi: kc, Why: why}
	case token.GEQ:
		return c19LenFact{Known: true, Lo: kc, Hi: -1, Why: why}
	case token.GTR:
		return c19LenFact{Known: true, Lo: kc + 1, Hi: -1, Why: why}
	case token.LSS:
		if kc-1 < 0 {
			return c19LenFact{}
		}
		return c19LenFact{Known: true, Lo: 0, Hi: kc - 1, Why: why}
	case token.LEQ:
		return c19LenFact{Known: true, Lo: 0, Hi: kc, Why: why}
	}
	return c19LenFact{} // != k: nothing usable
}

func c19Mirror(op token.Token) token.Token {
	switch op {
	case token.LSS:
		return token.GTR
	case token.LEQ:
		return token.GEQ
	case token.GTR:
		return token.LSS
	case token.GEQ:
		return token.LEQ
	}
	return op
}

// testFacts: facts from the comparisons on len(v) (or on len of another read of the same
// path) whose outcome is fixed on every path to at.
func (l *c19Len) testFacts(v ssa.Value, at ssa.Instruction) c19LenFact {
	out := c19LenFact{}
	blk := at.Block()
	for _, b := range blk.Parent().Blocks {
		if len(b.Instrs) == 0 || len(b.Succs) != 2 {
			continue
		}
		ifi, ok := b.Instrs[len(b.Instrs)-1].(*ssa.If)
		if !ok {
			continue
		}
		cond := ifi.Cond
		neg := false
		for {
			u, ok := cond.(*ssa.UnOp)
			if !ok || u.Op != token.NOT {
				break
			}
			cond, neg = u.X, !neg
		}
		bo, ok := cond.(*ssa.BinOp)
		if !ok {
			continue
		}
		var k ssa.Value
		op := bo.Op
		if lv, ok := c19IsLenOf(bo.X); ok && c19SameBytes(lv, v) {
			k = bo.Y
		} else if lv, ok := c19IsLenOf(bo.Y); ok && c19SameBytes(lv, v) {
			k, op = bo.X, c19Mirror(bo.Op)
		} else {
			continue
		}
		switch op {
		case token.EQL, token.NEQ, token.LSS, token.LEQ, token.GTR, token.GEQ:
		default:
			continue
		}
		d0 := edgeDominates(edge{b, b.Succs[0]}, blk)
		d1 := edgeDominates(edge{b, b.Succs[1]}, blk)
		if d0 == d1 {
			continue
		}
		taken := d0 != neg // truth value of the comparison on the dominating edge
		why := "test of its length at " + l.c.pos(posOf(ifi))
		if par, ok := k.(*ssa.Parameter); ok {
			if kc, bound := l.bind[par]; bound {
				k = ssa.NewConst(constant.MakeInt64(kc), par.Type())
				why += fmt.Sprintf(" (parameter %s = %d at this call)", par.Name(), kc)
			}
		}
		out = c19FactJoin(out, c19CmpFact(op, k, taken, why))
	}
	return out
}

func c19ArrayLen(t types.Type) (int64, bool) {
	if p, ok := t.Underlying().(*types.Pointer); ok {
		t = p.Elem()
	}
	if a, ok := t.Underlying().(*types.Array); ok {
		return a.Len(), true
	}
	return 0, false
}

func c19StripIface(v ssa.Value) ssa.Value {
	for i := 0; i < 6; i++ {
		switch x := v.(type) {
		case *ssa.MakeInterface:
			v = x.X
		case *ssa.ChangeInterface:
			v = x.X
		case *ssa.ChangeType:
			v = x.X
		default:
			return v
		}
	}
	return v
}

// fact: what is known about len(v) at instruction at.
func (l *c19Len) fact(v ssa.Value, at ssa.Instruction, depth int, seen map[ssa.Value]bool) c19LenFact {
	if v == nil || depth > 5 || seen[v] {
		return c19LenFact{}
	}
	seen[v] = true
	defer delete(seen, v)
	structural := c19LenFact{}
	switch x := v.(type) {
	case *ssa.Slice:
		lo, loOK := int64(0), true
		if x.Low != nil {
			lo, loOK = constInt(x.Low)
		}
		if n, isArr := c19ArrayLen(x.X.Type()); isArr {
			hi, hiOK := n, true
			if x.High != nil {
				hi, hiOK = constInt(x.High)
			}
			if loOK && hiOK {
				structural = c19FactEq(hi-lo, "slice of a fixed-size array")
			}
		} else if x.High != nil {
			if hi, ok := constInt(x.High); ok && loOK {
				structural = c19FactEq(hi-lo, "slice expression with constant bounds")
			} else if loOK && lo == 0 {
				structural = c19LenFact{DynEq: true, Why: "slice expression [:n] with a size computed at run time"}
			}
		}
	case *ssa.MakeSlice:
		if k, ok := constInt(x.Len); ok {
			structural = c19FactEq(k, "make with a constant length")
		} else {
			structural = c19LenFact{DynEq: true, Why: "make with a size computed at run time"}
		}
	case *ssa.Const:
		if x.Value == nil {
			structural = c19FactEq(0, "nil slice")
		} else if x.Value.Kind() == constant.String {
			structural = c19FactEq(int64(len(constant.StringVal(x.Value))), "constant")
		}
	case *ssa.ChangeType:
		structural = l.fact(x.X, at, depth, seen)
	case *ssa.Convert:
		if c, ok := x.X.(*ssa.Const); ok && c.Value != nil && c.Value.Kind() == constant.String {
			structural = c19FactEq(int64(len(constant.StringVal(c.Value))), "constant")
		} else if c19IsByteSlice(x.X.Type()) {
			structural = l.fact(x.X, at, depth, seen)
		}
	case *ssa.Phi:
		first := true
		for i, e := range x.Edges {
			pred := x.Block().Preds[i]
			f := l.fact(e, pred.Instrs[len(pred.Instrs)-1], depth+1, seen)
			if first {
				structural, first = f, false
			} else {
				structural = c19FactMeet(structural, f)
			}
		}
	case *ssa.Call:
		if _, isTuple := x.Type().(*types.Tuple); !isTuple {
			structural = l.callFact(x, 0, at, depth, seen)
		}
	case *ssa.Extract:
		if call, ok := x.Tuple.(*ssa.Call); ok {
			structural = l.callFact(call, x.Index, at, depth, seen)
		}
	case *ssa.UnOp:
		// field of a module struct: every store to that field in the module has the fact
		if x.Op == token.MUL {
			if fa, ok := x.X.(*ssa.FieldAddr); ok {
				structural = l.fieldFact(fa, depth, seen)
			}
		}
	case *ssa.Parameter:
		fn := x.Parent()
		idx := -1
		for i, p := range fn.Params {
			if p == x {
				idx = i
			}
		}
		var sites []callSite
		for _, cs := range l.n.w.callGraph().callers[fn] {
			if staticCallee(cs.Instr.Common()) != nil { // static call sites only: argument positions are certain
				sites = append(sites, cs)
			} else {
				sites = nil
				idx = -1
				break
			}
		}
		if idx >= 0 && len(sites) > 0 {
			first := true
			for _, cs := range sites {
				args := cs.Instr.Common().Args
				if idx >= len(args) {
					structural = c19LenFact{}
					break
				}
				f := l.fact(args[idx], cs.Instr, depth+1, seen)
				if first {
					structural, first = f, false
				} else {
					structural = c19FactMeet(structural, f)
				}
			}
			if structural.any() {
				structural.Why = "every module caller passes a value with " + structural.String()
			}
		}
	}
	return c19FactJoin(structural, l.testFacts(v, at))
}

// fieldFact: the length invariant of a byte-slice field of a module struct: the meet of the
// facts of every value stored into that field anywhere in the module (composite literals in
// the constructors, assignments); none when the field's address escapes or nothing is stored.
func (l *c19Len) fieldFact(fa *ssa.FieldAddr, depth int, seen map[ssa.Value]bool) c19LenFact {
	fv := c19FieldVar(fa)
	if fv == nil || fv.Pkg() == nil || !strings.HasPrefix(fv.Pkg().Path(), modulePath) || c19IsProtoMessage(l.n.w, fa.X.Type()) {
		return c19LenFact{}
	}
	if l.fieldStores == nil {
		l.fieldStores = map[*types.Var][]*ssa.Store{}
		l.fieldEscapes = map[*types.Var]bool{}
		for _, fn := range l.c.W.ModFuncs {
			for _, b := range fn.Blocks {
				for _, in := range b.Instrs {
					a, ok := in.(*ssa.FieldAddr)
					if !ok || !c19IsByteSlice(a.Type().Underlying().(*types.Pointer).Elem()) {
						continue
					}
					v := c19FieldVar(a)
					if v == nil || a.Referrers() == nil {
						continue
					}
					for _, r := range *a.Referrers() {
						switch u := r.(type) {
						case *ssa.Store:
							if u.Addr == ssa.Value(a) {
								l.fieldStores[v] = append(l.fieldStores[v], u)
							} else {
								l.fieldEscapes[v] = true
							}
						case *ssa.UnOp, *ssa.DebugRef:
						default:
							l.fieldEscapes[v] = true
						}
					}
				}
			}
		}
	}
	stores := l.fieldStores[fv]
	if l.fieldEscapes[fv] || len(stores) == 0 {
		return c19LenFact{}
	}
	out, first := c19LenFact{}, true
	for _, st := range stores {
		f := l.fact(st.Val, st, depth+1, seen)
		if first {
			out, first = f, false
		} else {
			out = c19FactMeet(out, f)
		}
	}
	if out.any() {
		out.Why = fmt.Sprintf("every one of the %d stores to field %s in the module has %s", len(stores), fv.Name(), out.String())
	}
	return out
}

// nilReturnExcluded: the return rv of callee f, which hands back a nil slice, cannot be the one
// the call took when control reaches at.
func (l *c19Len) nilReturnExcluded(call *ssa.Call, f *ssa.Function, rv c19RetVariant, at ssa.Instruction) bool {
	rr := rv.RR
	if eidx := errResultIndex(f.Signature); eidx >= 0 && eidx < len(rr) && l.n.nonNilErr(rr[eidx], rv.At.block(), 0) {
		if c19AcceptDominates(errVerdict(call), c19AtInstr(at)) {
			return true
		}
	}
	for k, v := range rr {
		cv, ok := v.(*ssa.Const)
		if !ok || cv.Value == nil {
			continue
		}
		switch cv.Value.Kind() {
		case constant.Int, constant.Bool, constant.String:
		default:
			continue
		}
		for _, e := range extractsOf(call, k) {
			if c19ExcludesConst(e, cv.Value, at) {
				return true
			}
		}
	}
	return false
}

// c19ExcludesConst: on every path to at, e is known to differ from the constant cv: at is
// dominated by the false side of a test e == cv, or by the true side of e == c2 with c2 != cv
// (switch statements over a status enum compile to such chains).
func c19ExcludesConst(e ssa.Value, cv constant.Value, at ssa.Instruction) bool {
	if e.Referrers() == nil {
		return false
	}
	for _, r := range *e.Referrers() {
		bo, ok := r.(*ssa.BinOp)
		if !ok || (bo.Op != token.EQL && bo.Op != token.NEQ) {
			continue
		}
		other := bo.Y
		if bo.Y == e {
			other = bo.X
		}
		oc, ok := other.(*ssa.Const)
		if !ok || oc.Value == nil || oc.Value.Kind() != cv.Kind() {
			continue
		}
		same := constant.Compare(oc.Value, token.EQL, cv)
		if bo.Referrers() == nil {
			continue
		}
		for _, u := range *bo.Referrers() {
			ifi, ok := u.(*ssa.If)
			if !ok || len(ifi.Block().Succs) != 2 {
				continue
			}
			b := ifi.Block()
			for si, succ := range b.Succs {
				if !edgeDominates(edge{b, succ}, at.Block()) {
					continue
				}
				eqHolds := (si == 0) == (bo.Op == token.EQL) // e == oc on this edge
				if (eqHolds && !same) || (!eqHolds && same) {
					return true
				}
			}
		}
	}
	return false
}

// callFact: known-length results of library functions and of module functions.
func (l *c19Len) callFact(call *ssa.Call, idx int, at ssa.Instruction, depth int, seen map[ssa.Value]bool) c19LenFact {
	cc := call.Common()
	key := calleeKey(cc)
	switch {
	case key == "io.ReadAll" && idx == 0 && len(cc.Args) == 1:
		// io.ReadAll(io.LimitReader(r, K)) with r an HKDF stream: HKDF delivers up to 255 hash
		// lengths without error, so with a nil error the result has exactly K bytes
		lim, ok := c19StripIface(cc.Args[0]).(*ssa.Call)
		if !ok || calleeKey(lim.Common()) != "io.LimitReader" || len(lim.Common().Args) != 2 {
			return c19LenFact{}
		}
		k, ok := constInt(lim.Common().Args[1])
		if !ok || k < 0 || k > 255*28 {
			return c19LenFact{}
		}
		src, ok := c19StripIface(lim.Common().Args[0]).(*ssa.Call)
		if !ok {
			return c19LenFact{}
		}
		switch calleeKey(src.Common()) {
		case "golang.org/x/crypto/hkdf.New", "golang.org/x/crypto/hkdf.Expand":
		default:
			return c19LenFact{}
		}
		if !c19AcceptDominates(errVerdict(call), c19AtInstr(at)) {
			return c19LenFact{}
		}
		return c19FactEq(k, fmt.Sprintf("io.ReadAll of an HKDF stream limited to %d bytes, error tested nil", k))
	case key == "(github.com/aead/ecdh.KeyExchange).ComputeSecret" && idx == 0:
		if recv, ok := cc.Value.(*ssa.Call); ok && calleeKey(recv.Common()) == "github.com/aead/ecdh.X25519" {
			return c19FactEq(32, "X25519 shared secret (32 bytes)")
		}
		return c19LenFact{}
	case key == "(hash.Hash).Sum" || key == "builtin.append":
		return c19LenFact{}
	}
	f := staticCallee(cc)
	if f == nil || f.Blocks == nil {
		return c19LenFact{}
	}
	if o := f.Origin(); o != nil && o.Blocks != nil {
		f = o
	}
	if idx >= f.Signature.Results().Len() || !c19IsByteSlice(f.Signature.Results().At(idx).Type()) {
		return c19LenFact{}
	}
	if l.busy[f] {
		return c19LenFact{}
	}
	l.busy[f] = true
	defer delete(l.busy, f)
	// length tests against a parameter of the callee are read with the constant this call passes
	saved := l.bind
	l.bind = map[*ssa.Parameter]int64{}
	for k, v := range saved {
		l.bind[k] = v
	}
	for i, p := range f.Params {
		if i < len(cc.Args) {
			if k, ok := constInt(cc.Args[i]); ok {
				l.bind[p] = k
			} else if ap, ok := cc.Args[i].(*ssa.Parameter); ok {
				if k, ok := saved[ap]; ok {
					l.bind[p] = k
				}
			}
		}
	}
	defer func() { l.bind = saved }()
	out, first := c19LenFact{}, true
	for _, rv := range c19ReturnVariants(f) {
		rr := rv.RR
		if idx >= len(rr) {
			continue
		}
		var rf c19LenFact
		if isNilConst(rr[idx]) {
			// a nil return is left out when the call site has ruled it out: its error was tested
			// nil, or one of its other results (a status constant, a flag) is known to differ at
			// the use; otherwise it counts as what it is, a slice of length 0
			if l.nilReturnExcluded(call, f, rv, at) {
				continue
			}
			rf = c19FactEq(0, "nil return at "+l.c.pos(posOf(rv.R)))
		} else {
			rf = l.fact(rr[idx], rv.At.instr(), depth+1, map[ssa.Value]bool{})
		}
		if first {
			out, first = rf, false
		} else {
			out = c19FactMeet(out, rf)
		}
	}
	if out.any() {
		out.Why = "result of " + fnName(f) + " (" + out.String() + ")"
	}
	return out
}

// ---------------------------------------------------------------------------
// provenance

func c19IsProtoMessage(w *World, t types.Type) bool {
	if p, ok := t.(*types.Pointer); ok {
		t = p.Elem()
	}
	nt, ok := t.(*types.Named)
	if !ok {
		return false
	}
	ms := w.Prog.MethodSets.MethodSet(types.NewPointer(nt))
	for i := 0; i < ms.Len(); i++ {
		if ms.At(i).Obj().Name() == "ProtoReflect" {
			return true
		}
	}
	return false
}

// untrustedCall: results whose length the data source decides (whole-stream reads), and results
// of module functions that return untrusted bytes.
func (l *c19Len) untrustedCall(call *ssa.Call, idx int, depth int, seen map[ssa.Value]bool) string {
	cc := call.Common()
	switch key := calleeKey(cc); key {
	case "io.ReadAll", "io/ioutil.ReadAll", "os.ReadFile", "io/ioutil.ReadFile":
		if idx == 0 {
			return "the result of " + key + ", whose length the data source decides"
		}
	}
	f := staticCallee(cc)
	if f == nil || f.Blocks == nil || depth > 3 {
		return ""
	}
	for _, r := range returnsOf(f) {
		rr := retResults(r)
		if idx < len(rr) {
			if s := l.untrusted(rr[idx], depth+1, seen); s != "" {
				return s + ", returned by " + fnName(f)
			}
		}
	}
	return ""
}

// untrusted: why the length of v is outside the control of the module ("" when no reason is
// known). Decided from the backward slice of v only (fields of protobuf messages, which include
// every request message; arguments of the exported cryptoutil helpers; whole-stream reads;
// through slicing, conversions, phis, module callees and the arguments of module callers): it
// does not depend on which other code happens to be influenced by a request.
func (l *c19Len) untrusted(v ssa.Value, depth int, seen map[ssa.Value]bool) string {
	if v == nil || depth > 4 || seen[v] {
		return ""
	}
	seen[v] = true
	switch x := v.(type) {
	case *ssa.Extract:
		if call, ok := x.Tuple.(*ssa.Call); ok {
			return l.untrustedCall(call, x.Index, depth, seen)
		}
	case *ssa.UnOp:
		if x.Op == token.MUL {
			if fa, ok := x.X.(*ssa.FieldAddr); ok {
				if fv := c19FieldVar(fa); fv != nil && c19IsProtoMessage(l.n.w, fa.X.Type()) {
					return "field " + fv.Name() + " of protobuf message " + c19OwnerName(fa) + " (decoded from the wire or from storage)"
				}
			}
		}
	case *ssa.Call:
		if recv, f, ok := c19Getter(x); ok && c19IsProtoMessage(l.n.w, recv.Type()) {
			return "field " + f + " of a protobuf message (decoded from the wire or from storage)"
		}
		if _, isTuple := x.Type().(*types.Tuple); !isTuple {
			return l.untrustedCall(x, 0, depth, seen)
		}
	case *ssa.Slice:
		return l.untrusted(x.X, depth, seen)
	case *ssa.ChangeType:
		return l.untrusted(x.X, depth, seen)
	case *ssa.Convert:
		return l.untrusted(x.X, depth, seen)
	case *ssa.MakeInterface:
		return l.untrusted(x.X, depth, seen)
	case *ssa.Phi:
		for _, e := range x.Edges {
			if s := l.untrusted(e, depth, seen); s != "" {
				return s
			}
		}
	case *ssa.Parameter:
		fn := x.Parent()
		idx := -1
		for i, p := range fn.Params {
			if p == x {
				idx = i
			}
		}
		callers := l.n.w.callGraph().callers[fn]
		for _, cs := range callers {
			cc := cs.Instr.Common()
			args := cc.Args
			if cc.IsInvoke() {
				args = append([]ssa.Value{cc.Value}, args...)
			}
			if idx >= 0 && idx < len(args) {
				if s := l.untrusted(args[idx], depth+1, seen); s != "" {
					return s + ", passed by " + fnName(cs.Caller)
				}
			}
		}
		if obj := fn.Object(); obj != nil && obj.Exported() && fn.Pkg != nil && fn.Pkg.Pkg.Path() == c19PkgCryptoutil && fn.Parent() == nil {
			return "argument " + x.Name() + " of exported helper " + fnName(fn) + ", which applications call on their own data"
		}
	}
	return ""
}

// ---------------------------------------------------------------------------

func c19ByteArg(cc *ssa.CallCommon, ord int) ssa.Value {
	var all []ssa.Value
	if cc.IsInvoke() {
		all = append(all, cc.Value)
	}
	all = append(all, cc.Args...)
	k := 0
	for _, a := range all {
		if c19IsByteSlice(a.Type()) {
			if k == ord {
				return a
			}
			k++
		}
	}
	return nil
}

func c19RunD6(c *Ctx, n *c19Nil, taint *c19Taint, fns []*ssa.Function) {
	_ = taint // D6 no longer depends on the request-taint fixpoint of D1
	l := &c19Len{c: c, n: n, retM: map[*ssa.Function]*c19LenFact{}, busy: map[*ssa.Function]bool{}}
	nSites, nEstablished, nInternal := 0, 0, 0
	judge := func(fn *ssa.Function, in ssa.Instruction, label string, k int, arg ssa.Value, req c19LenReq) {
		nSites++
		c.analysed(fn)
		construct := fnName(fn) + "+" + label
		if k > 1 {
			construct += fmt.Sprintf("#%d", k)
		}
		need := ""
		switch req.Kind {
		case c19LenExact:
			need = fmt.Sprintf("exactly %d bytes", req.N)
		case c19LenAtLeast:
			need = fmt.Sprintf("at least %d bytes", req.N)
		default:
			need = "exactly the size the primitive reports at run time"
		}
		f := l.fact(arg, in, 0, map[ssa.Value]bool{})
		if f.satisfies(req) {
			nEstablished++
			c.ok("D6", construct, posOf(in), "%s needs %s for its %s; established on every path: %s (%s)", label, need, req.What, f.String(), f.Why)
			return
		}
		if f.contradicts(req) {
			c.fail("D6", construct, posOf(in), "%s panics unless its %s has %s; here the length is known and wrong on some path: %s (%s): the call panics whenever it is reached", label, req.What, need, f.String(), f.Why)
			return
		}
		why := l.untrusted(arg, 0, map[ssa.Value]bool{})
		if why == "" {
			nInternal++
			c.ok("D6", construct, posOf(in), "%s needs %s for its %s; not established inside %s (%s), but the bytes are neither a protobuf message field (request data included), nor the argument of an exported helper, nor a whole-stream read", label, need, req.What, fnName(fn), f.String())
			return
		}
		c.fail("D6", construct, posOf(in), "%s panics unless its %s has %s; here it receives %s and on some path only this is known: %s; a malformed input crashes the process instead of being answered with an error", label, req.What, need, why, f.String())
	}
	for _, fn := range c.W.ModFuncs {
		if fn.Synthetic != "" {
			continue
		}
		perKey := map[string]int{}
		for _, b := range fn.Blocks {
			if b == fn.Recover {
				continue
			}
			for _, in := range b.Instrs {
				switch x := in.(type) {
				case *ssa.SliceToArrayPointer:
					if !c19IsByteSlice(x.X.Type()) {
						continue
					}
					nArr, ok := c19ArrayLen(x.Type())
					if !ok {
						continue
					}
					perKey["conv"]++
					judge(fn, x, fmt.Sprintf("conversion to [%d]byte", nArr), perKey["conv"], x.X, c19LenReq{c19LenAtLeast, nArr, 0, "operand (panics when the slice is shorter than the array)"})
				case ssa.CallInstruction:
					cc := x.Common()
					key := calleeKey(cc)
					req, ok := c19LenSinks[key]
					if !ok {
						continue
					}
					if req.Ord < 0 {
						// interface{} parameters: only byte slices boxed into them matter
						for _, a := range cc.Args {
							if inner := c19StripIface(a); inner != a && c19IsByteSlice(inner.Type()) {
								perKey[key]++
								judge(fn, x, key, perKey[key], inner, req)
							}
						}
						continue
					}
					arg := c19ByteArg(cc, req.Ord)
					if arg == nil {
						continue
					}
					perKey[key]++
					judge(fn, x, key, perKey[key], arg, req)
				}
			}
		}
	}
	c.count("D6.length_precondition_call_sites", nSites)
	c.count("D6.length_established", nEstablished)
	c.count("D6.internal_buffers", nInternal)
	c19RunD9(c, l)
}

// c19IsTestingParam: *testing.T, *testing.B, testing.TB.
func c19IsTestingType(t types.Type) bool {
	if p, ok := t.(*types.Pointer); ok {
		t = p.Elem()
	}
	n, ok := t.(*types.Named)
	return ok && n.Obj().Pkg() != nil && n.Obj().Pkg().Path() == "testing"
}

// c19ApiFuncs: the module functions outside the handler paths, except test helpers (functions
// that take a testing.T/B/TB, the closures inside them, and the packages whose name says they
// are test utilities are recognised by that parameter only).
func c19ApiFuncs(w *World, reach map[*ssa.Function]int) []*ssa.Function {
	var out []*ssa.Function
	for _, fn := range w.ModFuncs {
		if _, ok := reach[fn]; ok || fn.Synthetic != "" {
			continue
		}
		helper := false
		for f := fn; f != nil && !helper; f = f.Parent() {
			for _, p := range f.Params {
				if c19IsTestingType(p.Type()) {
					helper = true
				}
			}
			for _, fv := range f.FreeVars {
				if pt, ok := fv.Type().(*types.Pointer); ok && c19IsTestingType(pt.Elem()) {
					helper = true
				}
			}
		}
		if !helper {
			out = append(out, fn)
		}
	}
	return out
}

// ---------------------------------------------------------------------------
// callback roots

type c19Callback struct {
	Fn  *ssa.Function
	Why string
}

const c19PkgOrbitIface = "berty.tech/go-orbit-db/iface"

// c19CallbackRoots: module functions that orbit-db calls back while a handler is being served.
//   - store constructors (functions and closures with the signature of iface.StoreConstructor):
//     orbit-db invokes them when ActivateGroup / MultiMemberGroupCreate opens the stores of a group;
//   - the methods of module types implementing iface.StoreIndex: orbit-db invokes UpdateIndex
//     when a handler appends an entry to a store (AppMessageSend, AppMetadataSend, every
//     account-group operation) and Get when the store is read.
func c19CallbackRoots(c *Ctx) []c19Callback {
	var out []c19Callback
	var ctorSig *types.Signature
	var indexIface *types.Interface
	for _, p := range c.W.Pkgs {
		imp := p.Imports[c19PkgOrbitIface]
		if imp == nil || imp.Types == nil {
			continue
		}
		if o := imp.Types.Scope().Lookup("StoreConstructor"); o != nil {
			ctorSig, _ = o.Type().Underlying().(*types.Signature)
		}
		if o := imp.Types.Scope().Lookup("StoreIndex"); o != nil {
			indexIface, _ = o.Type().Underlying().(*types.Interface)
		}
		break
	}
	if ctorSig == nil || indexIface == nil {
		c.undecided("D1", "callback-roots", token.NoPos, "orbit-db iface.StoreConstructor / iface.StoreIndex not found: the store callbacks cannot be added to the entry points")
		return nil
	}
	for _, fn := range c.W.ModFuncs {
		if fn.Synthetic != "" || fn.Blocks == nil {
			continue
		}
		sig := fn.Signature
		if sig.Recv() == nil && types.Identical(types.NewSignatureType(nil, nil, nil, sig.Params(), sig.Results(), sig.Variadic()), ctorSig) {
			out = append(out, c19Callback{fn, "store constructor (iface.StoreConstructor): orbit-db calls it when a handler opens the stores of a group"})
		}
	}
	seen := map[*ssa.Function]bool{}
	for _, impl := range c.W.implementersOf(indexIface) {
		for i := 0; i < indexIface.NumMethods(); i++ {
			m := c.W.methodOf(impl, indexIface.Method(i).Name())
			if m != nil && m.Blocks != nil && !seen[m] && m.Synthetic == "" {
				seen[m] = true
				out = append(out, c19Callback{m, "store index (iface.StoreIndex." + indexIface.Method(i).Name() + "): orbit-db calls it when a handler appends to or reads a store"})
			}
		}
	}
	return out
}

// ---------------------------------------------------------------------------
// D9: index into a fixed-size array

// indexBound: an exclusive upper bound of integer v that holds on every path to at (-1: none),
// and, when the only bound found is the length of a byte slice that has no upper bound itself,
// that slice.
func (l *c19Len) indexBound(v ssa.Value, at ssa.Instruction) (ub int64, why string, unbounded ssa.Value) {
	ub = -1
	take := func(k int64, w string) {
		if k >= 0 && (ub < 0 || k < ub) {
			ub, why = k, w
		}
	}
	if k, ok := constInt(v); ok {
		return k + 1, "constant index", nil
	}
	if b, ok := v.Type().Underlying().(*types.Basic); ok && b.Kind() == types.Uint8 {
		take(256, "index of type uint8")
	}
	if bo, ok := v.(*ssa.BinOp); ok && bo.Op == token.AND {
		for _, o := range []ssa.Value{bo.X, bo.Y} {
			if m, ok := constInt(o); ok && m >= 0 {
				take(m+1, fmt.Sprintf("index masked with %d", m))
			}
		}
	}
	blk := at.Block()
	for _, b := range blk.Parent().Blocks {
		if len(b.Instrs) == 0 || len(b.Succs) != 2 {
			continue
		}
		ifi, ok := b.Instrs[len(b.Instrs)-1].(*ssa.If)
		if !ok {
			continue
		}
		cond, neg := ifi.Cond, false
		for {
			u, ok := cond.(*ssa.UnOp)
			if !ok || u.Op != token.NOT {
				break
			}
			cond, neg = u.X, !neg
		}
		bo, ok := cond.(*ssa.BinOp)
		if !ok {
			continue
		}
		var k ssa.Value
		op := bo.Op
		switch {
		case bo.X == v:
			k = bo.Y
		case bo.Y == v:
			k, op = bo.X, c19Mirror(bo.Op)
		default:
			continue
		}
		d0 := edgeDominates(edge{b, b.Succs[0]}, blk)
		d1 := edgeDominates(edge{b, b.Succs[1]}, blk)
		if d0 == d1 {
			continue
		}
		if taken := d0 != neg; !taken {
			switch op {
			case token.LSS:
				op = token.GEQ
			case token.LEQ:
				op = token.GTR
			case token.GTR:
				op = token.LEQ
			case token.GEQ:
				op = token.LSS
			case token.EQL:
				op = token.NEQ
			case token.NEQ:
				op = token.EQL
			}
		}
		// v op k holds at the site
		excl := int64(0)
		switch op {
		case token.LSS:
			excl = 0
		case token.LEQ, token.EQL:
			excl = 1
		default:
			continue
		}
		where := "comparison at " + l.c.pos(posOf(ifi))
		if kc, ok := constInt(k); ok {
			take(kc+excl, where)
			continue
		}
		if s, ok := c19IsLenOf(k); ok {
			if n, isArr := c19ArrayLen(s.Type()); isArr {
				take(n+excl, where+" with the length of an array")
				continue
			}
			f := l.fact(s, at, 0, map[ssa.Value]bool{})
			if f.Known && f.Hi >= 0 {
				take(f.Hi+excl, where+" with len of a slice that has "+f.String())
			} else if unbounded == nil {
				unbounded = s
			}
		}
	}
	return ub, why, unbounded
}

// indexUntrusted: the index is computed from an element of untrusted bytes.
func (l *c19Len) indexUntrusted(v ssa.Value, depth int) string {
	if depth > 4 {
		return ""
	}
	switch x := v.(type) {
	case *ssa.Convert:
		return l.indexUntrusted(x.X, depth+1)
	case *ssa.BinOp:
		if s := l.indexUntrusted(x.X, depth+1); s != "" {
			return s
		}
		return l.indexUntrusted(x.Y, depth+1)
	case *ssa.UnOp:
		if x.Op == token.MUL {
			if ia, ok := x.X.(*ssa.IndexAddr); ok && c19IsByteSlice(ia.X.Type()) {
				if s := l.untrusted(ia.X, 0, map[ssa.Value]bool{}); s != "" {
					return "a value read from " + s
				}
			}
		}
	}
	return ""
}

func c19RunD9(c *Ctx, l *c19Len) {
	nSites, nCopies := 0, 0
	for _, fn := range c.W.ModFuncs {
		if fn.Synthetic != "" && fn.Origin() == nil {
			continue
		}
		k, kc := 0, 0
		for _, b := range fn.Blocks {
			if b == fn.Recover {
				continue
			}
			for _, in := range b.Instrs {
				var x, idx ssa.Value
				switch u := in.(type) {
				case *ssa.IndexAddr:
					x, idx = u.X, u.Index
				case *ssa.Index:
					x, idx = u.X, u.Index
				case *ssa.Call:
					// the other way a fixed-size array is filled from a byte slice: copy(arr[:], s)
					// moves min(len) elements and cannot run over either side
					if bi, isB := u.Call.Value.(*ssa.Builtin); isB && bi.Name() == "copy" && len(u.Call.Args) == 2 {
						if sl, isS := u.Call.Args[0].(*ssa.Slice); isS {
							if n, isA := c19ArrayLen(sl.X.Type()); isA {
								nCopies++
								kc++
								c.analysed(fn)
								construct := fmt.Sprintf("%s+copy into [%d]%s", fnName(fn), n, types.TypeString(c19ArrayElem(sl.X.Type()), c19Qual))
								if kc > 1 {
									construct += fmt.Sprintf("#%d", kc)
								}
								c.ok("D9", construct, posOf(in), "the array of %d elements is filled by copy, which moves at most %d elements whatever the length of the source", n, n)
							}
						}
					}
					continue
				default:
					continue
				}
				n, ok := c19ArrayLen(x.Type())
				if !ok {
					continue
				}
				if kc, isC := constInt(idx); isC && kc < n {
					continue // checked by the compiler
				}
				k++
				nSites++
				c.analysed(fn)
				construct := fmt.Sprintf("%s+index of [%d]%s", fnName(fn), n, types.TypeString(c19ArrayElem(x.Type()), c19Qual))
				if k > 1 {
					construct += fmt.Sprintf("#%d", k)
				}
				ub, why, unbounded := l.indexBound(idx, in)
				switch {
				case ub >= 0 && ub <= n:
					c.ok("D9", construct, posOf(in), "index into an array of %d elements is below %d on every path (%s)", n, ub, why)
				case ub > n:
					c.fail("D9", construct, posOf(in), "index into an array of %d elements is only known to be below %d (%s): an index of %d or more panics (index out of range)", n, ub, why, n)
				case unbounded != nil:
					if src := l.untrusted(unbounded, 0, map[ssa.Value]bool{}); src != "" {
						f := l.fact(unbounded, in, 0, map[ssa.Value]bool{})
						c.fail("D9", construct, posOf(in), "index into an array of %d elements runs over a byte slice whose length is not limited to %d (%s; known: %s): a longer input panics (index out of range) instead of being answered with an error", n, n, src, f.String())
					} else {
						c.ok("D9", construct, posOf(in), "index into an array of %d elements is bounded by the length of a slice that is neither a protobuf message field, nor the argument of an exported helper, nor a whole-stream read; not decided further", n)
					}
				default:
					if src := l.indexUntrusted(idx, 0); src != "" {
						c.fail("D9", construct, posOf(in), "index into an array of %d elements is computed from %s without a bound", n, src)
					} else {
						c.ok("D9", construct, posOf(in), "index into an array of %d elements has no bound the rule can derive, and is not computed from untrusted bytes; not decided further", n)
					}
				}
			}
		}
	}
	c.count("D9.array_index_sites_with_variable_index", nSites)
	c.count("D9.array_copy_sites", nCopies)
}

func c19ArrayElem(t types.Type) types.Type {
	if p, ok := t.Underlying().(*types.Pointer); ok {
		t = p.Elem()
	}
	if a, ok := t.Underlying().(*types.Array); ok {
		return a.Elem()
	}
	return t
}
