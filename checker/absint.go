package main

// A10: finite-domain abstract evaluation of (mostly) loop-free SSA functions.
//
// Values are either known (constants, nil, distinct allocation identities, function values,
// slices of known elements) or TOP. Branches on known conditions follow one side, branches on
// TOP fork. Inputs that a rule wants to range over a finite domain are supplied through
// oracles, one scenario per evaluation. Everything the evaluator does not model becomes TOP
// (sound for "may" questions: the set of outcomes over-approximates the real ones), and a
// path that exceeds the loop/step budget is reported as truncated so the caller can refuse to
// decide.

import (
	"fmt"
	"go/constant"
	"go/token"
	"go/types"
	"sort"
	"strings"

	"golang.org/x/tools/go/ssa"
)

type AVal interface{}

type (
	aConst struct { // known constant (bool, int, string) with type
		V constant.Value
		T types.Type
	}
	aNil    struct{}              // nil pointer / interface / slice / map / func
	aNonNil struct{ Tag string }  // definitely non-nil, content unknown
	aSym    struct{ Path string } // opaque scalar read from symbolic memory; equal to itself only
	aPtr    struct {
		ID   int
		Sym  bool
		Path string
	}
	aSlice struct {
		ID   int
		Path string
		Len  int // -1 unknown
	}
	aFunc struct {
		Fn   *ssa.Function
		Bind []AVal
	}
	aIface struct { // interface value with known dynamic value
		V AVal
		T types.Type
	}
	aTuple struct{ Elems []AVal }
)

type aObj struct {
	ID    int
	Sym   string // non-empty for symbolic (input) memory: access path
	Slots map[string]AVal
}

type Event struct {
	Key  string
	Args []AVal
	Pos  token.Pos
	Fn   *ssa.Function
	Site ssa.CallInstruction
	Kind string // call | go | defer
}

type Outcome struct {
	Kind    string // return | panic | truncated
	Results []AVal
	Trace   []Event
	Why     string
	Heap    map[int]*aObj // final abstract memory of this path
}

// Slot reads a known slot of the object an abstract pointer refers to in this outcome.
func (o Outcome) Slot(p AVal, path string) (AVal, bool) {
	ptr, ok := p.(aPtr)
	if !ok || o.Heap == nil {
		return nil, false
	}
	obj := o.Heap[ptr.ID]
	if obj == nil {
		return nil, false
	}
	v, ok := obj.Slots[ptr.Path+path]
	return v, ok
}

type EvalConfig struct {
	// Field returns the value of a symbolic memory read at access path (e.g. "m.group.GroupType"), typ is its type.
	Field func(path string, typ types.Type) (AVal, bool)
	// Call may supply results for a call (by callee key); handled=false to fall through.
	Call func(ev *Evaluator, st *pstate, key string, cc *ssa.CallCommon, args []AVal) (res []AVal, handled bool)
	// Inline decides whether a module function with a body is interpreted.
	Inline func(fn *ssa.Function) bool
	// Interesting calls are recorded in the trace.
	Interesting func(key string, cc *ssa.CallCommon) bool
	MaxDepth    int
	MaxPaths    int
	MaxVisits   int // per block per frame
}

type Evaluator struct {
	W     *World
	Cfg   EvalConfig
	paths int
	nobj  int
	trunc bool
	st0   *pstate
}

type frame struct {
	fn     *ssa.Function
	vals   map[ssa.Value]AVal
	visits map[*ssa.BasicBlock]int
	depth  int
}

type pstate struct {
	trace []Event
	heap  map[int]*aObj
}

func (ev *Evaluator) newObj(st *pstate, sym string) *aObj {
	ev.nobj++
	o := &aObj{ID: ev.nobj, Sym: sym, Slots: map[string]AVal{}}
	st.heap[o.ID] = o
	return o
}

// Eval evaluates fn with args and returns all outcomes.
func (ev *Evaluator) Eval(fn *ssa.Function, args []AVal) []Outcome {
	if ev.Cfg.MaxDepth == 0 {
		ev.Cfg.MaxDepth = 4
	}
	if ev.Cfg.MaxPaths == 0 {
		ev.Cfg.MaxPaths = 20000
	}
	if ev.Cfg.MaxVisits == 0 {
		ev.Cfg.MaxVisits = 3
	}
	ev.paths = 0
	var outs []Outcome
	st0 := ev.st0
	if st0 == nil {
		st0 = &pstate{heap: map[int]*aObj{}}
	}
	ev.st0 = nil
	ev.call(fn, args, nil, 0, st0, func(res []AVal, st *pstate, kind, why string) {
		outs = append(outs, Outcome{Kind: kind, Results: res, Trace: append([]Event(nil), st.trace...), Why: why, Heap: clonePState(st).heap})
	})
	return outs
}

// SymbolicArgs builds default arguments for fn: pointer params point to symbolic objects
// named after the parameter; scalars are symbols.
func (ev *Evaluator) SymbolicArgs(fn *ssa.Function) []AVal {
	if ev.st0 == nil {
		ev.st0 = &pstate{heap: map[int]*aObj{}}
	}
	args := make([]AVal, len(fn.Params))
	for i, p := range fn.Params {
		args[i] = ev.symbolicValue(ev.st0, p.Name(), p.Type())
	}
	return args
}

func (ev *Evaluator) symbolicValue(st *pstate, path string, t types.Type) AVal {
	if ev.Cfg.Field != nil {
		if v, ok := ev.Cfg.Field(path, t); ok {
			return v
		}
	}
	switch u := t.Underlying().(type) {
	case *types.Pointer:
		return aPtr{ID: ev.newObj(st, path).ID, Sym: true, Path: ""}
	case *types.Interface:
		_ = u
		return aNonNil{Tag: path}
	case *types.Slice, *types.Map, *types.Chan, *types.Signature:
		return nil
	case *types.Basic:
		return aSym{Path: path}
	}
	return nil
}

type contFn func(res []AVal, st *pstate, kind, why string)

func (ev *Evaluator) call(fn *ssa.Function, args []AVal, bind []AVal, depth int, st *pstate, k contFn) {
	fr := &frame{fn: fn, vals: map[ssa.Value]AVal{}, visits: map[*ssa.BasicBlock]int{}, depth: depth}
	for i, p := range fn.Params {
		if i < len(args) {
			fr.vals[p] = args[i]
		}
	}
	for i, fv := range fn.FreeVars {
		if i < len(bind) {
			fr.vals[fv] = bind[i]
		}
	}
	if len(fn.Blocks) == 0 {
		k(topResults(fn.Signature), st, "return", "")
		return
	}
	ev.runBlock(fr, fn.Blocks[0], nil, 0, st, k)
}

func topResults(sig *types.Signature) []AVal { return make([]AVal, sig.Results().Len()) }

func cloneFrame(fr *frame) *frame {
	n := &frame{fn: fr.fn, vals: make(map[ssa.Value]AVal, len(fr.vals)), visits: make(map[*ssa.BasicBlock]int, len(fr.visits)), depth: fr.depth}
	for k, v := range fr.vals {
		n.vals[k] = v
	}
	for k, v := range fr.visits {
		n.visits[k] = v
	}
	return n
}

func clonePState(st *pstate) *pstate {
	n := &pstate{trace: append([]Event(nil), st.trace...), heap: make(map[int]*aObj, len(st.heap))}
	for id, o := range st.heap {
		cp := &aObj{ID: o.ID, Sym: o.Sym, Slots: make(map[string]AVal, len(o.Slots))}
		for k, v := range o.Slots {
			cp.Slots[k] = v
		}
		n.heap[id] = cp
	}
	return n
}

// NOTE on memory: pointers carry object IDs; the heap lives in the path state and is deep
// copied at every fork, so paths never observe each other's stores.

func (ev *Evaluator) runBlock(fr *frame, b *ssa.BasicBlock, pred *ssa.BasicBlock, start int, st *pstate, k contFn) {
	for {
		if start == 0 {
			fr.visits[b]++
			if fr.visits[b] > ev.Cfg.MaxVisits {
				ev.trunc = true
				k(nil, st, "truncated", "loop budget exceeded in "+fnName(fr.fn))
				return
			}
			ev.paths++
			if ev.paths > ev.Cfg.MaxPaths*50 {
				ev.trunc = true
				k(nil, st, "truncated", "step budget exceeded")
				return
			}
		}
		for i := start; i < len(b.Instrs); i++ {
			in := b.Instrs[i]
			switch x := in.(type) {
			case *ssa.Phi:
				var v AVal
				for pi, p := range b.Preds {
					if p == pred {
						v = ev.val(fr, x.Edges[pi])
						break
					}
				}
				fr.vals[x] = v
			case *ssa.If:
				c := ev.val(fr, x.Cond)
				if cb, ok := c.(aConst); ok && cb.V.Kind() == constant.Bool {
					nb := b.Succs[1]
					if constant.BoolVal(cb.V) {
						nb = b.Succs[0]
					}
					pred, b, start = b, nb, 0
					goto nextBlock
				}
				// fork
				fr2 := cloneFrame(fr)
				st2 := clonePState(st)
				ev.assume(fr, x.Cond, true)
				ev.runBlock(fr, b.Succs[0], b, 0, st, k)
				ev.assume(fr2, x.Cond, false)
				ev.runBlock(fr2, b.Succs[1], b, 0, st2, k)
				return
			case *ssa.Jump:
				pred, b, start = b, b.Succs[0], 0
				goto nextBlock
			case *ssa.Return:
				res := make([]AVal, len(x.Results))
				for ri, r := range x.Results {
					res[ri] = ev.val(fr, r)
				}
				k(res, st, "return", "")
				return
			case *ssa.Panic:
				k(nil, st, "panic", "explicit panic in "+fnName(fr.fn))
				return
			case *ssa.Call:
				ev.doCall(fr, x, b, i, st, k)
				return // continuation resumes the block
			case *ssa.Go:
				ev.record(fr, x, "go", st)
			case *ssa.Defer:
				ev.record(fr, x, "defer", st)
			case *ssa.Store:
				ev.store(fr, st, x.Addr, ev.val(fr, x.Val))
			case *ssa.Select:
				fr.vals[x] = nil
			case *ssa.RunDefers, *ssa.DebugRef, *ssa.Send, *ssa.MapUpdate:
			default:
				if v, ok := in.(ssa.Value); ok {
					fr.vals[v] = ev.evalInstr(fr, st, v)
				}
			}
		}
		// fell off the end without terminator
		k(nil, st, "truncated", "block without terminator")
		return
	nextBlock:
	}
}

// assume records the outcome of a branch on cond for simple nil/non-nil refinements.
func (ev *Evaluator) assume(fr *frame, cond ssa.Value, truth bool) {
	fr.vals[cond] = aConst{V: constant.MakeBool(truth), T: types.Typ[types.Bool]}
	switch c := cond.(type) {
	case *ssa.UnOp:
		if c.Op == token.NOT {
			ev.assume(fr, c.X, !truth)
		}
	case *ssa.BinOp:
		if c.Op == token.EQL || c.Op == token.NEQ {
			eq := (c.Op == token.EQL) == truth
			var v ssa.Value
			if isNilConst(c.Y) {
				v = c.X
			} else if isNilConst(c.X) {
				v = c.Y
			}
			if v != nil {
				if _, isC := v.(*ssa.Const); !isC {
					if cur := ev.val(fr, v); cur == nil {
						if eq {
							fr.vals[v] = aNil{}
						} else {
							fr.vals[v] = aNonNil{}
						}
					}
				}
			}
		}
	}
}

func (ev *Evaluator) record(fr *frame, ci ssa.CallInstruction, kind string, st *pstate) {
	cc := ci.Common()
	key := calleeKey(cc)
	if ev.Cfg.Interesting != nil && ev.Cfg.Interesting(key, cc) {
		st.trace = append(st.trace, Event{Key: key, Args: ev.args(fr, cc), Pos: posOf(ci), Fn: fr.fn, Site: ci, Kind: kind})
	}
}

func (ev *Evaluator) args(fr *frame, cc *ssa.CallCommon) []AVal {
	var out []AVal
	if cc.IsInvoke() {
		out = append(out, ev.val(fr, cc.Value))
	}
	for _, a := range cc.Args {
		out = append(out, ev.val(fr, a))
	}
	return out
}

func (ev *Evaluator) doCall(fr *frame, x *ssa.Call, b *ssa.BasicBlock, idx int, st *pstate, k contFn) {
	cc := x.Common()
	key := calleeKey(cc)
	args := ev.args(fr, cc)
	ev.record(fr, x, "call", st)
	resume := func(res []AVal, st *pstate) {
		var v AVal
		switch len(res) {
		case 0:
		case 1:
			v = res[0]
		default:
			v = aTuple{Elems: res}
		}
		if x.Common().Signature().Results().Len() > 1 {
			if _, ok := v.(aTuple); !ok {
				v = aTuple{Elems: make([]AVal, x.Common().Signature().Results().Len())}
			}
		}
		fr.vals[x] = v
		ev.runBlock(fr, b, nil, idx+1, st, k)
	}
	// builtins
	if bi, ok := cc.Value.(*ssa.Builtin); ok {
		resume([]AVal{ev.builtin(fr, bi.Name(), cc, args)}, st)
		return
	}
	if ev.Cfg.Call != nil {
		if res, ok := ev.Cfg.Call(ev, st, key, cc, args); ok {
			resume(res, st)
			return
		}
	}
	// find a body
	var callee *ssa.Function
	var bind []AVal
	if f := staticCallee(cc); f != nil {
		callee = f
		if mc, ok := cc.Value.(*ssa.MakeClosure); ok {
			for _, bv := range mc.Bindings {
				bind = append(bind, ev.val(fr, bv))
			}
		}
	} else if !cc.IsInvoke() {
		if fv, ok := ev.val(fr, cc.Value).(aFunc); ok {
			callee, bind = fv.Fn, fv.Bind
		}
	} else if iv, ok := args[0].(aIface); ok && iv.T != nil {
		if m := ev.W.methodOf(iv.T, cc.Method.Name()); m != nil {
			callee = m
			args = append([]AVal{iv.V}, args[1:]...)
		}
	}
	if callee != nil && callee.Blocks == nil {
		if o := callee.Origin(); o != nil && o.Blocks != nil {
			callee = o
		}
	}
	if callee != nil && callee.Blocks != nil && fr.depth < ev.Cfg.MaxDepth && (ev.Cfg.Inline == nil || ev.Cfg.Inline(callee)) {
		// interpret callee; each outcome resumes the caller on a cloned frame
		base := cloneFrame(fr)
		ev.call(callee, args, bind, fr.depth+1, st, func(res []AVal, st2 *pstate, kind, why string) {
			if kind != "return" {
				k(res, st2, kind, why)
				return
			}
			fr = cloneFrame(base)
			resume(res, st2)
		})
		return
	}
	// error constructors always return a non-nil error
	if key == "fmt.Errorf" || key == "errors.New" || strings.HasSuffix(key, "pkg/errcode.ErrCode).Wrap") || strings.HasPrefix(key, "github.com/pkg/errors.") {
		resume([]AVal{aNonNil{Tag: "error"}}, st)
		return
	}
	resume(topResults(cc.Signature()), st)
}

func (ev *Evaluator) builtin(fr *frame, name string, cc *ssa.CallCommon, args []AVal) AVal {
	switch name {
	case "len", "cap":
		switch a := args[0].(type) {
		case aSlice:
			if a.Len >= 0 {
				return aConst{V: constant.MakeInt64(int64(a.Len)), T: types.Typ[types.Int]}
			}
		case aConst:
			if a.V.Kind() == constant.String {
				return aConst{V: constant.MakeInt64(int64(len(constant.StringVal(a.V)))), T: types.Typ[types.Int]}
			}
		case aNil:
			return aConst{V: constant.MakeInt64(0), T: types.Typ[types.Int]}
		}
	}
	return nil
}

func (ev *Evaluator) val(fr *frame, v ssa.Value) AVal {
	if v == nil {
		return nil
	}
	if av, ok := fr.vals[v]; ok {
		return av
	}
	switch x := v.(type) {
	case *ssa.Const:
		if x.Value == nil {
			switch x.Type().Underlying().(type) {
			case *types.Pointer, *types.Interface, *types.Slice, *types.Map, *types.Chan, *types.Signature:
				return aNil{}
			case *types.Basic:
				if x.Type().Underlying().(*types.Basic).Kind() == types.UntypedNil {
					return aNil{}
				}
			}
			return nil // zero struct etc.
		}
		return aConst{V: x.Value, T: x.Type()}
	case *ssa.Function:
		return aFunc{Fn: x}
	case *ssa.Global:
		return aPtr{ID: -1, Sym: true, Path: x.String()}
	case *ssa.Builtin:
		return nil
	}
	return nil
}

func zeroOf(t types.Type) AVal {
	switch u := t.Underlying().(type) {
	case *types.Basic:
		switch {
		case u.Info()&types.IsBoolean != 0:
			return aConst{V: constant.MakeBool(false), T: t}
		case u.Info()&types.IsInteger != 0:
			return aConst{V: constant.MakeInt64(0), T: t}
		case u.Info()&types.IsString != 0:
			return aConst{V: constant.MakeString(""), T: t}
		}
	case *types.Pointer, *types.Interface, *types.Slice, *types.Map, *types.Chan, *types.Signature:
		return aNil{}
	}
	return nil
}

func (ev *Evaluator) load(st *pstate, p AVal, t types.Type) AVal {
	ptr, ok := p.(aPtr)
	if !ok {
		return nil
	}
	if ptr.ID == -1 { // global
		return ev.symbolicValue(st, ptr.Path, t)
	}
	o := st.heap[ptr.ID]
	if o == nil {
		return nil
	}
	if v, ok := o.Slots[ptr.Path]; ok {
		return v
	}
	if o.Sym != "" {
		v := ev.symbolicValue(st, o.Sym+ptr.Path, t)
		o.Slots[ptr.Path] = v
		return v
	}
	// aggregate loads are not modelled
	switch t.Underlying().(type) {
	case *types.Struct, *types.Array:
		return nil
	}
	return zeroOf(t)
}

func (ev *Evaluator) store(fr *frame, st *pstate, addr ssa.Value, v AVal) {
	p, ok := ev.val(fr, addr).(aPtr)
	if !ok || p.ID == -1 {
		return
	}
	if o := st.heap[p.ID]; o != nil {
		o.Slots[p.Path] = v
	}
}

func (ev *Evaluator) evalInstr(fr *frame, st *pstate, v ssa.Value) AVal {
	switch x := v.(type) {
	case *ssa.Alloc:
		return aPtr{ID: ev.newObj(st, "").ID, Path: ""}
	case *ssa.FieldAddr:
		if p, ok := ev.val(fr, x.X).(aPtr); ok {
			stt := x.X.Type().Underlying().(*types.Pointer).Elem().Underlying().(*types.Struct)
			return aPtr{ID: p.ID, Sym: p.Sym, Path: p.Path + "." + stt.Field(x.Field).Name()}
		}
		if _, isNil := ev.val(fr, x.X).(aNil); isNil {
			return nil
		}
		return nil
	case *ssa.IndexAddr:
		idx, ok := ev.val(fr, x.Index).(aConst)
		if !ok {
			return nil
		}
		n, _ := constant.Int64Val(idx.V)
		switch b := ev.val(fr, x.X).(type) {
		case aPtr:
			return aPtr{ID: b.ID, Sym: b.Sym, Path: fmt.Sprintf("%s[%d]", b.Path, n)}
		case aSlice:
			return aPtr{ID: b.ID, Path: fmt.Sprintf("%s[%d]", b.Path, n)}
		}
		return nil
	case *ssa.UnOp:
		a := ev.val(fr, x.X)
		switch x.Op {
		case token.MUL:
			return ev.load(st, a, x.Type())
		case token.NOT:
			if c, ok := a.(aConst); ok && c.V.Kind() == constant.Bool {
				return aConst{V: constant.MakeBool(!constant.BoolVal(c.V)), T: c.T}
			}
		case token.SUB:
			if c, ok := a.(aConst); ok && c.V.Kind() == constant.Int {
				return aConst{V: constant.UnaryOp(token.SUB, c.V, 0), T: c.T}
			}
		}
		return nil
	case *ssa.BinOp:
		return ev.binop(x.Op, ev.val(fr, x.X), ev.val(fr, x.Y), x.Type())
	case *ssa.MakeInterface:
		in := ev.val(fr, x.X)
		return aIface{V: in, T: x.X.Type()}
	case *ssa.ChangeInterface:
		return ev.val(fr, x.X)
	case *ssa.ChangeType:
		return ev.val(fr, x.X)
	case *ssa.Convert:
		a := ev.val(fr, x.X)
		if c, ok := a.(aConst); ok {
			if bt, isB := x.Type().Underlying().(*types.Basic); isB && c.V.Kind() == constant.Int && bt.Info()&types.IsInteger != 0 {
				return aConst{V: c.V, T: x.Type()}
			}
			if c.V.Kind() == constant.String {
				return nil
			}
		}
		return nil
	case *ssa.TypeAssert:
		a := ev.val(fr, x.X)
		if iv, ok := a.(aIface); ok && iv.T != nil {
			match := false
			if _, isI := x.AssertedType.Underlying().(*types.Interface); isI {
				match = types.Implements(iv.T, x.AssertedType.Underlying().(*types.Interface))
			} else {
				match = types.Identical(iv.T, x.AssertedType)
			}
			var res AVal
			if match {
				if _, isI := x.AssertedType.Underlying().(*types.Interface); isI {
					res = iv
				} else {
					res = iv.V
				}
			}
			if x.CommaOk {
				return aTuple{Elems: []AVal{res, aConst{V: constant.MakeBool(match), T: types.Typ[types.Bool]}}}
			}
			return res
		}
		if x.CommaOk {
			return aTuple{Elems: []AVal{nil, nil}}
		}
		return nil
	case *ssa.Extract:
		if t, ok := ev.val(fr, x.Tuple).(aTuple); ok && x.Index < len(t.Elems) {
			return t.Elems[x.Index]
		}
		return nil
	case *ssa.MakeClosure:
		f, _ := x.Fn.(*ssa.Function)
		var bind []AVal
		for _, b := range x.Bindings {
			bind = append(bind, ev.val(fr, b))
		}
		return aFunc{Fn: f, Bind: bind}
	case *ssa.Slice:
		base := ev.val(fr, x.X)
		if p, ok := base.(aPtr); ok {
			if at, isArr := x.X.Type().Underlying().(*types.Pointer).Elem().Underlying().(*types.Array); isArr && x.Low == nil && x.High == nil {
				return aSlice{ID: p.ID, Path: p.Path, Len: int(at.Len())}
			}
			return aSlice{ID: p.ID, Path: p.Path, Len: -1}
		}
		if s, ok := base.(aSlice); ok && x.Low == nil && x.High == nil {
			return s
		}
		return nil
	case *ssa.MakeMap, *ssa.MakeSlice, *ssa.MakeChan:
		return aNonNil{}
	case *ssa.Field, *ssa.Index, *ssa.Lookup, *ssa.Range, *ssa.Next, *ssa.SliceToArrayPointer, *ssa.MultiConvert:
		if _, ok := v.(*ssa.Next); ok {
			return aTuple{Elems: []AVal{nil, nil, nil}}
		}
		if l, ok := v.(*ssa.Lookup); ok && l.CommaOk {
			return aTuple{Elems: []AVal{nil, nil}}
		}
		return nil
	}
	return nil
}

func (ev *Evaluator) binop(op token.Token, a, b AVal, t types.Type) AVal {
	mk := func(v bool) AVal { return aConst{V: constant.MakeBool(v), T: types.Typ[types.Bool]} }
	ca, aok := a.(aConst)
	cb, bok := b.(aConst)
	if aok && bok {
		switch op {
		case token.EQL, token.NEQ, token.LSS, token.LEQ, token.GTR, token.GEQ:
			if ca.V.Kind() == cb.V.Kind() {
				return mk(constant.Compare(ca.V, op, cb.V))
			}
		case token.ADD, token.SUB, token.MUL, token.AND, token.OR, token.XOR:
			if ca.V.Kind() == cb.V.Kind() && (ca.V.Kind() == constant.Int || ca.V.Kind() == constant.String && op == token.ADD) {
				return aConst{V: constant.BinaryOp(ca.V, op, cb.V), T: t}
			}
		case token.LAND:
			return mk(constant.BoolVal(ca.V) && constant.BoolVal(cb.V))
		case token.LOR:
			return mk(constant.BoolVal(ca.V) || constant.BoolVal(cb.V))
		}
		return nil
	}
	if op == token.EQL || op == token.NEQ {
		eq, known := absEqual(a, b)
		if known {
			return mk(eq == (op == token.EQL))
		}
	}
	return nil
}

func isDefNonNil(v AVal) bool {
	switch x := v.(type) {
	case aNonNil, aPtr, aFunc:
		return true
	case aSlice:
		return false
	case aIface:
		_ = x
		return true
	}
	return false
}

func absEqual(a, b AVal) (eq, known bool) {
	_, an := a.(aNil)
	_, bn := b.(aNil)
	switch {
	case an && bn:
		return true, true
	case an && isDefNonNil(b), bn && isDefNonNil(a):
		return false, true
	}
	if ia, ok := a.(aIface); ok {
		if ib, ok2 := b.(aIface); ok2 {
			if ia.T != nil && ib.T != nil && !types.Identical(ia.T, ib.T) {
				return false, true
			}
			return absEqual(ia.V, ib.V)
		}
	}
	if sa, ok := a.(aSym); ok {
		if sb, ok2 := b.(aSym); ok2 && sa.Path == sb.Path {
			return true, true
		}
	}
	if pa, ok := a.(aPtr); ok {
		if pb, ok2 := b.(aPtr); ok2 {
			return pa.ID == pb.ID && pa.Path == pb.Path, !pa.Sym && !pb.Sym
		}
	}
	if ca, ok := a.(aConst); ok {
		if cb, ok2 := b.(aConst); ok2 && ca.V.Kind() == cb.V.Kind() {
			return constant.Compare(ca.V, token.EQL, cb.V), true
		}
	}
	return false, false
}

// ---------- helpers for rules ----------

func avString(v AVal) string {
	switch x := v.(type) {
	case nil:
		return "T"
	case aConst:
		return x.V.String()
	case aNil:
		return "nil"
	case aNonNil:
		return "nonnil"
	case aSym:
		return "sym(" + x.Path + ")"
	case aPtr:
		return fmt.Sprintf("&obj%d%s", x.ID, x.Path)
	case aSlice:
		return fmt.Sprintf("slice(len=%d)", x.Len)
	case aFunc:
		return "func " + fnName(x.Fn)
	case aIface:
		return "iface(" + avString(x.V) + ")"
	case aTuple:
		var s []string
		for _, e := range x.Elems {
			s = append(s, avString(e))
		}
		return "(" + strings.Join(s, ",") + ")"
	}
	return "?"
}

// sliceElems returns the known elements of an abstract slice.
func (ev *Evaluator) sliceElems(st *pstate, v AVal) ([]AVal, bool) {
	s, ok := v.(aSlice)
	if !ok || s.Len < 0 {
		if _, isNil := v.(aNil); isNil {
			return nil, true
		}
		return nil, false
	}
	out := make([]AVal, s.Len)
	for i := 0; i < s.Len; i++ {
		o := st.heap[s.ID]
		if o == nil {
			return nil, false
		}
		e, ok := o.Slots[fmt.Sprintf("%s[%d]", s.Path, i)]
		if !ok {
			return nil, false
		}
		out[i] = e
	}
	return out, true
}

func enumConstName(t types.Type, v constant.Value) string {
	named, ok := t.(*types.Named)
	if !ok || named.Obj().Pkg() == nil {
		return v.String()
	}
	scope := named.Obj().Pkg().Scope()
	names := scope.Names()
	sort.Strings(names)
	for _, n := range names {
		if c, ok := scope.Lookup(n).(*types.Const); ok && types.Identical(c.Type(), t) && constant.Compare(c.Val(), token.EQL, v) {
			return n
		}
	}
	return v.String()
}

// enumValues returns the constants of named type t declared in its package, sorted by value.
func enumValues(t *types.Named) []*types.Const {
	var out []*types.Const
	scope := t.Obj().Pkg().Scope()
	for _, n := range scope.Names() {
		if c, ok := scope.Lookup(n).(*types.Const); ok && types.Identical(c.Type(), t) {
			out = append(out, c)
		}
	}
	sort.Slice(out, func(i, j int) bool {
		a, _ := constant.Int64Val(out[i].Val())
		b, _ := constant.Int64Val(out[j].Val())
		if a != b {
			return a < b
		}
		return out[i].Name() < out[j].Name()
	})
	// drop aliases with equal values (keep first)
	var uniq []*types.Const
	for i, c := range out {
		if i > 0 && constant.Compare(out[i-1].Val(), token.EQL, c.Val()) {
			continue
		}
		uniq = append(uniq, c)
	}
	return uniq
}

func constInt64(n int64) constant.Value { return constant.MakeInt64(n) }
