package main

// C04: group state depends only on the set of log entries (convergence, restart).
//
// Subjects are found by role: the module types implementing go-orbit-db's iface.StoreIndex,
// their UpdateIndex method, the loop of that method which walks a slice of ipfs-log entries,
// the callback fields of the index struct that are invoked inside / after that loop (event
// handlers / post-index actions) with the functions stored into those fields, and the fields
// of the index struct those functions write (the derived state).

import (
	"fmt"
	"go/constant"
	"go/token"
	"go/types"
	"sort"
	"strings"

	"golang.org/x/tools/go/ssa"
)

const (
	c04PkgOrbitIface = "berty.tech/go-orbit-db/iface"
	c04PkgLogIface   = "berty.tech/go-ipfs-log/iface"
)

func init() {
	register(&PropertyDef{
		ID:    "C04",
		Title: "Group state depends only on the set of log entries (convergence, restart)",
		Explanation: "Decides, on the type-checked SSA of every module implementation of go-orbit-db's StoreIndex.UpdateIndex that walks log entries (the per-entry body, the reset block and the post-index loop may each live in a helper that UpdateIndex calls, up to three calls deep; a return from a per-entry helper counts as moving on to the next entry; the walk may also be a range-over-func loop over slices.Backward/All/Values of the entry slice, whose synthetic yield function is the per-entry body; fields of a by-value (embedded) struct field of the index are fields of the index, and a whole-struct store of a freshly constructed value resets each of them; generic handlers are judged through their instantiations; closures inherit the locks held where they are created or by the helper that calls them): " +
			"(D1) the entry sequence the index loop walks is the log's deterministic clock-sorted traversal (Log.Values() of the log being indexed, possibly through Slice/Copy/Reverse or a module helper), not the insertion-ordered entry map (GetEntries/RawHeads: Join inserts a replicated batch heads-first, so the order depends on how the entries arrived), not the heads alone and not only the newly added entries; " +
			"(D2) the loop visits every element of that sequence (start, bound, stride 1) and its direction agrees with the winner policy of the handlers: handlers that keep the first event seen about a subject need a newest-first walk, handlers that overwrite need an oldest-first walk, and all per-subject fields must use the same policy; " +
			"(D3) re-index idempotence: every field of the index struct written by a handler or post-index action is either assigned a fresh value in UpdateIndex before the loop (or cleared after it on every success path), or is written only in ways that repeat harmlessly: inserts into maps whose key type has value semantics (a key of pointer type, or of an interface type whose implementations are pointers, has identity semantics and a re-decoded key is a new member each time), accumulating writes (append to / arithmetic on the field's own content) only under a dominating 'already present' test on a never-reset value-keyed set the same code inserts into, no keep-the-first-value register fed by several write sites (or a scalar one) without reset, and an 'already there' test protecting an insert into never-reset state must be the presence test of the very key the protected code records in the tested set (a test of the set's size, of nil-ness or of another key makes the kept subject depend on what this index instance saw first); " +
			"(D4) every access to such a state field, anywhere in the module, happens with the index's own mutex held (write-held for writes), counting the lock held by UpdateIndex around the handler and post-action callbacks, except on an index object that the accessing function has just allocated; " +
			"(D5) per state field that is reset before the loop, the handler writes of event-dependent values are either all dominated by an 'absent / nil / empty' test of index state (first event seen wins) or none is (last wins); " +
			"(D6) if the loop lets entries bypass the handlers because they are found in a 'seen before' set of the index, that set is reset before the loop whenever some handler-written field is (only the shape where the membership test alone decides the skip is judged); " +
			"(D7) the snapshot of the log that UpdateIndex walks (the Values()/GetEntries() call, or the call of the helper that makes it) is taken with the index mutex write-held and the mutex is not released between the snapshot and the walk: go-orbit-db does not serialise UpdateIndex calls, and a snapshot taken outside the lock lets the call that read the older log write the state last; " +
			"(D8) no write to index state in a handler or post-index action depends, by data (stored value, key) or by control (a dominating decision, directly or through a callee), on the key of the own DEVICE (MemberDevice.Device() of the index's configured member device): devices of one member hold the same log and must report the same state; the handler of GroupDeviceChainKeyAdded is exempt (whether this device has sent its own chain key is device-local bookkeeping); " +
			"(D9) the go-orbit-db CreateDBOptions with which group stores are opened (module functions with a *Group parameter that fill the options' Identity) set SortFn to a comparator with a total tie-break (sorting.SortByEntryHash): every device writes under the group's one ipfs-log identity, so concurrent entries tie on clock time and clock id and the default LastWriteWins/sorting.First orders them by arrival. " +
			"(D10) no success return of UpdateIndex bypasses the entry loop on a test of state the index remembers from an earlier call (a remembered tip/length/flag): an unchanged remembered value does not mean an unchanged log; " +
			"(D11) in the handlers (not the post-index actions) no branch that decides a write to index state reads never-reset state accumulated from other entries, except the idempotence guard of D3 (presence of the very key the guarded code records): a live index has that state from earlier passes, a fresh newest-first scan has not met the older entries yet; " +
			"(D12) go-orbit-db's Store.Load on the open path is not run under a context weshnet derives with context.WithTimeout/WithDeadline, nor with a positive entry budget, while its error is not enforced (a silently truncated log after reopen); a discarded Load error under the caller's context is noted only (it can hide an IO failure or the caller's own cancellation, both outside the property's quantifier). " +
			"Not decided: convergence of go-ipfs-log itself beyond the choice of comparator (what Load/Join put into the log), equality of the log before and after reopen, that a handler stores the right value for its event type (C07), values written through state that escapes into callees outside the handlers, that a never-reset keep-first set with a single write site (devices by device key) receives the same value from every event about one key, and that skipping entries inside the loop body (continue on undecodable entries) is harmless.",
		Trusted:     []string{"golang.org/x/tools go/packages+go/ssa (v0.29.0)", "go-ipfs-log: Log.Values() is the deterministic clock-sorted traversal (oldest first), GetEntries()/RawHeads() are insertion-ordered, OrderedMap.Reverse/Slice/Copy keep or reverse that order", "slices.Reverse reverses in place", "sync.RWMutex semantics; lock identity by owner type + field"},
		Assumptions: []string{"go-orbit-db calls UpdateIndex with the store's whole oplog after every local append, replication batch and load", "go-orbit-db does not serialise its UpdateIndex calls (local append vs replication/load may overlap)", "one mutex per index object (lock identity is the class owner type + field)"},
		Floors:      map[string]int{"D1": 1, "D2": 2, "D3": 12, "D4": 25, "D5": 5, "D6": 1, "D7": 1, "D8": 15, "D9": 1, "D10": 1, "D11": 15, "D12": 1},
		Borrows: []Borrow{
			{From: "C07", Rules: []string{"D7"}, Why: "the state is a function of the whole entry set only if the index scan visits every entry: leaving the scan loop early (break / return nil on an unknown type, an undecodable entry or a handler error) makes the state depend on what happens to lie newer than the entry that stopped it"},
		},
		Run: runC04,
	})
}

// ---------------------------------------------------------------------------
// small helpers

func c04FindTypesPkg(w *World, path string) *types.Package {
	if p := w.typesPkg(path); p != nil {
		return p
	}
	seen := map[*types.Package]bool{}
	var found *types.Package
	var visit func(p *types.Package)
	visit = func(p *types.Package) {
		if p == nil || seen[p] || found != nil {
			return
		}
		seen[p] = true
		if p.Path() == path {
			found = p
			return
		}
		for _, i := range p.Imports() {
			visit(i)
		}
	}
	for _, sp := range w.SPkgs {
		if sp != nil {
			visit(sp.Pkg)
		}
	}
	return found
}

func c04Named(t types.Type) *types.Named {
	t = types.Unalias(t)
	if p, ok := t.(*types.Pointer); ok {
		t = types.Unalias(p.Elem())
	}
	n, _ := t.(*types.Named)
	return n
}

func c04IsNamed(t types.Type, pkg, name string) bool {
	n, ok := types.Unalias(t).(*types.Named)
	return ok && n.Obj().Name() == name && n.Obj().Pkg() != nil && n.Obj().Pkg().Path() == pkg
}

// c04PtrTo: t is *T for the named struct type T.
func c04PtrTo(t types.Type, T *types.Named) bool {
	p, ok := types.Unalias(t).(*types.Pointer)
	if !ok {
		return false
	}
	n, ok := types.Unalias(p.Elem()).(*types.Named)
	return ok && n.Obj() == T.Obj()
}

// c04IfaceMethod: the call invokes method name of an interface declared in package pkg.
func c04IfaceMethod(cc *ssa.CallCommon, pkg string, names ...string) bool {
	if !cc.IsInvoke() || cc.Method == nil || cc.Method.Pkg() == nil || cc.Method.Pkg().Path() != pkg {
		return false
	}
	for _, n := range names {
		if cc.Method.Name() == n {
			return true
		}
	}
	return false
}

type c04Loop struct {
	Header *ssa.BasicBlock
	Body   map[*ssa.BasicBlock]bool
}

// c04Loops: natural loops of fn (one per header).
func c04Loops(fn *ssa.Function) []*c04Loop {
	by := map[*ssa.BasicBlock]*c04Loop{}
	var out []*c04Loop
	for _, b := range fn.Blocks {
		for _, h := range b.Succs {
			if !h.Dominates(b) {
				continue
			}
			l := by[h]
			if l == nil {
				l = &c04Loop{Header: h, Body: map[*ssa.BasicBlock]bool{h: true}}
				by[h] = l
				out = append(out, l)
			}
			stack := []*ssa.BasicBlock{b}
			for len(stack) > 0 {
				x := stack[len(stack)-1]
				stack = stack[:len(stack)-1]
				if l.Body[x] {
					continue
				}
				l.Body[x] = true
				stack = append(stack, x.Preds...)
			}
		}
	}
	return out
}

func c04InnermostLoop(loops []*c04Loop, b *ssa.BasicBlock) *c04Loop {
	var best *c04Loop
	for _, l := range loops {
		if l.Body[b] && (best == nil || len(l.Body) < len(best.Body)) {
			best = l
		}
	}
	return best
}

// ---------------------------------------------------------------------------
// the index under analysis

type c04Root struct {
	Fn    *ssa.Function
	Phase string // loop | post
	Via   string // how it is called (callback field name, or "static")
}

type c04Write struct {
	Fn       *ssa.Function
	Instr    ssa.Instruction
	Field    int
	Kind     string // store | mapupdate | substore | clear
	Key      ssa.Value
	Val      ssa.Value
	Fresh    bool // assigns nil / a fresh empty container to the field itself (or clears it)
	Accum    bool // the stored value is built from the field's previous content
	ConstVal bool
	Phase    string // prologue | loop | post (position in the UpdateIndex cycle)
	Guarded  bool   // dominated by the absent/nil/empty side of a test of index state on every way to it
	Partly   bool   // guarded on some call paths only
	Unguard  []string
	GuardFld map[int]bool
}

type c04Index struct {
	c      *Ctx
	w      *World
	T      *types.Named
	St     *types.Struct
	Update *ssa.Function
	Name   string

	loops     []*c04Loop
	entryLoop *c04Loop
	entryIA   *ssa.IndexAddr
	walk      *c04WalkAnchor

	lockFields map[int]bool
	cbFields   map[int]string // callback field -> phase in which UpdateIndex invokes it
	roots      []c04Root
	rootOf     map[*ssa.Function]string                // root function -> phase
	phaseOf    map[*ssa.Function]string                // function reachable from roots -> phase (loop wins over post)
	dynCallers map[*ssa.Function][]ssa.CallInstruction // callback root -> dynamic call sites in UpdateIndex
	writes     []*c04Write
	guardMemo  map[*ssa.Function][]c04GuardEdge
	loopSites  []c04LoopSite
	dispatchIn map[*ssa.Function][]ssa.CallInstruction // function -> callback invocations it contains
	leads      map[*ssa.Function]bool                  // helper of UpdateIndex from which a callback invocation is reached
}

type c04LoopSite struct {
	Instr ssa.CallInstruction
	Dyn   bool
	Fn    *ssa.Function
}

// Field ids: a top-level field of the index struct is its index i; a field j of a struct-typed
// (by value, typically embedded) top-level field i is (i+1)*1000+j: promoted selectors are
// those very fields.
func (ix *c04Index) nestedStruct(i int) *types.Struct {
	if i < 0 || i >= ix.St.NumFields() {
		return nil
	}
	t := types.Unalias(ix.St.Field(i).Type())
	if n, ok := t.(*types.Named); ok && n.Obj().Pkg() != nil && n.Obj().Pkg().Path() == "sync" {
		return nil
	}
	st, _ := t.Underlying().(*types.Struct)
	return st
}

func c04Flat(i, j int) int { return (i+1)*1000 + j }

func (ix *c04Index) fieldName(id int) string {
	if id >= 1000 {
		i, j := id/1000-1, id%1000
		if st := ix.nestedStruct(i); st != nil && j < st.NumFields() {
			if ix.St.Field(i).Embedded() {
				return st.Field(j).Name()
			}
			return ix.St.Field(i).Name() + "." + st.Field(j).Name()
		}
		return fmt.Sprintf("field#%d", id)
	}
	return ix.St.Field(id).Name()
}

// topField: the top-level field a field id belongs to.
func c04TopField(id int) int {
	if id >= 1000 {
		return id/1000 - 1
	}
	return id
}

// rootField walks an address / value back to the field of the index struct it is rooted in.
// direct reports that v is exactly &x.f for x of type *T.
func (ix *c04Index) rootField(v ssa.Value) (field int, direct bool, base ssa.Value, ok bool) {
	first := true
	var prev *ssa.FieldAddr // the FieldAddr walked just before (applied directly to the current value)
	prevFirst := false
	for i := 0; i < 24 && v != nil; i++ {
		switch x := v.(type) {
		case *ssa.FieldAddr:
			if c04PtrTo(x.X.Type(), ix.T) {
				if prev != nil && prev.X == ssa.Value(x) && ix.nestedStruct(x.Field) != nil {
					return c04Flat(x.Field, prev.Field), prevFirst, x.X, true
				}
				return x.Field, first, x.X, true
			}
			prev, prevFirst = x, first
			v = x.X
			first = false
			continue
		case *ssa.Field:
			v = x.X
		case *ssa.UnOp:
			if x.Op != token.MUL {
				return 0, false, nil, false
			}
			v = x.X
		case *ssa.Lookup:
			v = x.X
		case *ssa.Extract:
			v = x.Tuple
		case *ssa.IndexAddr:
			v = x.X
		case *ssa.Index:
			v = x.X
		case *ssa.Slice:
			v = x.X
		case *ssa.Next:
			v = x.Iter
		case *ssa.Range:
			v = x.X
		case *ssa.TypeAssert:
			v = x.X
		case *ssa.ChangeType:
			v = x.X
		case *ssa.Phi:
			if len(x.Edges) == 0 {
				return 0, false, nil, false
			}
			v = x.Edges[0]
		default:
			return 0, false, nil, false
		}
		first = false
		prev = nil
	}
	return 0, false, nil, false
}

// c04FuncsIn collects the function values that can flow into v (closures, bound methods,
// plain functions), looking through container literals and appends inside one function.
func c04FuncsIn(v ssa.Value, seen map[ssa.Value]bool, out map[*ssa.Function]bool) {
	if v == nil || seen[v] {
		return
	}
	seen[v] = true
	fromCell := func(addr ssa.Value) {
		if addr.Referrers() == nil {
			return
		}
		for _, r := range *addr.Referrers() {
			switch u := r.(type) {
			case *ssa.Store:
				if u.Addr == addr {
					c04FuncsIn(u.Val, seen, out)
				}
			case *ssa.IndexAddr:
				if u.X == addr && u.Referrers() != nil {
					for _, r2 := range *u.Referrers() {
						if st, ok := r2.(*ssa.Store); ok && st.Addr == ssa.Value(u) {
							c04FuncsIn(st.Val, seen, out)
						}
					}
				}
			case *ssa.MapUpdate:
				if u.Map == addr {
					c04FuncsIn(u.Value, seen, out)
				}
			}
		}
	}
	switch x := v.(type) {
	case *ssa.Function:
		out[x] = true
	case *ssa.MakeClosure:
		if f, ok := x.Fn.(*ssa.Function); ok {
			out[f] = true
		}
	case *ssa.MakeMap, *ssa.MakeSlice, *ssa.Alloc:
		fromCell(v)
	case *ssa.Slice:
		c04FuncsIn(x.X, seen, out)
	case *ssa.Phi:
		for _, e := range x.Edges {
			c04FuncsIn(e, seen, out)
		}
	case *ssa.UnOp:
		if x.Op == token.MUL {
			if al, ok := x.X.(*ssa.Alloc); ok {
				fromCell(al)
			}
		}
	case *ssa.ChangeType:
		c04FuncsIn(x.X, seen, out)
	case *ssa.Call:
		if b, ok := x.Call.Value.(*ssa.Builtin); ok && b.Name() == "append" {
			for _, a := range x.Call.Args {
				c04FuncsIn(a, seen, out)
			}
		}
	}
}

// c04Declared resolves synthetic wrappers (bound-method closures, thunks) to the declared
// function they forward to.
func c04Declared(w *World, f *ssa.Function) *ssa.Function {
	if f == nil {
		return nil
	}
	if f.Synthetic != "" {
		if fo, ok := f.Object().(*types.Func); ok {
			if d := w.Prog.FuncValue(fo); d != nil && d.Blocks != nil {
				return d
			}
		}
	}
	if o := f.Origin(); o != nil && f.Blocks == nil && o.Blocks != nil {
		return o
	}
	return f
}

// ---------------------------------------------------------------------------
// order source

type c04Src struct {
	Site  ssa.Instruction // the instruction of UpdateIndex at which the sequence is obtained
	Kind  string          // values | arrival | heads | new-entries | unknown
	What  string          // method / description
	Flips int
	LogOK bool
	Pos   token.Pos
}

type c04Tracer struct {
	ix      *c04Index
	inplace int      // in-place reversals of the traced slice inside UpdateIndex
	unknown []string // things done to the slice that are not modelled
	seenUse map[ssa.Value]bool
	site    ssa.Instruction // the call of UpdateIndex through which a helper's result is traced
}

// scanUses looks at what else is done with a traced slice value inside UpdateIndex.
func (t *c04Tracer) scanUses(v ssa.Value) {
	if t.seenUse[v] || v.Referrers() == nil {
		return
	}
	t.seenUse[v] = true
	if _, ok := types.Unalias(v.Type()).Underlying().(*types.Slice); !ok {
		if _, isI := v.(*ssa.MakeInterface); !isI {
			return
		}
	}
	// a variable kept in a memory cell: every load of the cell is the same slice
	if ld, ok := v.(*ssa.UnOp); ok && ld.Op == token.MUL {
		if al, ok := ld.X.(*ssa.Alloc); ok && al.Referrers() != nil {
			if al.Heap && closureWrites(al) {
				t.unknown = append(t.unknown, "the entry slice variable is captured and may be reassigned by a closure")
			}
			for _, r := range *al.Referrers() {
				if o, ok := r.(*ssa.UnOp); ok && o.Op == token.MUL {
					t.scanUses(o)
				}
			}
		}
	}
	for _, r := range *v.Referrers() {
		if mi, ok := r.(*ssa.MakeInterface); ok {
			t.scanUses(mi)
			continue
		}
		ci, ok := r.(ssa.CallInstruction)
		if !ok {
			if st, ok := r.(*ssa.Store); ok && st.Val == v {
				if _, isAl := st.Addr.(*ssa.Alloc); !isAl {
					t.unknown = append(t.unknown, "the entry slice is stored into memory other than a local")
				}
			}
			continue
		}
		cc := ci.Common()
		isArg := false
		for _, a := range cc.Args {
			if a == v {
				isArg = true
			}
		}
		if !isArg {
			continue
		}
		key := calleeKey(cc)
		switch {
		case key == "builtin.len", key == "builtin.cap":
		case key == "slices.Reverse":
			t.inplace++
		case key == "slices.Clone", key == "slices.Backward", key == "slices.All", key == "slices.Values":
		default:
			if cal := staticCallee(cc); cal != nil && inModule(cal) && cal.Blocks != nil {
				// a module helper that returns a sequence is traced through its result
				if _, isCall := ci.(*ssa.Call); isCall && cal.Signature.Results().Len() > 0 {
					continue
				}
			}
			t.unknown = append(t.unknown, "the entry slice is passed to "+key+" which may reorder it")
		}
	}
}

func (t *c04Tracer) trace(v ssa.Value, env map[*ssa.Parameter]ssa.Value, top bool, flips, depth int, seen map[ssa.Value]bool) []c04Src {
	unknown := func(s string) []c04Src {
		return []c04Src{{Kind: "unknown", What: s, Flips: flips}}
	}
	if v == nil || depth > 12 {
		return unknown("trace too deep")
	}
	if seen[v] {
		return nil
	}
	seen[v] = true
	if top {
		t.scanUses(v)
	}
	upd := t.ix.Update
	switch x := v.(type) {
	case *ssa.Parameter:
		if a, ok := env[x]; ok {
			return t.trace(a, nil, true, flips, depth+1, seen)
		}
		if x.Parent() == upd {
			for i, p := range upd.Params {
				if p == x && i == 2 {
					return []c04Src{{Kind: "new-entries", What: "the slice of newly added entries (second argument of UpdateIndex)", Flips: flips, LogOK: true, Pos: upd.Pos()}}
				}
			}
		}
		return unknown("parameter " + x.Name())
	case *ssa.Phi:
		var out []c04Src
		for _, e := range x.Edges {
			out = append(out, t.trace(e, env, top, flips, depth+1, seen)...)
		}
		return out
	case *ssa.Slice:
		if x.Low != nil || x.High != nil || x.Max != nil {
			return unknown("a sub-slice of the entry sequence is walked")
		}
		return t.trace(x.X, env, top, flips, depth+1, seen)
	case *ssa.ChangeType:
		return t.trace(x.X, env, top, flips, depth+1, seen)
	case *ssa.MakeInterface:
		return t.trace(x.X, env, top, flips, depth+1, seen)
	case *ssa.ChangeInterface:
		return t.trace(x.X, env, top, flips, depth+1, seen)
	case *ssa.UnOp:
		if x.Op == token.MUL {
			if al, ok := x.X.(*ssa.Alloc); ok && al.Referrers() != nil {
				var out []c04Src
				for _, r := range *al.Referrers() {
					if st, ok := r.(*ssa.Store); ok && st.Addr == ssa.Value(al) {
						out = append(out, t.trace(st.Val, env, top, flips, depth+1, seen)...)
					}
				}
				if len(out) > 0 {
					return out
				}
			}
		}
		return unknown("value loaded from memory")
	case *ssa.Extract:
		if call, ok := x.Tuple.(*ssa.Call); ok {
			return t.traceCall(call, x.Index, env, top, flips, depth, seen)
		}
		return unknown("tuple element")
	case *ssa.Call:
		return t.traceCall(x, 0, env, top, flips, depth, seen)
	}
	return unknown(fmt.Sprintf("%T", v))
}

func (t *c04Tracer) traceCall(call *ssa.Call, idx int, env map[*ssa.Parameter]ssa.Value, top bool, flips, depth int, seen map[ssa.Value]bool) []c04Src {
	cc := call.Common()
	unknown := func(s string) []c04Src {
		return []c04Src{{Kind: "unknown", What: s, Flips: flips, Pos: call.Pos()}}
	}
	if cc.IsInvoke() {
		recv := types.Unalias(cc.Value.Type())
		switch {
		case c04IsNamed(recv, c04PkgLogIface, "IPFSLogOrderedEntries") && c04IfaceMethod(cc, c04PkgLogIface, "Slice", "Copy"):
			return t.trace(cc.Value, env, top, flips, depth+1, seen)
		case c04IsNamed(recv, c04PkgLogIface, "IPFSLogOrderedEntries") && c04IfaceMethod(cc, c04PkgLogIface, "Reverse"):
			return t.trace(cc.Value, env, top, flips+1, depth+1, seen)
		case c04IsNamed(recv, c04PkgLogIface, "IPFSLog") && c04IfaceMethod(cc, c04PkgLogIface, "Values", "GetEntries", "RawHeads", "Heads"):
			// which log?
			lv := cc.Value
			for i := 0; i < 4; i++ {
				if p, ok := lv.(*ssa.Parameter); ok {
					if a, ok := env[p]; ok {
						lv = a
						continue
					}
				}
				// a parameter captured by a closure lives in a cell assigned once at entry
				if al := c04CellOf(lv); al != nil {
					for _, r := range *al.Referrers() {
						if st, ok := r.(*ssa.Store); ok && st.Addr == ssa.Value(al) {
							lv = st.Val
						}
					}
					continue
				}
				break
			}
			logOK := false
			if p, ok := lv.(*ssa.Parameter); ok && p.Parent() == t.ix.Update && len(t.ix.Update.Params) > 1 && t.ix.Update.Params[1] == p {
				logOK = true
			}
			s := c04Src{What: "Log." + cc.Method.Name() + "()", Flips: flips, LogOK: logOK, Pos: call.Pos(), Site: t.site}
			if call.Parent() == t.ix.Update {
				s.Site = call
			}
			switch cc.Method.Name() {
			case "Values":
				s.Kind = "values"
			case "Heads":
				s.Kind = "heads"
			default:
				s.Kind = "arrival"
			}
			return []c04Src{s}
		}
		return unknown("result of " + calleeKey(cc))
	}
	key := calleeKey(cc)
	if key == "slices.Clone" && len(cc.Args) == 1 {
		return t.trace(cc.Args[0], env, top, flips, depth+1, seen)
	}
	if cal := staticCallee(cc); cal != nil && inModule(cal) {
		if o := cal.Origin(); o != nil && cal.Blocks == nil {
			cal = o
		}
		if call.Parent() == t.ix.Update {
			t.site = call
		}
		if cal.Blocks != nil && depth < 6 {
			// resolve the callee's parameters to the caller's values
			sub := map[*ssa.Parameter]ssa.Value{}
			for i, p := range cal.Params {
				if i < len(cc.Args) {
					a := cc.Args[i]
					if ap, ok := a.(*ssa.Parameter); ok {
						if r, ok := env[ap]; ok {
							a = r
						}
					}
					sub[p] = a
				}
			}
			var out []c04Src
			for _, r := range returnsOf(cal) {
				rr := retResults(r)
				if idx < len(rr) {
					if isNilConst(rr[idx]) {
						continue
					}
					out = append(out, t.trace(rr[idx], sub, false, flips, depth+1, seen)...)
				}
			}
			if len(out) > 0 {
				return out
			}
		}
	}
	return unknown("result of " + key)
}

// ---------------------------------------------------------------------------
// loop walk

type c04Walk struct {
	Dir   int // +1 ascending index, -1 descending
	Full  bool
	Why   string
	Known bool
}

func c04ConstInt(v ssa.Value) (int64, bool) {
	c, ok := v.(*ssa.Const)
	if !ok || c.Value == nil || c.Value.Kind() != constant.Int {
		return 0, false
	}
	return c.Int64(), true
}

// c04PhiPlus: v == phi + k for a phi of the loop header.
func c04PhiPlus(v ssa.Value, hdr *ssa.BasicBlock) (*ssa.Phi, int64, bool) {
	if p, ok := v.(*ssa.Phi); ok && p.Block() == hdr {
		return p, 0, true
	}
	if b, ok := v.(*ssa.BinOp); ok && (b.Op == token.ADD || b.Op == token.SUB) {
		if p, ok := b.X.(*ssa.Phi); ok && p.Block() == hdr {
			if k, ok := c04ConstInt(b.Y); ok {
				if b.Op == token.SUB {
					k = -k
				}
				return p, k, true
			}
		}
	}
	return nil, 0, false
}

// c04CellOf: v is a load of a local cell (a variable that lives in memory because a closure
// captures it or its address is taken) that is assigned exactly once.
func c04CellOf(v ssa.Value) *ssa.Alloc {
	ld, ok := v.(*ssa.UnOp)
	if !ok || ld.Op != token.MUL {
		return nil
	}
	al, ok := ld.X.(*ssa.Alloc)
	if !ok || al.Referrers() == nil {
		return nil
	}
	n := 0
	for _, r := range *al.Referrers() {
		if st, ok := r.(*ssa.Store); ok && st.Addr == ssa.Value(al) {
			n++
		}
	}
	if n != 1 || closureWrites(al) {
		return nil
	}
	return al
}

func c04SameSeq(a, b ssa.Value) bool {
	if a == b {
		return true
	}
	ca, cb := c04CellOf(a), c04CellOf(b)
	return ca != nil && ca == cb
}

func c04IsLenOf(v, s ssa.Value) bool {
	call, ok := v.(*ssa.Call)
	if !ok {
		return false
	}
	b, ok := call.Call.Value.(*ssa.Builtin)
	return ok && b.Name() == "len" && len(call.Call.Args) == 1 && c04SameSeq(call.Call.Args[0], s)
}

func c04AnalyseWalk(ia *ssa.IndexAddr, loop *c04Loop) c04Walk {
	hdr := loop.Header
	phi, k, ok := c04PhiPlus(ia.Index, hdr)
	if !ok {
		return c04Walk{Why: "the element index is not an induction variable of the loop (phi of the loop header plus a constant)"}
	}
	var init, step ssa.Value
	for i, pred := range hdr.Preds {
		if i >= len(phi.Edges) {
			break
		}
		if loop.Body[pred] {
			if step != nil && step != phi.Edges[i] {
				return c04Walk{Why: "the induction variable has several different updates"}
			}
			step = phi.Edges[i]
		} else {
			if init != nil && init != phi.Edges[i] {
				return c04Walk{Why: "the induction variable has several different start values"}
			}
			init = phi.Edges[i]
		}
	}
	if init == nil || step == nil {
		return c04Walk{Why: "start or update of the induction variable not found"}
	}
	sp, d, ok := c04PhiPlus(step, hdr)
	if !ok || sp != phi || d == 0 {
		return c04Walk{Why: "the update of the induction variable is not 'variable plus/minus a constant'"}
	}
	wk := c04Walk{Known: true, Full: true}
	if d > 0 {
		wk.Dir = 1
	} else {
		wk.Dir = -1
	}
	var why []string
	if d != 1 && d != -1 {
		wk.Full = false
		why = append(why, fmt.Sprintf("stride %d skips entries", d))
	}
	// first index used
	if wk.Dir > 0 {
		c0, ok := c04ConstInt(init)
		if !ok {
			return c04Walk{Why: "ascending walk whose start is not a constant"}
		}
		if c0+k != 0 {
			wk.Full = false
			why = append(why, fmt.Sprintf("the walk starts at index %d, not at 0", c0+k))
		}
	} else {
		b, ok := init.(*ssa.BinOp)
		c1 := int64(0)
		okInit := c04IsLenOf(init, ia.X)
		if ok && (b.Op == token.SUB || b.Op == token.ADD) && c04IsLenOf(b.X, ia.X) {
			if c, ok := c04ConstInt(b.Y); ok {
				if b.Op == token.ADD {
					c = -c
				}
				c1, okInit = c, true
			}
		}
		if !okInit {
			return c04Walk{Why: "descending walk whose start is not len(entries) minus a constant"}
		}
		if -c1+k != -1 {
			wk.Full = false
			why = append(why, fmt.Sprintf("the walk starts at len(entries)%+d, not at the last element", -c1+k))
		}
	}
	// bound: an If inside the loop with one successor outside whose condition compares the
	// index actually used with len(entries) (ascending) or with 0 / -1 (descending)
	found := false
	for b := range loop.Body {
		ifi, ok := b.Instrs[len(b.Instrs)-1].(*ssa.If)
		if !ok {
			continue
		}
		out0, out1 := !loop.Body[b.Succs[0]], !loop.Body[b.Succs[1]]
		if out0 == out1 {
			continue
		}
		cmp, ok := ifi.Cond.(*ssa.BinOp)
		if !ok {
			continue
		}
		// normalise to: idx OP bound, staying in the loop when true
		x, y, op := cmp.X, cmp.Y, cmp.Op
		if _, _, isIdx := c04PhiPlus(y, hdr); isIdx {
			if _, _, xIdx := c04PhiPlus(x, hdr); !xIdx {
				x, y = y, x
				switch op {
				case token.LSS:
					op = token.GTR
				case token.GTR:
					op = token.LSS
				case token.LEQ:
					op = token.GEQ
				case token.GEQ:
					op = token.LEQ
				}
			}
		}
		p2, k2, isIdx := c04PhiPlus(x, hdr)
		if !isIdx || p2 != phi {
			continue
		}
		if out0 { // true leaves the loop: negate
			switch op {
			case token.LSS:
				op = token.GEQ
			case token.GEQ:
				op = token.LSS
			case token.GTR:
				op = token.LEQ
			case token.LEQ:
				op = token.GTR
			default:
				continue
			}
		}
		found = true
		// the tested value is phi+k2, the index used is phi+k: express the test on the index
		shift := k - k2
		if wk.Dir > 0 {
			// stay while idx-shift OP bound
			switch {
			case op == token.LSS && c04IsLenOf(y, ia.X) && shift == 0:
			case op == token.NEQ && c04IsLenOf(y, ia.X) && shift == 0:
			default:
				if bb, ok := y.(*ssa.BinOp); ok && bb.Op == token.SUB && c04IsLenOf(bb.X, ia.X) && op == token.LSS {
					wk.Full = false
					why = append(why, "the walk stops before the last element")
				} else if op == token.LEQ && c04IsLenOf(y, ia.X) {
					wk.Full = false
					why = append(why, "the bound lets the index reach len(entries)")
				} else {
					return c04Walk{Why: "ascending walk whose bound is not 'index < len(entries)'"}
				}
			}
		} else {
			c, isC := c04ConstInt(y)
			if !isC {
				return c04Walk{Why: "descending walk whose bound is not a constant"}
			}
			// stay while (idx - shift) op c  <=> idx op c+shift
			low := c + shift
			switch op {
			case token.GEQ: // idx >= low
			case token.GTR: // idx > low  <=> idx >= low+1
				low++
			default:
				return c04Walk{Why: "descending walk whose bound is not 'index >= 0'"}
			}
			if low > 0 {
				wk.Full = false
				why = append(why, fmt.Sprintf("the walk stops at index %d: the first %d element(s) are never visited", low, low))
			} else if low < 0 {
				wk.Full = false
				why = append(why, "the bound lets the index go below 0")
			}
		}
	}
	if !found {
		return c04Walk{Why: "no loop bound on the element index recognised"}
	}
	wk.Why = strings.Join(why, "; ")
	return wk
}

// ---------------------------------------------------------------------------
// guards: edges on which some part of the index state is known to be absent / nil / empty

type c04GuardEdge struct {
	E     edge
	Field int
	Kind  string    // lookup (presence of one key) | helper (presence helper) | nil | len
	Key   ssa.Value // key of the lookup
}

func (ix *c04Index) guardEdges(fn *ssa.Function) []c04GuardEdge {
	if g, ok := ix.guardMemo[fn]; ok {
		return g
	}
	var out []c04GuardEdge
	kind, key := "", ssa.Value(nil)
	add := func(es []edge, f int) {
		for _, e := range es {
			out = append(out, c04GuardEdge{E: e, Field: f, Kind: kind, Key: key})
		}
	}
	for _, b := range fn.Blocks {
		for _, in := range b.Instrs {
			switch x := in.(type) {
			case *ssa.Lookup:
				if !x.CommaOk {
					continue
				}
				f, _, _, ok := ix.rootField(x.X)
				if !ok {
					continue
				}
				kind, key = "lookup", x.Index
				for _, okv := range extractsOf(x, 1) {
					add(edgesOfVerdict(okv).Reject, f)
				}
			case *ssa.UnOp:
				if x.Op != token.MUL {
					continue
				}
				switch types.Unalias(x.Type()).Underlying().(type) {
				case *types.Pointer, *types.Slice, *types.Map, *types.Interface:
				default:
					continue
				}
				f, _, _, ok := ix.rootField(x.X)
				if !ok {
					continue
				}
				kind, key = "nil", nil
				add(edgesOfVerdict(x).Accept, f) // the == nil side
			case *ssa.Call:
				if cal := staticCallee(x.Common()); cal != nil && inModule(cal) {
					if f, presentOnTrue, ok := ix.presenceSummary(cal); ok {
						kind, key = "helper", nil
						ve := edgesOfVerdict(x)
						if presentOnTrue {
							add(ve.Reject, f)
						} else {
							add(ve.Accept, f)
						}
					}
					continue
				}
				bi, ok := x.Call.Value.(*ssa.Builtin)
				if !ok || bi.Name() != "len" || len(x.Call.Args) != 1 || x.Referrers() == nil {
					continue
				}
				f, _, _, ok := ix.rootField(x.Call.Args[0])
				if !ok {
					// also len of a value looked up from the state (comma-ok value)
					continue
				}
				kind, key = "len", nil
				// the length of a value just looked up under one key says something about that key
				if ex, isEx := x.Call.Args[0].(*ssa.Extract); isEx {
					if l, isL := ex.Tuple.(*ssa.Lookup); isL {
						kind, key = "lookup", l.Index
					}
				} else if l, isL := x.Call.Args[0].(*ssa.Lookup); isL {
					kind, key = "lookup", l.Index
				}
				for _, r := range *x.Referrers() {
					cmp, ok := r.(*ssa.BinOp)
					if !ok || cmp.Referrers() == nil {
						continue
					}
					c0, isC := c04ConstInt(cmp.Y)
					if cmp.X != ssa.Value(x) || !isC || c0 != 0 {
						continue
					}
					for _, r2 := range *cmp.Referrers() {
						ifi, ok := r2.(*ssa.If)
						if !ok {
							continue
						}
						bb := ifi.Block()
						switch cmp.Op {
						case token.EQL, token.LEQ:
							add([]edge{{bb, bb.Succs[0]}}, f)
						case token.NEQ, token.GTR:
							add([]edge{{bb, bb.Succs[1]}}, f)
						}
					}
				}
			}
		}
	}
	ix.guardMemo[fn] = out
	return out
}

// guardPaths: is instruction in dominated by a guard edge, in its own function or (for a
// helper that is not a callback root) at its call sites inside the handler code? Counts the
// guarded ways of reaching it and lists the unguarded ones.
type c04GuardRes struct {
	Guarded   int
	Unguarded []string
	Fields    map[int]bool
}

func (ix *c04Index) guardPaths(in ssa.Instruction, depth int, busy map[*ssa.Function]bool) c04GuardRes {
	fn := in.Parent()
	res := c04GuardRes{Fields: map[int]bool{}}
	for _, g := range ix.guardEdges(fn) {
		if edgeDominates(g.E, in.Block()) {
			res.Fields[g.Field] = true
		}
	}
	if len(res.Fields) > 0 {
		res.Guarded = 1
		return res
	}
	here := fnName(fn) + "@" + ix.c.pos(posOf(in))
	if _, isRoot := ix.rootOf[fn]; isRoot || fn == ix.Update || depth > 4 || busy[fn] {
		res.Unguarded = []string{here}
		return res
	}
	busy[fn] = true
	defer delete(busy, fn)
	n := 0
	for _, cs := range ix.w.callGraph().callers[fn] {
		if _, in := ix.phaseOf[cs.Caller]; !in && cs.Caller != ix.Update {
			continue
		}
		n++
		r := ix.guardPaths(cs.Instr.(ssa.Instruction), depth+1, busy)
		res.Guarded += r.Guarded
		for _, u := range r.Unguarded {
			res.Unguarded = append(res.Unguarded, here+" called from "+u)
		}
		for k := range r.Fields {
			res.Fields[k] = true
		}
	}
	if n == 0 {
		res.Unguarded = []string{here}
	}
	return res
}

// c04SameKey: two map keys denote the same value: the same SSA value, or the same access
// path from a parameter (string(e.DevicePk) computed twice). unknown when neither is decided.
func c04SameKey(a, b ssa.Value) (same, known bool) {
	if a == nil || b == nil {
		return false, false
	}
	if a == b {
		return true, true
	}
	pa, oka := accessPath(a)
	pb, okb := accessPath(b)
	if oka && okb {
		return pa == pb, true
	}
	return false, false
}

// subjectGuard: for a write to a map of never-reset state that is protected by tests of
// never-reset state, one of those tests must be the presence test of the very key that the
// protected code records (in the tested set), otherwise "already there" does not mean "this
// subject was indexed before". Returns "" when fine or not applicable.
func (ix *c04Index) subjectGuard(wr *c04Write, reset map[int]string) string {
	fn := wr.Fn
	var doms []c04GuardEdge
	for _, g := range ix.guardEdges(fn) {
		if reset[g.Field] == "" && edgeDominates(g.E, wr.Instr.Block()) {
			doms = append(doms, g)
		}
	}
	if len(doms) == 0 {
		return ""
	}
	var whys []string
	for _, g := range doms {
		switch g.Kind {
		case "helper":
			return ""
		case "lookup":
			// an insert into the tested set, under this guard, with the tested key
			decided := true
			for _, w2 := range ix.writes {
				if w2.Fn != fn || w2.Kind != "mapupdate" || w2.Field != g.Field || !edgeDominates(g.E, w2.Instr.Block()) {
					continue
				}
				same, known := c04SameKey(g.Key, w2.Key)
				if same {
					return ""
				}
				if !known {
					decided = false
				}
			}
			if !decided {
				return ""
			}
			whys = append(whys, "the presence test on "+ix.fieldName(g.Field)+" uses a key that the protected code never records in "+ix.fieldName(g.Field))
		case "len":
			whys = append(whys, "the test is on the size of "+ix.fieldName(g.Field)+", not on the presence of the key written")
		case "nil":
			whys = append(whys, "the test is on "+ix.fieldName(g.Field)+" being nil, not on the presence of the key written")
		}
	}
	sort.Strings(whys)
	return strings.Join(whys, "; ")
}

// presenceSummary: fn returns exactly the comma-ok flag of a lookup in index state (or its
// negation): a "has this subject" helper.
func (ix *c04Index) presenceSummary(fn *ssa.Function) (field int, presentOnTrue bool, ok bool) {
	if fn == nil || fn.Blocks == nil || fn.Signature.Results().Len() != 1 || !isBoolType(fn.Signature.Results().At(0).Type()) {
		return 0, false, false
	}
	first := true
	for _, r := range returnsOf(fn) {
		v := retResults(r)[0]
		pol := true
		if n, isNot := v.(*ssa.UnOp); isNot && n.Op == token.NOT {
			v, pol = n.X, false
		}
		ex, isEx := v.(*ssa.Extract)
		if !isEx || ex.Index != 1 {
			return 0, false, false
		}
		l, isL := ex.Tuple.(*ssa.Lookup)
		if !isL || !l.CommaOk {
			return 0, false, false
		}
		f, _, _, okf := ix.rootField(l.X)
		if !okf {
			return 0, false, false
		}
		if !first && (f != field || pol != presentOnTrue) {
			return 0, false, false
		}
		field, presentOnTrue, first = f, pol, false
	}
	return field, presentOnTrue, !first
}

// ---------------------------------------------------------------------------
// writes

// c04DerivesFromField: v is computed from the previous content of field f (append to it,
// arithmetic on it, re-slicing it).
func (ix *c04Index) derivesFromField(v ssa.Value, f int, depth int, seen map[ssa.Value]bool) bool {
	if v == nil || depth > 8 || seen[v] {
		return false
	}
	seen[v] = true
	if rf, _, _, ok := ix.rootField(v); ok && rf == f {
		switch v.(type) {
		case *ssa.UnOp, *ssa.Lookup, *ssa.Extract, *ssa.Slice, *ssa.Index:
			return true
		}
	}
	switch x := v.(type) {
	case *ssa.Call:
		if b, ok := x.Call.Value.(*ssa.Builtin); ok && b.Name() == "append" && len(x.Call.Args) > 0 {
			return ix.derivesFromField(x.Call.Args[0], f, depth+1, seen)
		}
	case *ssa.BinOp:
		return ix.derivesFromField(x.X, f, depth+1, seen) || ix.derivesFromField(x.Y, f, depth+1, seen)
	case *ssa.Phi:
		for _, e := range x.Edges {
			if ix.derivesFromField(e, f, depth+1, seen) {
				return true
			}
		}
	case *ssa.Slice:
		return ix.derivesFromField(x.X, f, depth+1, seen)
	case *ssa.Convert:
		return ix.derivesFromField(x.X, f, depth+1, seen)
	case *ssa.ChangeType:
		return ix.derivesFromField(x.X, f, depth+1, seen)
	}
	return false
}

// c04FreshStruct: v is a struct value every field of which is fresh (zero, nil, an empty
// container just made): the zero constant, a composite literal of fresh values, or the result
// of a module constructor returning such a literal on every path.
func c04FreshStruct(v ssa.Value, depth int) bool {
	if v == nil || depth > 3 {
		return false
	}
	switch x := v.(type) {
	case *ssa.Const:
		return x.Value == nil
	case *ssa.UnOp:
		if x.Op != token.MUL {
			return false
		}
		al, ok := x.X.(*ssa.Alloc)
		if !ok || al.Referrers() == nil {
			return false
		}
		for _, r := range *al.Referrers() {
			switch u := r.(type) {
			case *ssa.FieldAddr:
				if u.Referrers() == nil {
					continue
				}
				for _, r2 := range *u.Referrers() {
					st, ok := r2.(*ssa.Store)
					if !ok || st.Addr != ssa.Value(u) || !c04IsFresh(st.Val) {
						return false
					}
				}
			case *ssa.UnOp, *ssa.DebugRef:
			default:
				return false
			}
		}
		return true
	case *ssa.Call:
		cal := staticCallee(x.Common())
		if cal == nil || !inModule(cal) || cal.Blocks == nil || cal.Signature.Results().Len() != 1 {
			return false
		}
		rets := returnsOf(cal)
		for _, r := range rets {
			if !c04FreshStruct(retResults(r)[0], depth+1) {
				return false
			}
		}
		return len(rets) > 0
	}
	return false
}

func c04IsFresh(v ssa.Value) bool {
	switch x := v.(type) {
	case *ssa.Const:
		if x.Value == nil {
			return true // nil / zero aggregate
		}
		switch x.Value.Kind() {
		case constant.Bool:
			return !constant.BoolVal(x.Value)
		case constant.String:
			return constant.StringVal(x.Value) == ""
		case constant.Int, constant.Float:
			return constant.Sign(x.Value) == 0
		}
		return false
	case *ssa.MakeMap:
		return true
	case *ssa.MakeSlice:
		return true
	case *ssa.Convert:
		return c04IsFresh(x.X)
	case *ssa.ChangeType:
		return c04IsFresh(x.X)
	case *ssa.Slice:
		// []T{} literal: slice of a fresh array
		if al, ok := x.X.(*ssa.Alloc); ok {
			return al.Referrers() == nil || len(*al.Referrers()) <= 1
		}
	}
	return false
}

func (ix *c04Index) collectWrites(fn *ssa.Function, phaseOfInstr func(ssa.Instruction) string) {
	for _, b := range fn.Blocks {
		for _, in := range b.Instrs {
			var wr *c04Write
			switch x := in.(type) {
			case *ssa.Store:
				f, direct, _, ok := ix.rootField(x.Addr)
				if !ok {
					continue
				}
				if st := ix.nestedStruct(f); direct && f < 1000 && st != nil {
					// a store of a whole struct value writes every field of it
					fresh := c04FreshStruct(x.Val, 0)
					for j := 0; j < st.NumFields(); j++ {
						w2 := &c04Write{Fn: fn, Instr: in, Field: c04Flat(f, j), Kind: "store", Fresh: fresh, Phase: phaseOfInstr(in)}
						ix.writes = append(ix.writes, w2)
					}
					continue
				}
				wr = &c04Write{Fn: fn, Instr: in, Field: f, Val: x.Val}
				if direct {
					wr.Kind = "store"
					wr.Fresh = c04IsFresh(x.Val)
				} else {
					wr.Kind = "substore"
				}
			case *ssa.MapUpdate:
				f, _, _, ok := ix.rootField(x.Map)
				if !ok {
					continue
				}
				wr = &c04Write{Fn: fn, Instr: in, Field: f, Kind: "mapupdate", Key: x.Key, Val: x.Value}
			case *ssa.Call:
				bi, ok := x.Call.Value.(*ssa.Builtin)
				if !ok || bi.Name() != "clear" || len(x.Call.Args) != 1 {
					continue
				}
				ld, ok := x.Call.Args[0].(*ssa.UnOp)
				if !ok || ld.Op != token.MUL {
					continue
				}
				f, direct, _, ok := ix.rootField(ld.X)
				if !ok || !direct {
					continue
				}
				wr = &c04Write{Fn: fn, Instr: in, Field: f, Kind: "clear", Fresh: true}
			}
			if wr == nil || ix.lockFields[wr.Field] {
				continue
			}
			if wr.Val != nil {
				_, wr.ConstVal = wr.Val.(*ssa.Const)
				wr.Accum = ix.derivesFromField(wr.Val, wr.Field, 0, map[ssa.Value]bool{})
			}
			wr.Phase = phaseOfInstr(in)
			ix.writes = append(ix.writes, wr)
		}
	}
}

// ---------------------------------------------------------------------------
// key semantics

// c04IdentityKey: a map key of type t compares by identity for at least some of the values
// it can hold (pointer, channel, or an interface implemented by pointer types).
func c04IdentityKey(w *World, t types.Type, depth int) (bool, string) {
	if depth > 4 {
		return false, ""
	}
	switch u := types.Unalias(t).Underlying().(type) {
	case *types.Basic:
		return false, ""
	case *types.Pointer:
		return true, "pointer type " + types.TypeString(t, nil)
	case *types.Chan:
		return true, "channel type"
	case *types.Array:
		return c04IdentityKey(w, u.Elem(), depth+1)
	case *types.Struct:
		for i := 0; i < u.NumFields(); i++ {
			if id, why := c04IdentityKey(w, u.Field(i).Type(), depth+1); id {
				return true, "struct field " + u.Field(i).Name() + ": " + why
			}
		}
		return false, ""
	case *types.Interface:
		if u.NumMethods() == 0 {
			return true, "empty interface (may hold pointers)"
		}
		// implementations in the interface's own package and in the module
		var pkgs []*types.Package
		if n, ok := types.Unalias(t).(*types.Named); ok && n.Obj().Pkg() != nil {
			pkgs = append(pkgs, n.Obj().Pkg())
		}
		for _, sp := range w.SPkgs {
			if sp != nil {
				pkgs = append(pkgs, sp.Pkg)
			}
		}
		nImpl := 0
		for _, p := range pkgs {
			for _, name := range p.Scope().Names() {
				tn, ok := p.Scope().Lookup(name).(*types.TypeName)
				if !ok || tn.IsAlias() {
					continue
				}
				nt, ok := tn.Type().(*types.Named)
				if !ok || nt.TypeParams().Len() > 0 {
					continue
				}
				if _, isI := nt.Underlying().(*types.Interface); isI {
					continue
				}
				if types.Implements(nt, u) {
					nImpl++
					if id, why := c04IdentityKey(w, nt, depth+1); id {
						return true, "interface implemented by " + nt.Obj().Name() + " (" + why + ")"
					}
				} else if types.Implements(types.NewPointer(nt), u) {
					return true, "interface " + types.TypeString(t, nil) + " whose implementations are pointers (e.g. *" + nt.Obj().Pkg().Name() + "." + nt.Obj().Name() + "): two decodings of the same key are different map keys"
				}
			}
		}
		if nImpl == 0 {
			return true, "interface " + types.TypeString(t, nil) + " with no visible value-typed implementation"
		}
		return false, ""
	}
	return false, ""
}

// ---------------------------------------------------------------------------

func runC04(c *Ctx) {
	w := c.W
	ip := c04FindTypesPkg(w, c04PkgOrbitIface)
	if ip == nil {
		c.undecided("D1", "StoreIndex", token.NoPos, "package %s not found among the dependencies", c04PkgOrbitIface)
		return
	}
	so, _ := ip.Scope().Lookup("StoreIndex").(*types.TypeName)
	if so == nil {
		c.undecided("D1", "StoreIndex", token.NoPos, "interface %s.StoreIndex not found", c04PkgOrbitIface)
		return
	}
	siface, ok := so.Type().Underlying().(*types.Interface)
	if !ok {
		c.undecided("D1", "StoreIndex", token.NoPos, "%s.StoreIndex is not an interface", c04PkgOrbitIface)
		return
	}
	n := 0
	for _, t := range w.implementersOf(siface) {
		T := c04Named(t)
		if T == nil {
			continue
		}
		st, ok := T.Underlying().(*types.Struct)
		if !ok {
			continue
		}
		upd := w.methodOf(t, "UpdateIndex")
		if upd == nil || upd.Blocks == nil {
			continue
		}
		ix := &c04Index{c: c, w: w, T: T, St: st, Update: upd, Name: T.Obj().Name(), lockFields: map[int]bool{}, cbFields: map[int]string{},
			rootOf: map[*ssa.Function]string{}, phaseOf: map[*ssa.Function]string{}, dynCallers: map[*ssa.Function][]ssa.CallInstruction{}, guardMemo: map[*ssa.Function][]c04GuardEdge{}}
		if ix.run() {
			n++
		}
	}
	if n == 0 {
		c.undecided("D1", "StoreIndex implementations", token.NoPos, "no module type implements %s.StoreIndex with an UpdateIndex that walks log entries", c04PkgOrbitIface)
	}
	c04RuleD9(c)
	c04RuleD12(c)
	// advisory: other readers of the insertion-ordered entry map
	var others []string
	for _, fn := range w.ModFuncs {
		for _, b := range fn.Blocks {
			for _, in := range b.Instrs {
				if ci, ok := in.(ssa.CallInstruction); ok && c04IfaceMethod(ci.Common(), c04PkgLogIface, "GetEntries") {
					others = append(others, fnName(fn))
				}
			}
		}
	}
	sort.Strings(others)
	c.note("readers of the insertion-ordered Log.GetEntries() in the module (only the index loop is judged here; the two listings belong to C13): %s", strings.Join(others, ", "))
}

// run analyses one StoreIndex implementation; false when its UpdateIndex does not walk entries.
func (ix *c04Index) run() bool {
	c, w, upd := ix.c, ix.w, ix.Update
	for i := 0; i < ix.St.NumFields(); i++ {
		ft := types.Unalias(ix.St.Field(i).Type())
		if p, ok := ft.(*types.Pointer); ok {
			ft = types.Unalias(p.Elem())
		}
		if nt, ok := ft.(*types.Named); ok && nt.Obj().Pkg() != nil && nt.Obj().Pkg().Path() == "sync" && (nt.Obj().Name() == "RWMutex" || nt.Obj().Name() == "Mutex") {
			ix.lockFields[i] = true
		}
	}
	ix.loops = c04Loops(upd)
	// callback invocations and static module callees of UpdateIndex
	// (a callback may be invoked by UpdateIndex itself or by a helper it calls: the per-entry
	// body, the reset block and the post-index loop may each have been extracted; "top" is the
	// instruction of UpdateIndex through which a site is reached and decides its phase)
	type site struct {
		ci    ssa.CallInstruction
		top   ssa.CallInstruction
		field int
		dyn   bool
		fn    *ssa.Function
		iter  string    // range-over-func: the iterator constructor whose result is called with fn as yield
		seq   ssa.Value // ... and the slice it iterates
	}
	var sites []site
	ix.dispatchIn = map[*ssa.Function][]ssa.CallInstruction{}
	ix.leads = map[*ssa.Function]bool{}
	var scan func(fn *ssa.Function, top ssa.CallInstruction, depth int, onPath map[*ssa.Function]bool) bool
	scan = func(fn *ssa.Function, top ssa.CallInstruction, depth int, onPath map[*ssa.Function]bool) bool {
		found := false
		for _, b := range fn.Blocks {
			for _, in := range b.Instrs {
				ci, ok := in.(ssa.CallInstruction)
				if !ok {
					continue
				}
				cc := ci.Common()
				if cc.IsInvoke() {
					continue
				}
				t := top
				if fn == upd {
					t = ci
				}
				if cal := staticCallee(cc); cal != nil {
					if !inModule(cal) || cal.Blocks == nil {
						continue
					}
					if fn == upd {
						sites = append(sites, site{ci: ci, top: ci, fn: cal})
					}
					if depth < 3 && !onPath[cal] {
						onPath[cal] = true
						if scan(cal, t, depth+1, onPath) {
							ix.leads[cal] = true
							found = true
						}
						delete(onPath, cal)
					}
					continue
				}
				if _, isB := cc.Value.(*ssa.Builtin); isB {
					continue
				}
				// range-over-func in UpdateIndex: seq(yield) with seq := slices.Backward(x) etc.
				if mk, isCall := cc.Value.(*ssa.Call); isCall && fn == upd && len(cc.Args) == 1 {
					if k := calleeKey(mk.Common()); (k == "slices.Backward" || k == "slices.All" || k == "slices.Values") && len(mk.Common().Args) == 1 {
						if mc, isMC := cc.Args[0].(*ssa.MakeClosure); isMC {
							if y, isF := mc.Fn.(*ssa.Function); isF && y.Blocks != nil {
								sites = append(sites, site{ci: ci, top: ci, fn: y, iter: k, seq: mk.Common().Args[0]})
								if !onPath[y] {
									onPath[y] = true
									if scan(y, ci, depth+1, onPath) {
										ix.leads[y] = true
										found = true
									}
									delete(onPath, y)
								}
								continue
							}
						}
					}
				}
				if f, _, _, ok := ix.rootField(cc.Value); ok {
					sites = append(sites, site{ci: ci, top: t, field: f, dyn: true})
					ix.dispatchIn[fn] = append(ix.dispatchIn[fn], ci)
					found = true
				}
			}
		}
		return found
	}
	scan(upd, nil, 0, map[*ssa.Function]bool{upd: true})
	// the entry loop: an indexed walk over a slice of log entries whose element reaches a
	// callback, directly or as an argument of a helper that invokes the callbacks
	var dynArgsTainted = func(seed ssa.Value) bool {
		t := taintFrom(upd, seed)
		for _, s := range sites {
			if s.ci != s.top || (!s.dyn && !ix.leads[s.fn]) {
				continue
			}
			for _, a := range s.ci.Common().Args {
				if t[a] {
					return true
				}
			}
		}
		return false
	}
	for _, b := range upd.Blocks {
		for _, in := range b.Instrs {
			ia, ok := in.(*ssa.IndexAddr)
			if !ok {
				continue
			}
			sl, ok := types.Unalias(ia.X.Type()).Underlying().(*types.Slice)
			if !ok || !c04IsNamed(sl.Elem(), c04PkgLogIface, "IPFSLogEntry") {
				continue
			}
			l := c04InnermostLoop(ix.loops, b)
			if l == nil || !dynArgsTainted(ia) {
				continue
			}
			if ix.entryIA == nil {
				ix.entryIA, ix.entryLoop = ia, l
			} else if ix.entryIA.X != ia.X {
				c.note("%s walks several entry slices; only the first is judged", fnName(upd))
			}
		}
	}
	if ix.entryIA != nil {
		ix.walk = &c04WalkAnchor{Kind: "index", IA: ix.entryIA, Loop: ix.entryLoop, Seq: ix.entryIA.X}
	} else {
		for _, s := range sites {
			if s.iter == "" || !ix.leads[s.fn] || len(s.fn.Params) == 0 {
				continue
			}
			e := s.fn.Params[len(s.fn.Params)-1]
			if !c04IsNamed(e.Type(), c04PkgLogIface, "IPFSLogEntry") {
				continue
			}
			// the entry reaches a callback invocation (or a helper leading to one) in the loop body
			t := taintFrom(s.fn, e)
			feeds := false
			for _, b := range s.fn.Blocks {
				for _, in := range b.Instrs {
					ci, ok := in.(ssa.CallInstruction)
					if !ok {
						continue
					}
					isDispatch := false
					for _, d := range ix.dispatchIn[s.fn] {
						isDispatch = isDispatch || d == ci
					}
					if cal := staticCallee(ci.Common()); !isDispatch && (cal == nil || !ix.leads[cal]) {
						continue
					}
					for _, a := range ci.Common().Args {
						feeds = feeds || t[a]
					}
				}
			}
			if feeds && ix.walk == nil {
				ix.walk = &c04WalkAnchor{Kind: "rangefunc", Call: s.ci.(*ssa.Call), Yield: s.fn, Seq: s.seq, Iter: s.iter}
			}
		}
	}
	hasDyn := false
	for _, s := range sites {
		hasDyn = hasDyn || s.dyn
	}
	if ix.walk == nil {
		if !hasDyn && len(sites) == 0 {
			return false // an index that derives nothing (no-op)
		}
		usesEntries := false
		for _, b := range upd.Blocks {
			for _, in := range b.Instrs {
				if ci, ok := in.(ssa.CallInstruction); ok && c04IfaceMethod(ci.Common(), c04PkgLogIface, "Values", "GetEntries", "Heads", "RawHeads", "Iterator") {
					usesEntries = true
				}
			}
		}
		if !usesEntries {
			return false
		}
		c.undecided("D1", fnName(upd)+"+entries-source", upd.Pos(), "UpdateIndex reads log entries and calls handlers, but no indexed walk over a slice of entries that feeds the handlers was recognised")
		return true
	}
	c.analysed(upd)
	phaseOfInstr := ix.walk.PhaseOf
	// roots
	cbFuncs := map[int]map[*ssa.Function]bool{}
	for _, s := range sites {
		if s.dyn {
			if _, ok := cbFuncs[s.field]; !ok {
				cbFuncs[s.field] = map[*ssa.Function]bool{}
			}
		}
	}
	for _, fn := range w.ModFuncs {
		for _, b := range fn.Blocks {
			for _, in := range b.Instrs {
				st, ok := in.(*ssa.Store)
				if !ok {
					continue
				}
				fa, ok := st.Addr.(*ssa.FieldAddr)
				if !ok || !c04PtrTo(fa.X.Type(), ix.T) {
					continue
				}
				if set, ok := cbFuncs[fa.Field]; ok {
					c04FuncsIn(st.Val, map[ssa.Value]bool{}, set)
				}
			}
		}
	}
	addRoot := func(fn *ssa.Function, phase, via string, ci ssa.CallInstruction, dyn bool) {
		raw := fn
		fn = c04Declared(w, fn)
		if fn == nil || fn.Blocks == nil {
			return
		}
		if dyn {
			ix.dynCallers[fn] = append(ix.dynCallers[fn], ci)
			if raw != fn {
				ix.dynCallers[raw] = append(ix.dynCallers[raw], ci)
			}
		}
		if old, ok := ix.rootOf[fn]; ok {
			if rank := map[string]int{"prologue": 0, "post": 1, "loop": 2}; rank[phase] > rank[old] {
				ix.rootOf[fn] = phase
			}
			return
		}
		ix.rootOf[fn] = phase
		ix.roots = append(ix.roots, c04Root{Fn: fn, Phase: phase, Via: via})
	}
	for _, s := range sites {
		ph := phaseOfInstr(s.top.(ssa.Instruction))
		if ph == "loop" && s.ci == s.top {
			ix.loopSites = append(ix.loopSites, c04LoopSite{Instr: s.ci, Dyn: s.dyn, Fn: s.fn})
		}
		if s.dyn {
			ix.cbFields[s.field] = ph
			fns := make([]*ssa.Function, 0, len(cbFuncs[s.field]))
			for f := range cbFuncs[s.field] {
				fns = append(fns, f)
			}
			sort.Slice(fns, func(i, j int) bool { return fns[i].String() < fns[j].String() })
			if len(fns) == 0 {
				c.undecided("D3", ix.Name+"."+ix.fieldName(s.field), posOf(s.ci.(ssa.Instruction)), "UpdateIndex calls the functions held in this field, but no function stored into it was found")
			}
			for _, f := range fns {
				addRoot(f, ph, ix.fieldName(s.field), s.ci, true)
			}
		} else {
			addRoot(s.fn, ph, "static", s.ci, false)
		}
	}
	sort.Slice(ix.roots, func(i, j int) bool { return ix.roots[i].Fn.String() < ix.roots[j].Fn.String() })
	for _, ph := range []string{"prologue", "post", "loop"} {
		var rs []*ssa.Function
		for _, r := range ix.roots {
			if ix.rootOf[r.Fn] == ph {
				rs = append(rs, r.Fn)
			}
		}
		for f := range w.reachableFuncs(rs, 5) {
			if f == upd {
				continue
			}
			ix.phaseOf[f] = ph
		}
	}
	nLoop, nPost := 0, 0
	for _, r := range ix.roots {
		c.analysed(r.Fn)
		if ix.rootOf[r.Fn] == "loop" {
			nLoop++
		} else {
			nPost++
		}
	}
	c.count("functions_invoked_in_the_entry_loop", nLoop)
	c.count("functions_invoked_around_the_loop", nPost)

	// writes
	ix.collectWrites(upd, phaseOfInstr)
	var fns []*ssa.Function
	for f := range ix.phaseOf {
		fns = append(fns, f)
	}
	sort.Slice(fns, func(i, j int) bool { return fns[i].String() < fns[j].String() })
	for _, f := range fns {
		ph := ix.phaseOf[f]
		ix.collectWrites(f, func(ssa.Instruction) string { return ph })
	}
	for _, wr := range ix.writes {
		if wr.Phase == "prologue" || wr.Fresh {
			continue
		}
		gr := ix.guardPaths(wr.Instr, 0, map[*ssa.Function]bool{})
		wr.Guarded = gr.Guarded > 0 && len(gr.Unguarded) == 0
		wr.Partly = gr.Guarded > 0 && len(gr.Unguarded) > 0
		wr.Unguard, wr.GuardFld = gr.Unguarded, gr.Fields
	}

	ix.ruleD1()
	policies := ix.ruleD5()
	ix.ruleD2(policies)
	ix.ruleD3()
	ix.ruleD4()
	ix.ruleD6()
	ix.ruleD7()
	ix.ruleD8()
	ix.ruleD10()
	ix.ruleD11()
	return true
}

// ---------------------------------------------------------------------------

func (ix *c04Index) sources() ([]c04Src, *c04Tracer) {
	t := &c04Tracer{ix: ix, seenUse: map[ssa.Value]bool{}}
	srcs := t.trace(ix.walk.Seq, nil, true, 0, 0, map[ssa.Value]bool{})
	return srcs, t
}

func (ix *c04Index) ruleD1() {
	c := ix.c
	base := fnName(ix.Update)
	srcs, t := ix.sources()
	if len(srcs) == 0 {
		c.undecided("D1", base+"+entries-source", ix.walk.Pos(), "origin of the walked entry slice not found")
		return
	}
	seen := map[string]bool{}
	for _, s := range srcs {
		pos := ix.walk.Pos()
		if s.Pos.IsValid() {
			pos = s.Pos
		}
		switch s.Kind {
		case "values", "arrival", "heads":
			construct := base + "+" + s.What
			if seen[construct] {
				continue
			}
			seen[construct] = true
			switch {
			case !s.LogOK:
				c.fail("D1", construct, pos, "the index loop walks %s of a log other than the one being indexed", s.What)
			case s.Kind == "arrival":
				c.fail("D1", construct, pos, "the index loop walks %s, the insertion-ordered entry map: a replicated batch is inserted heads-first by Join, local appends oldest-first, so which event about a subject is seen first depends on how the entries arrived (the clock-sorted traversal is Log.Values())", s.What)
			case s.Kind == "heads":
				c.fail("D1", construct, pos, "the index loop walks %s, which holds only the heads of the log, not every entry: the state is not a function of the whole entry set", s.What)
			case len(t.unknown) > 0:
				c.undecided("D1", construct, pos, "the walked entries come from %s but their order is not decided: %s", s.What, strings.Join(t.unknown, "; "))
			default:
				c.ok("D1", construct, pos, "the index loop walks %s of the log being indexed (deterministic clock order)", s.What)
			}
		case "new-entries":
			construct := base + "+new-entries argument"
			if !seen[construct] {
				seen[construct] = true
				c.fail("D1", construct, pos, "the index loop walks %s: the state would be derived from a part of the log only, and from the order in which the parts arrived", s.What)
			}
		default:
			construct := base + "+entries-source"
			if !seen[construct] {
				seen[construct] = true
				c.undecided("D1", construct, pos, "order of the walked entries not decided: %s", strings.Join(append([]string{s.What}, t.unknown...), "; "))
			}
		}
	}
}

// ruleD5 classifies, per state field reset before the loop, the handler writes of
// event-dependent values as first-wins (guarded) or last-wins; returns field -> policy.
func (ix *c04Index) ruleD5() map[int]string {
	c := ix.c
	reset := ix.resetKinds()
	perField := map[int][]*c04Write{}
	for _, wr := range ix.writes {
		if wr.Phase != "loop" || wr.Fn == ix.Update || wr.Fresh || wr.Accum || wr.ConstVal || wr.Kind == "clear" {
			continue
		}
		if reset[wr.Field] != "prologue" {
			continue
		}
		perField[wr.Field] = append(perField[wr.Field], wr)
	}
	var fields []int
	for f := range perField {
		fields = append(fields, f)
	}
	sort.Ints(fields)
	pol := map[int]string{}
	for _, f := range fields {
		ws := perField[f]
		var g, u []string
		for _, wr := range ws {
			d := fnName(wr.Fn) + "@" + c.pos(posOf(wr.Instr))
			if wr.Guarded || wr.Partly {
				g = append(g, d)
			}
			if !wr.Guarded {
				u = append(u, wr.Unguard...)
			}
		}
		construct := ix.Name + "." + ix.fieldName(f) + "+winner"
		pos := posOf(ws[0].Instr)
		switch {
		case len(u) == 0:
			pol[f] = "first"
			c.ok("D5", construct, pos, "%d handler write(s), each dominated by an absent/nil/empty test of index state: the first event seen about a subject wins", len(g))
		case len(g) == 0:
			pol[f] = "last"
			c.ok("D5", construct, pos, "%d handler write(s), none guarded: the last event seen about a subject wins", len(u))
		default:
			pol[f] = "mixed"
			sort.Strings(u)
			c.fail("D5", construct, posOf(func() ssa.Instruction {
				for _, wr := range ws {
					if !wr.Guarded && !wr.Partly {
						return wr.Instr
					}
				}
				for _, wr := range ws {
					if !wr.Guarded {
						return wr.Instr
					}
				}
				return ws[0].Instr
			}()), "%d write(s) to this field keep the first event seen about a subject (guarded by an 'already present' test) but %d overwrite unconditionally (%s): with either walk direction an older event can override a newer one", len(g), len(u), strings.Join(u, ", "))
		}
	}
	return pol
}

func (ix *c04Index) ruleD2(pol map[int]string) {
	c := ix.c
	upd := ix.Update
	wk := ix.walk.Walk()
	pos := ix.walk.Pos()
	if !wk.Known {
		c.undecided("D2", fnName(upd)+"+walk-covers-log", pos, "loop shape not modelled: %s", wk.Why)
		c.undecided("D2", fnName(upd)+"+walk-direction", pos, "loop shape not modelled: %s", wk.Why)
		return
	}
	c.check(wk.Full, "D2", fnName(upd)+"+walk-covers-log", pos, "the loop visits every element of the entry slice (stride 1, from one end to the other)", "the loop does not visit every entry: "+wk.Why)
	srcs, t := ix.sources()
	flips := -1
	for _, s := range srcs {
		if s.Kind == "unknown" {
			continue
		}
		if flips >= 0 && flips%2 != s.Flips%2 {
			c.undecided("D2", fnName(upd)+"+walk-direction", pos, "the entry slice comes from sources with opposite orientations")
			return
		}
		flips = s.Flips
	}
	if flips < 0 {
		c.undecided("D2", fnName(upd)+"+walk-direction", pos, "orientation of the entry slice unknown (see D1)")
		return
	}
	flips += t.inplace
	// sources are oldest-first (Values: clock order; the insertion-ordered map: nominal append order)
	newestFirst := (wk.Dir < 0) != (flips%2 == 1)
	var first, last []string
	for f, p := range pol {
		switch p {
		case "first":
			first = append(first, ix.fieldName(f))
		case "last":
			last = append(last, ix.fieldName(f))
		}
	}
	sort.Strings(first)
	sort.Strings(last)
	dir := "oldest first"
	if newestFirst {
		dir = "newest first"
	}
	for _, s := range srcs {
		if s.Kind != "values" {
			dir += " (taking the sequence in its nominal append order; its real order is D1's subject)"
			break
		}
	}
	construct := fnName(upd) + "+walk-direction"
	switch {
	case len(first) > 0 && len(last) > 0:
		c.fail("D2", construct, pos, "the handlers disagree on the winner: first event seen wins for {%s}, last event seen wins for {%s}; no walk direction makes the latest event win for both", strings.Join(first, ","), strings.Join(last, ","))
	case len(first) > 0:
		c.check(newestFirst, "D2", construct, pos, "entries are walked "+dir+" and the handlers keep the first event seen about a subject: the latest event wins", "entries are walked "+dir+" but the handlers keep the first event seen about a subject ({"+strings.Join(first, ",")+"}): the OLDEST event about a subject wins")
	case len(last) > 0:
		c.check(!newestFirst, "D2", construct, pos, "entries are walked "+dir+" and the handlers overwrite: the latest event wins", "entries are walked "+dir+" but the handlers overwrite ({"+strings.Join(last, ",")+"}): the OLDEST event about a subject wins")
	default:
		c.ok("D2", construct, pos, "entries are walked %s; no per-subject register is written by the handlers", dir)
	}
}

// resetKinds: field -> "prologue" (fresh value assigned in UpdateIndex before the loop) or
// "epilogue" (cleared after the loop on every success path of the function doing it).
func (ix *c04Index) resetKinds() map[int]string {
	out := map[int]string{}
	onEveryReturn := func(wr *c04Write) bool {
		for _, r := range returnsOf(wr.Fn) {
			if !(wr.Instr.Block() == r.Block() || wr.Instr.Block().Dominates(r.Block())) {
				return false
			}
		}
		return true
	}
	for _, wr := range ix.writes {
		if !wr.Fresh || wr.Phase != "prologue" {
			continue
		}
		// in UpdateIndex itself, or in a helper UpdateIndex calls before the loop (on every path
		// through that helper)
		if wr.Fn == ix.Update || (ix.rootOf[wr.Fn] == "prologue" && onEveryReturn(wr)) {
			out[wr.Field] = "prologue"
		}
	}
	for _, wr := range ix.writes {
		if !wr.Fresh || out[wr.Field] != "" || wr.Phase != "post" {
			continue
		}
		all := true
		for _, r := range returnsOf(wr.Fn) {
			if isSuccessReturn(r) && !(wr.Instr.Block() == r.Block() || wr.Instr.Block().Dominates(r.Block())) {
				all = false
			}
		}
		if all {
			out[wr.Field] = "epilogue"
		}
	}
	return out
}

func (ix *c04Index) ruleD3() {
	c := ix.c
	reset := ix.resetKinds()
	per := map[int][]*c04Write{}
	for _, wr := range ix.writes {
		if wr.Phase == "prologue" {
			continue
		}
		if _, isCB := ix.cbFields[wr.Field]; isCB {
			continue
		}
		per[wr.Field] = append(per[wr.Field], wr)
	}
	var fields []int
	for f := range per {
		fields = append(fields, f)
	}
	sort.Ints(fields)
	// fields with a value-keyed insert outside the prologue: usable as "already present" sets
	hasInsert := map[int]bool{}
	for _, wr := range ix.writes {
		if wr.Kind == "mapupdate" && wr.Phase != "prologue" {
			if id, _ := c04IdentityKey(ix.w, wr.Key.Type(), 0); !id {
				hasInsert[wr.Field] = true
			}
		}
	}
	for _, f := range fields {
		ws := per[f]
		construct := ix.Name + "." + ix.fieldName(f)
		pos := posOf(ws[0].Instr)
		if reset[f] == "prologue" {
			c.ok("D3", construct, pos, "assigned a fresh value in UpdateIndex before the scan; %d write(s) by handlers/post-actions start from empty at every re-index", len(ws))
			continue
		}
		var bad []string
		var badPos token.Pos
		flag := func(wr *c04Write, format string, a ...any) {
			if !badPos.IsValid() {
				badPos = posOf(wr.Instr)
			}
			bad = append(bad, fnName(wr.Fn)+"@"+c.pos(posOf(wr.Instr))+": "+fmt.Sprintf(format, a...))
		}
		keepFirst := 0
		var keepFirstW *c04Write
		scalarKeepFirst := false
		for _, wr := range ws {
			if wr.Fresh {
				continue
			}
			if wr.Kind == "mapupdate" {
				if id, why := c04IdentityKey(ix.w, wr.Key.Type(), 0); id {
					flag(wr, "the field is never reset and this insert uses a key of %s; every re-index of the same log adds the same logical key again (and an 'already present' test on it never hits)", why)
					continue
				}
			}
			if wr.Kind == "mapupdate" && reset[f] == "" && (wr.Guarded || wr.Partly) {
				if why := ix.subjectGuard(wr, reset); why != "" {
					flag(wr, "the field is never reset and this insert is protected by an 'already there' test that is not about the subject being recorded (%s): what is kept depends on which entries this index instance happened to see first, so replicas holding the same entries disagree", why)
					continue
				}
			}
			if wr.Accum {
				switch {
				case reset[f] == "epilogue":
				case !wr.Guarded:
					flag(wr, "the field is never reset and this write extends its previous content unconditionally: it grows at every re-index of the same log")
				default:
					okSet := false
					for g := range wr.GuardFld {
						if reset[g] == "" && hasInsert[g] {
							okSet = true
						}
					}
					if !okSet {
						flag(wr, "the field is never reset and the 'already present' test protecting this accumulating write is on state that is itself reset (or never inserted into): it grows at every re-index")
					}
				}
				continue
			}
			if wr.Guarded && wr.GuardFld[f] && !wr.ConstVal && reset[f] == "" {
				keepFirst++
				if keepFirstW == nil {
					keepFirstW = wr
				}
				if wr.Kind == "store" {
					scalarKeepFirst = true
				}
			}
		}
		if keepFirstW != nil && (keepFirst >= 2 || scalarKeepFirst) {
			flag(keepFirstW, "the field is never reset, yet %d write site(s) keep the first value ever stored (guarded by a test of the field itself): after the first index run a newer event can no longer win, and a replica that indexes the whole log at once disagrees with one that indexed it step by step", keepFirst)
		}
		if len(bad) > 0 {
			c.fail("D3", construct, badPos, "not determined by the entry set under re-index: %s", strings.Join(bad, " | "))
			continue
		}
		how := "written only by idempotent operations (inserts on value-typed keys, guarded accumulation, plain overwrites)"
		if keepFirst == 1 {
			how += "; one write site keeps the first value ever stored per key: that every event about one key stores the same value is not decided"
		}
		if reset[f] == "epilogue" {
			how = "cleared after the scan on every success path of the post-index action that consumes it"
		}
		c.ok("D3", construct, pos, "never reset before the scan; %s; %d write(s)", how, len(ws))
	}
}

// ---------------------------------------------------------------------------
// D4

func (ix *c04Index) lockClasses() []string {
	var out []string
	for i := range ix.lockFields {
		out = append(out, ix.Name+"."+ix.fieldName(i))
	}
	sort.Strings(out)
	return out
}

func (ix *c04Index) ruleD4() {
	c, w := ix.c, ix.w
	classes := ix.lockClasses()
	if len(classes) == 0 {
		c.undecided("D4", ix.Name, ix.Update.Pos(), "the index struct has no sync.Mutex / sync.RWMutex field")
		return
	}
	state := map[int]bool{}
	for _, wr := range ix.writes {
		if _, isCB := ix.cbFields[wr.Field]; !isCB {
			state[wr.Field] = true
		}
	}
	topState := map[int]bool{} // top-level fields holding state (directly or in a by-value struct)
	for f := range state {
		topState[c04TopField(f)] = true
	}
	// generic functions: the instantiations are what runs; an origin with type parameters has
	// no caller of its own and is judged through them
	hasInstance := map[*ssa.Function]bool{}
	for _, fn := range w.ModFuncs {
		if o := fn.Origin(); o != nil && o != fn && fn.Blocks != nil {
			hasInstance[o] = true
		}
	}
	li := w.locks()
	cg := w.callGraph()
	holds := func(s lockSet, mode byte) bool {
		for _, cl := range classes {
			if s.holds(cl, mode) {
				return true
			}
		}
		return false
	}
	// heldAtEntry: on every way into fn (module callers, and UpdateIndex's callback sites for
	// handler roots) the index lock is held in the given mode
	type key struct {
		fn   *ssa.Function
		mode byte
	}
	memo := map[key]int{} // 0 unknown, 1 yes, 2 no, 3 busy
	var heldAtEntry func(fn *ssa.Function, mode byte) bool
	heldAtSite := func(in ssa.Instruction, mode byte) bool {
		if _, isGo := in.(*ssa.Go); isGo {
			return false
		}
		if holds(li.localOf(in.Parent())[in], mode) {
			return true
		}
		// the shared lockset analysis knows the locks held on entry through static callers and
		// through helpers that call a func parameter with a lock held (withLock(func()) idiom)
		if holds(li.heldAt(in), mode) {
			return true
		}
		return heldAtEntry(in.Parent(), mode)
	}
	heldAtEntry = func(fn *ssa.Function, mode byte) bool {
		k := key{fn, mode}
		switch memo[k] {
		case 1:
			return true
		case 2:
			return false
		case 3:
			return true // optimistic on recursion
		}
		memo[k] = 3
		res := true
		n := 0
		for _, cs := range cg.callers[fn] {
			if hasInstance[cs.Caller] {
				continue // the generic origin never runs; its instantiations are callers too
			}
			n++
			if !heldAtSite(cs.Instr.(ssa.Instruction), mode) {
				res = false
			}
		}
		for _, ci := range ix.dynCallers[fn] {
			n++
			if !heldAtSite(ci.(ssa.Instruction), mode) {
				res = false
			}
		}
		if p := fn.Parent(); p != nil && n == 0 {
			// anonymous function handed to someone else (sort callback, deferred): judged where
			// the closure is created, unless it is started as a goroutine
			for _, b := range p.Blocks {
				for _, in := range b.Instrs {
					mc, ok := in.(*ssa.MakeClosure)
					if !ok || mc.Fn != ssa.Value(fn) {
						continue
					}
					n++
					if mc.Referrers() != nil {
						for _, r := range *mc.Referrers() {
							if _, isGo := r.(*ssa.Go); isGo {
								res = false
							}
						}
					}
					if !heldAtSite(mc, mode) {
						res = false
					}
				}
			}
		}
		if n == 0 {
			res = false
		}
		if res {
			memo[k] = 1
		} else {
			memo[k] = 2
		}
		return res
	}
	type acc struct {
		in    ssa.Instruction
		field int
		write bool
	}
	nFuncs := 0
	for _, fn := range w.ModFuncs {
		if hasInstance[fn] {
			continue
		}
		var accs []acc
		for _, b := range fn.Blocks {
			for _, in := range b.Instrs {
				fa, ok := in.(*ssa.FieldAddr)
				if !ok || !c04PtrTo(fa.X.Type(), ix.T) || !topState[fa.Field] {
					continue
				}
				if _, fresh := fa.X.(*ssa.Alloc); fresh {
					continue // object under construction, not yet shared
				}
				wr := false
				var written func(addr ssa.Value, depth int)
				written = func(addr ssa.Value, depth int) {
					if addr.Referrers() == nil || depth > 2 {
						return
					}
					for _, r := range *addr.Referrers() {
						switch u := r.(type) {
						case *ssa.Store:
							if u.Addr == addr {
								wr = true
							}
						case *ssa.FieldAddr:
							// a field of an embedded / by-value struct field
							if u.X == addr {
								written(u, depth+1)
							}
						case *ssa.UnOp:
							// a map loaded from the field and updated / cleared
							if u.Referrers() != nil {
								for _, r2 := range *u.Referrers() {
									switch m := r2.(type) {
									case *ssa.MapUpdate:
										if m.Map == ssa.Value(u) {
											wr = true
										}
									case *ssa.Call:
										if b, ok := m.Call.Value.(*ssa.Builtin); ok && (b.Name() == "clear" || b.Name() == "delete") {
											wr = true
										}
									}
								}
							}
						}
					}
				}
				written(fa, 0)
				accs = append(accs, acc{in, fa.Field, wr})
			}
		}
		if len(accs) == 0 {
			continue
		}
		nFuncs++
		c.analysed(fn)
		var bad []string
		var badPos token.Pos
		for _, a := range accs {
			mode := byte('R')
			what := "read"
			if a.write {
				mode, what = 'W', "written"
			}
			if heldAtSite(a.in, mode) {
				continue
			}
			if !badPos.IsValid() {
				badPos = posOf(a.in)
			}
			need := "held"
			if a.write {
				need = "write-held"
			}
			bad = append(bad, fmt.Sprintf("%s %s at %s without %s %s", ix.fieldName(a.field), what, c.pos(posOf(a.in)), strings.Join(classes, "/"), need))
		}
		construct := fnName(fn) + "+" + ix.Name + " state"
		if len(bad) > 0 {
			if len(bad) > 4 {
				bad = append(bad[:4], fmt.Sprintf("and %d more", len(bad)-4))
			}
			c.fail("D4", construct, badPos, "index state accessed outside the index lock (a concurrent UpdateIndex resets and refills these fields: torn or mid-scan state is observed): %s", strings.Join(bad, "; "))
		} else {
			c.ok("D4", construct, posOf(accs[0].in), "%d access(es) to index state, all with %s held (locally, by every caller, or by UpdateIndex around the callback)", len(accs), strings.Join(classes, "/"))
		}
	}
	c.count("functions_touching_index_state", nFuncs)
}

// ---------------------------------------------------------------------------
// D6: an entry may be skipped on the strength of a "seen before" set only if that set starts
// empty at every re-index (otherwise the fields that ARE reset are rebuilt from the new entries
// alone).

func (ix *c04Index) ruleD6() {
	c := ix.c
	upd := ix.Update
	reset := ix.resetKinds()
	// blocks in which the handlers run
	writers := map[*ssa.Function]bool{}
	for _, wr := range ix.writes {
		writers[wr.Fn] = true
	}
	handlerBlocks := map[*ssa.BasicBlock]bool{}
	for _, s := range ix.loopSites {
		if s.Dyn {
			handlerBlocks[s.Instr.Block()] = true
			continue
		}
		for f := range ix.w.reachableFuncs([]*ssa.Function{s.Fn}, 5) {
			if writers[f] {
				handlerBlocks[s.Instr.Block()] = true
			}
		}
	}
	var resetWritten []string
	seenF := map[int]bool{}
	for _, wr := range ix.writes {
		if wr.Phase == "loop" && wr.Fn != upd && reset[wr.Field] == "prologue" && !seenF[wr.Field] {
			seenF[wr.Field] = true
			resetWritten = append(resetWritten, ix.fieldName(wr.Field))
		}
	}
	sort.Strings(resetWritten)
	n := 0
	// a scope is the per-entry code: the body of the entry loop in UpdateIndex, or the body of a
	// helper the loop calls for each entry (there, returning is "next entry")
	type scope struct {
		fn       *ssa.Function
		in       func(*ssa.BasicBlock) bool
		next     func(*ssa.BasicBlock) bool // reaching this block ends the treatment of the entry
		handlers map[*ssa.BasicBlock]bool
	}
	scopes := []scope{{fn: upd, in: ix.walk.InBody, next: func(b *ssa.BasicBlock) bool { return ix.walk.Kind == "index" && b == ix.walk.Loop.Header }, handlers: handlerBlocks}}
	seenScope := map[*ssa.Function]bool{upd: true}
	var addHelper func(fn *ssa.Function, depth int)
	addHelper = func(fn *ssa.Function, depth int) {
		if seenScope[fn] || !ix.leads[fn] || depth > 3 {
			return
		}
		seenScope[fn] = true
		hb := map[*ssa.BasicBlock]bool{}
		for _, ci := range ix.dispatchIn[fn] {
			hb[ci.Block()] = true
		}
		for _, e := range ix.w.callGraph().callees[fn] {
			if ix.leads[e.Callee] {
				hb[e.Site.Block()] = true
				addHelper(e.Callee, depth+1)
			}
		}
		scopes = append(scopes, scope{fn: fn, in: func(*ssa.BasicBlock) bool { return true }, next: func(b *ssa.BasicBlock) bool {
			_, isRet := b.Instrs[len(b.Instrs)-1].(*ssa.Return)
			return isRet
		}, handlers: hb})
	}
	for _, s := range ix.loopSites {
		if !s.Dyn {
			addHelper(s.Fn, 1)
		}
	}
	for _, sc := range scopes {
		for _, b := range sc.fn.Blocks {
			if !sc.in(b) {
				continue
			}
			for _, in := range b.Instrs {
				l, ok := in.(*ssa.Lookup)
				if !ok || !l.CommaOk {
					continue
				}
				f, _, _, ok := ix.rootField(l.X)
				if !ok {
					continue
				}
				if _, isCB := ix.cbFields[f]; isCB {
					continue // the dispatch table, not a record of what was seen
				}
				for _, okv := range extractsOf(l, 1) {
					ve := edgesOfVerdict(okv)
					// does the "present" side get back to the loop header without running a handler?
					// the "present" side goes back to the loop header and cannot run a handler on the way
					skips := false
					var skipIf *ssa.BasicBlock
					for _, e := range ve.Accept {
						seen := map[*ssa.BasicBlock]bool{}
						stack := []*ssa.BasicBlock{e.To}
						back, handler := false, false
						for len(stack) > 0 {
							x := stack[len(stack)-1]
							stack = stack[:len(stack)-1]
							if seen[x] || !sc.in(x) {
								continue
							}
							if sc.fn == upd && sc.next(x) {
								back = true
								continue
							}
							seen[x] = true
							if sc.handlers[x] {
								handler = true
							}
							if sc.fn != upd && sc.next(x) {
								back = true
							}
							stack = append(stack, x.Succs...)
						}
						if back && !handler {
							skips = true
							skipIf = e.From
						}
					}
					if !skips {
						continue
					}
					n++
					construct := fnName(sc.fn) + "+skip-on-" + ix.fieldName(f)
					switch {
					case reset[f] == "prologue":
						c.ok("D6", construct, l.Pos(), "entries found in %s bypass the handlers, and %s starts empty at every re-index: nothing is skipped across runs", ix.fieldName(f), ix.fieldName(f))
					case len(resetWritten) == 0:
						c.ok("D6", construct, l.Pos(), "entries found in %s bypass the handlers; no handler-written field is reset, so replaying them is not needed", ix.fieldName(f))
					default:
						// is the membership test alone enough to skip? (the test's block is reached from
						// the lookup without any other branch)
						pure := skipIf == l.Block()
						for x := skipIf; !pure && x != nil && x != l.Block(); {
							if len(x.Preds) != 1 {
								break
							}
							p := x.Preds[0]
							if p == l.Block() {
								if _, isIf := p.Instrs[len(p.Instrs)-1].(*ssa.If); !isIf {
									pure = true
								}
								break
							}
							if _, isIf := p.Instrs[len(p.Instrs)-1].(*ssa.If); isIf {
								break
							}
							x = p
						}
						if pure {
							c.fail("D6", construct, l.Pos(), "entries already recorded in %s bypass the handlers, but %s survives from one re-index to the next while {%s} are emptied before the scan: after the first run these fields are rebuilt from the new entries only", ix.fieldName(f), ix.fieldName(f), strings.Join(resetWritten, ","))
						} else {
							c.ok("D6", construct, l.Pos(), "entries recorded in %s bypass the handlers only together with a further condition; %s is not reset, the combination is not judged", ix.fieldName(f), ix.fieldName(f))
							c.note("%s: skip on %s (never reset) is combined with another test; whether the skipped entries only feed never-reset fields is not decided", fnName(upd), ix.fieldName(f))
						}
					}
				}
			}
		}
	}
	if n == 0 {
		c.ok("D6", fnName(upd)+"+no-skip", upd.Pos(), "no entry is skipped on the strength of a membership test of index state")
	}
}

// ---------------------------------------------------------------------------
// D7: the snapshot of the log that UpdateIndex walks is taken while the index write lock is
// held and the lock is not released between the snapshot and the walk. go-orbit-db does not
// serialise its calls of UpdateIndex (a local append and a replication batch / load can
// overlap); with the snapshot taken outside the lock the call that read the OLDER log can be
// the one that writes the state last.

func (ix *c04Index) ruleD7() {
	c := ix.c
	upd := ix.Update
	classes := ix.lockClasses()
	if len(classes) == 0 {
		return // reported by D4
	}
	srcs, _ := ix.sources()
	local := ix.w.locks().localOf(upd)
	held := func(in ssa.Instruction) bool {
		for _, cl := range classes {
			if local[in].holds(cl, 'W') {
				return true
			}
		}
		return false
	}
	seen := map[ssa.Instruction]bool{}
	n := 0
	for _, s := range srcs {
		if s.Site == nil || seen[s.Site] || (s.Kind != "values" && s.Kind != "arrival" && s.Kind != "heads") {
			continue
		}
		seen[s.Site] = true
		n++
		construct := fnName(upd) + "+snapshot-under-lock+" + s.What
		pos := posOf(s.Site)
		if !held(s.Site) {
			c.fail("D7", construct, pos, "the entry sequence (%s) is read before %s is write-held: two overlapping UpdateIndex calls (local append and replication/load are not serialised by go-orbit-db) can take their snapshots in one order and write the state in the other, leaving the state of an OLDER log than the store holds", s.What, strings.Join(classes, "/"))
			continue
		}
		if !held(ix.walk.Site()) {
			c.fail("D7", construct, ix.walk.Pos(), "the entry sequence (%s) is read with %s write-held but the walk over it is not", s.What, strings.Join(classes, "/"))
			continue
		}
		// a release between the snapshot and the walk
		released := ""
		for _, b := range upd.Blocks {
			for _, in := range b.Instrs {
				ci, ok := in.(ssa.CallInstruction)
				if !ok {
					continue
				}
				op, ok := lockOpOf(ci)
				if !ok || op.Acquire || op.Deferred || op.Mode != 'W' {
					continue
				}
				mine := false
				for _, cl := range classes {
					if op.Class == cl {
						mine = true
					}
				}
				if mine && instrReaches(s.Site, in) && instrReaches(in, ix.walk.Site()) && !ix.walk.InBody(b) {
					released = c.pos(posOf(in))
				}
			}
		}
		if released != "" {
			c.fail("D7", construct, pos, "%s is released at %s between reading the entry sequence (%s) and walking it: another UpdateIndex can index a newer log in between and be overwritten", strings.Join(classes, "/"), released, s.What)
			continue
		}
		c.ok("D7", construct, pos, "the entry sequence (%s) is read with %s write-held and the lock is kept until the walk: the last UpdateIndex to finish indexed a log at least as new as any earlier one", s.What, strings.Join(classes, "/"))
	}
	if n == 0 {
		c.undecided("D7", fnName(upd)+"+snapshot-under-lock", upd.Pos(), "the instruction of UpdateIndex that obtains the entry sequence was not identified (see D1)")
	}
}

// ---------------------------------------------------------------------------
// D8: the derived state does not depend on the identity of the own DEVICE. Two devices of one
// member hold the same entries and must report the same state; what may legitimately differ
// between members is decided on the own MEMBER identity. Every write to index state in a
// handler / post-index action whose stored value, key or controlling conditions derive from
// OwnMemberDevice/MemberDevice.Device() of the index's own (configuration) member device is
// reported. Exempt by role: the handler of GroupDeviceChainKeyAdded, which records whether
// THIS device has sent its own chain key to a member (chain keys are per device, see C05):
// device-local bookkeeping that is not part of the exposed group state.

// c04ControlDependents: blocks whose execution depends on which way the If ending block a goes.
func c04ControlDependents(a *ssa.BasicBlock) map[*ssa.BasicBlock]bool {
	out := map[*ssa.BasicBlock]bool{}
	if len(a.Succs) != 2 {
		return out
	}
	fn := a.Parent()
	r := []map[*ssa.BasicBlock]bool{reach(a.Succs[0], nil), reach(a.Succs[1], nil)}
	exitAvoiding := func(from, x *ssa.BasicBlock) bool {
		if from == x {
			return false
		}
		seen := map[*ssa.BasicBlock]bool{from: true}
		stack := []*ssa.BasicBlock{from}
		for len(stack) > 0 {
			b := stack[len(stack)-1]
			stack = stack[:len(stack)-1]
			if len(b.Succs) == 0 {
				return true
			}
			for _, s := range b.Succs {
				if s != x && !seen[s] {
					seen[s] = true
					stack = append(stack, s)
				}
			}
		}
		return false
	}
	for _, x := range fn.Blocks {
		if (r[0][x] && exitAvoiding(a.Succs[1], x)) || (r[1][x] && exitAvoiding(a.Succs[0], x)) {
			out[x] = true
		}
	}
	return out
}

func (ix *c04Index) ruleD8() {
	c := ix.c
	state := map[int]bool{}
	for _, wr := range ix.writes {
		if _, isCB := ix.cbFields[wr.Field]; !isCB {
			state[wr.Field] = true
		}
	}
	byFn := map[*ssa.Function][]*c04Write{}
	for _, wr := range ix.writes {
		if state[wr.Field] {
			byFn[wr.Fn] = append(byFn[wr.Fn], wr)
		}
	}
	// own-device reads (and calls of helpers that return a value derived from one)
	devFns := map[*ssa.Function]bool{}
	ownDevice := func(fn *ssa.Function) []ssa.Value {
		var out []ssa.Value
		for _, b := range fn.Blocks {
			for _, in := range b.Instrs {
				call, ok := in.(*ssa.Call)
				if !ok {
					continue
				}
				if cal := staticCallee(call.Common()); cal != nil && devFns[cal] {
					out = append(out, call)
					continue
				}
				if !c04IfaceMethod(call.Common(), pkgSecret, "Device") {
					continue
				}
				recv := call.Common().Value
				if c04IsNamed(recv.Type(), pkgSecret, "OwnMemberDevice") {
					out = append(out, call)
					continue
				}
				if f, _, _, ok := ix.rootField(recv); ok && !state[f] {
					out = append(out, call) // the index's configured own member device
				}
			}
		}
		return out
	}
	exemptFn := func(fn *ssa.Function) bool {
		for _, b := range fn.Blocks {
			for _, in := range b.Instrs {
				if ta, ok := in.(*ssa.TypeAssert); ok {
					if _, isParam := ta.X.(*ssa.Parameter); isParam && c04IsNamed(c04PtrElem(ta.AssertedType), pkgTypes, "GroupDeviceChainKeyAdded") {
						return true
					}
				}
			}
		}
		return false
	}
	var fns []*ssa.Function
	seenFn := map[*ssa.Function]bool{}
	for f := range ix.phaseOf {
		fns = append(fns, f)
		seenFn[f] = true
	}
	if !seenFn[ix.Update] {
		fns = append(fns, ix.Update)
	}
	sort.Slice(fns, func(i, j int) bool { return fns[i].String() < fns[j].String() })
	// helpers whose result derives from the own device key ("is this my device?")
	for changed, iter := true, 0; changed && iter < 4; iter++ {
		changed = false
		for _, fn := range fns {
			if devFns[fn] || fn == ix.Update || fn.Signature.Results().Len() == 0 {
				continue
			}
			seeds := ownDevice(fn)
			if len(seeds) == 0 {
				continue
			}
			t := taintFrom(fn, seeds...)
			for _, r := range returnsOf(fn) {
				for i, v := range retResults(r) {
					if t[v] && !isErrorType(fn.Signature.Results().At(i).Type()) {
						devFns[fn] = true
						changed = true
					}
				}
			}
		}
	}
	// functions entered with own-device-dependent arguments or under own-device-dependent control
	tainted := map[*ssa.Function]string{}
	type finding struct {
		wr  *c04Write
		why string
	}
	per := map[*ssa.Function][]finding{}
	uses := map[*ssa.Function]int{}
	var analyse func(fn *ssa.Function, depth int)
	done := map[*ssa.Function]bool{}
	analyse = func(fn *ssa.Function, depth int) {
		if done[fn] || depth > 5 {
			return
		}
		done[fn] = true
		seeds := ownDevice(fn)
		uses[fn] = len(seeds)
		if ctx, all := tainted[fn]; all {
			for _, wr := range byFn[fn] {
				per[fn] = append(per[fn], finding{wr, ctx})
			}
		}
		if len(seeds) == 0 {
			return
		}
		t := taintFrom(fn, seeds...)
		dep := map[*ssa.BasicBlock]bool{}
		for _, b := range fn.Blocks {
			ifi, ok := b.Instrs[len(b.Instrs)-1].(*ssa.If)
			if !ok || !t[ifi.Cond] {
				continue
			}
			// plain error propagation (err != nil) is not a decision on the identity
			if cmp, ok := ifi.Cond.(*ssa.BinOp); ok && ((isErrorType(cmp.X.Type()) && isNilConst(cmp.Y)) || (isErrorType(cmp.Y.Type()) && isNilConst(cmp.X))) {
				continue
			}
			for x := range c04ControlDependents(b) {
				dep[x] = true
			}
		}
		for _, wr := range byFn[fn] {
			if wr.Fresh {
				continue // emptying a field says nothing about whose event it was
			}
			switch {
			case wr.Val != nil && t[wr.Val]:
				per[fn] = append(per[fn], finding{wr, "the stored value derives from the own device key"})
			case wr.Key != nil && t[wr.Key]:
				per[fn] = append(per[fn], finding{wr, "the key derives from the own device key"})
			case dep[wr.Instr.Block()]:
				per[fn] = append(per[fn], finding{wr, "whether it happens is decided by a comparison with the own device key"})
			}
		}
		// callees inside the handler code
		for _, e := range ix.w.callGraph().callees[fn] {
			if _, in := ix.phaseOf[e.Callee]; !in {
				continue
			}
			why := ""
			if dep[e.Site.Block()] {
				why = "called from " + fnName(fn) + " under a comparison with the own device key"
			}
			for _, a := range e.Site.Common().Args {
				if t[a] {
					if _, isRecv := a.(*ssa.Parameter); isRecv {
						continue
					}
					why = "called from " + fnName(fn) + " with a value derived from the own device key"
				}
			}
			if why != "" && len(byFn[e.Callee]) > 0 {
				if _, had := tainted[e.Callee]; !had {
					tainted[e.Callee] = why
					delete(done, e.Callee)
					analyse(e.Callee, depth+1)
				}
			}
		}
	}
	for _, fn := range fns {
		analyse(fn, 0)
	}
	nUses := 0
	for _, fn := range fns {
		nUses += uses[fn]
	}
	var unitsD8 []c04Unit
	unitsD8 = append(unitsD8, ix.units(func(string) bool { return true }, func(f *ssa.Function) bool { return len(byFn[f]) > 0 || uses[f] > 0 })...)
	if len(byFn[ix.Update]) > 0 || uses[ix.Update] > 0 {
		unitsD8 = append(unitsD8, c04Unit{Root: ix.Update, Members: []*ssa.Function{ix.Update}})
	}
	sort.Slice(unitsD8, func(i, j int) bool { return unitsD8[i].Root.String() < unitsD8[j].Root.String() })
	for _, u := range unitsD8 {
		construct := fnName(u.Root) + "+own-device-independence"
		pos := u.Root.Pos()
		var fs []finding
		nw, nu := 0, 0
		for _, f := range u.Members {
			fs = append(fs, per[f]...)
			nw += len(byFn[f])
			nu += uses[f]
		}
		if len(fs) == 0 {
			c.ok("D8", construct, pos, "%d write(s) to index state (in the function and the module functions it calls), none depending on the own device identity (%d read(s) of the own device key)", nw, nu)
			continue
		}
		if exemptFn(u.Root) {
			flds := map[string]bool{}
			for _, f := range fs {
				flds[ix.fieldName(f.wr.Field)] = true
			}
			var names []string
			for n := range flds {
				names = append(names, n)
			}
			sort.Strings(names)
			c.ok("D8", construct, pos, "handler of GroupDeviceChainKeyAdded: {%s} record whether THIS device has sent its own chain key (chain keys are per device): device-local bookkeeping, exempt", strings.Join(names, ","))
			continue
		}
		var msgs []string
		for _, f := range fs {
			msgs = append(msgs, fmt.Sprintf("%s written at %s: %s", ix.fieldName(f.wr.Field), c.pos(posOf(f.wr.Instr)), f.why))
		}
		sort.Strings(msgs)
		c.fail("D8", construct, posOf(fs[0].wr.Instr), "index state depends on the own DEVICE identity: two devices of one member that hold the same entries report different state (decide on the own member, MemberDevice.Member(), instead): %s", strings.Join(msgs, "; "))
	}
	c.count("reads_of_own_device_key_in_index_code", nUses)
}

func c04PtrElem(t types.Type) types.Type {
	if p, ok := types.Unalias(t).(*types.Pointer); ok {
		return p.Elem()
	}
	return t
}

// ---------------------------------------------------------------------------
// D9: the "deterministic clock-sorted traversal" D1 relies on is deterministic only if the
// log's sort function is a total order on the entries. All devices write a group's logs under
// one ipfs-log identity (the group signing key), so concurrent entries can carry the same clock
// time AND the same clock id; go-ipfs-log's default comparator (LastWriteWins, also behind
// FirstWriteWins) then ends in sorting.First, which answers 1 whatever the argument order: the
// relative order of such entries in Values() is the order in which they were joined. The
// options with which weshnet opens its group stores (the module functions that fill the
// Identity of a go-orbit-db CreateDBOptions for a *Group) must therefore set SortFn to a
// comparator with a total tie-break (sorting.SortByEntryHash).

const c04PkgSorting = "berty.tech/go-ipfs-log/entry/sorting"

func c04ComparatorOf(v ssa.Value, depth int) (name string, total, known bool) {
	if depth > 4 || v == nil {
		return "an undetermined value", false, false
	}
	switch x := v.(type) {
	case *ssa.Const:
		if x.Value == nil {
			return "unset", false, true
		}
	case *ssa.Function:
		k := funcKey(x)
		switch k {
		case c04PkgSorting + ".SortByEntryHash":
			return "sorting.SortByEntryHash", true, true
		case c04PkgSorting + ".LastWriteWins", c04PkgSorting + ".FirstWriteWins", c04PkgSorting + ".First":
			return "sorting." + x.Name(), false, true
		}
		return k, false, false
	case *ssa.ChangeType:
		return c04ComparatorOf(x.X, depth+1)
	case *ssa.MakeClosure:
		if f, ok := x.Fn.(*ssa.Function); ok {
			return funcKey(f), false, false
		}
	case *ssa.Call:
		if calleeKey(x.Common()) == c04PkgSorting+".NoZeroes" && len(x.Call.Args) == 1 {
			return c04ComparatorOf(x.Call.Args[0], depth+1)
		}
	case *ssa.UnOp:
		if x.Op == token.MUL {
			if fa, ok := x.X.(*ssa.FieldAddr); ok {
				base := fa.X
				if ph, isPhi := base.(*ssa.Phi); isPhi {
					for _, e := range ph.Edges {
						if _, isParam := e.(*ssa.Parameter); isParam {
							base = e
						}
					}
				}
				if _, isParam := base.(*ssa.Parameter); isParam {
					return "the caller's value (may be unset)", false, true
				}
			}
		}
	}
	return "an undetermined value", false, false
}

func c04RuleD9(c *Ctx) {
	w := c.W
	n := 0
	for _, fn := range w.ModFuncs {
		hasGroup := false
		for _, p := range fn.Params {
			if c04IsNamed(c04PtrElem(p.Type()), pkgTypes, "Group") {
				hasGroup = true
			}
		}
		if !hasGroup {
			continue
		}
		// option objects whose Identity this function fills
		objs := map[ssa.Value]bool{}
		var order []ssa.Value
		for _, b := range fn.Blocks {
			for _, in := range b.Instrs {
				st, ok := in.(*ssa.Store)
				if !ok {
					continue
				}
				fa, ok := st.Addr.(*ssa.FieldAddr)
				if !ok || !c04IsNamed(c04PtrElem(fa.X.Type()), c04PkgOrbitIface, "CreateDBOptions") {
					continue
				}
				stt := c04PtrElem(fa.X.Type()).Underlying().(*types.Struct)
				if stt.Field(fa.Field).Name() == "Identity" && !isNilConst(st.Val) && !objs[fa.X] {
					objs[fa.X] = true
					order = append(order, fa.X)
				}
			}
		}
		for _, obj := range order {
			n++
			c.analysed(fn)
			// stores to obj.SortFn
			type sf struct {
				st          *ssa.Store
				name        string
				total, know bool
			}
			var stores []sf
			if obj.Referrers() != nil {
				for _, r := range *obj.Referrers() {
					fa, ok := r.(*ssa.FieldAddr)
					if !ok || fa.X != obj || fa.Referrers() == nil {
						continue
					}
					if c04PtrElem(fa.X.Type()).Underlying().(*types.Struct).Field(fa.Field).Name() != "SortFn" {
						continue
					}
					for _, r2 := range *fa.Referrers() {
						if st, ok := r2.(*ssa.Store); ok && st.Addr == ssa.Value(fa) {
							nm, tot, kn := c04ComparatorOf(st.Val, 0)
							stores = append(stores, sf{st, nm, tot, kn})
						}
					}
				}
			}
			base := fnName(fn) + "+CreateDBOptions.SortFn"
			why := "all devices write under the group's single ipfs-log identity, so concurrent entries can tie on clock time and clock id; the tie-break must not depend on the order of the arguments"
			if len(stores) == 0 {
				c.fail("D9", base+"+unset", fn.Pos(), "the options with which group stores are opened leave SortFn unset: go-ipfs-log falls back to LastWriteWins whose last tie-break (sorting.First) answers 1 for (a,b) and for (b,a); Log.Values() then lists such entries in the order they were joined and replicas holding the same entries index different states (%s; sorting.SortByEntryHash is total)", why)
				continue
			}
			// the effective value: every success return must be dominated by a store of a total comparator
			okAll := true
			var bad sf
			for _, s := range stores {
				if !s.total {
					okAll = false
					bad = s
				}
			}
			if okAll {
				dom := false
				for _, s := range stores {
					all := true
					for _, r := range returnsOf(fn) {
						if isSuccessReturn(r) && !(s.st.Block() == r.Block() || s.st.Block().Dominates(r.Block())) {
							all = false
						}
					}
					dom = dom || all
				}
				if dom {
					c.ok("D9", base+"+"+stores[0].name, stores[0].st.Pos(), "group stores are opened with %s: concurrent entries with equal clock time and id are ordered by entry hash on every replica", stores[0].name)
				} else {
					c.fail("D9", base+"+unset on some path", stores[0].st.Pos(), "SortFn is set to %s only on some paths to the success return; elsewhere the order-dependent default applies (%s)", stores[0].name, why)
				}
				continue
			}
			if !bad.know {
				c.undecided("D9", base+"+"+bad.name, bad.st.Pos(), "SortFn is set to %s: whether its tie-break is a total order is not decided (%s)", bad.name, why)
			} else {
				c.fail("D9", base+"+"+bad.name, bad.st.Pos(), "group stores are opened with SortFn = %s, whose tie-break for entries with equal clock time and id depends on the order of the arguments / is the order-dependent default (%s; sorting.SortByEntryHash is total)", bad.name, why)
			}
		}
	}
	if n == 0 {
		c.undecided("D9", "CreateDBOptions builder", token.NoPos, "no module function with a *Group parameter fills the Identity of a go-orbit-db CreateDBOptions: the options of the group stores were not found")
	}
}

// ---------------------------------------------------------------------------
// D10: every successful UpdateIndex rebuilds the state from the whole snapshot. A success
// return that is reachable without going through the entry loop leaves the state of an OLDER
// log in place; when the decision to skip is taken on something the index remembers from an
// earlier call (a "tip" hash, a length, a flag) it is a guess that the log did not change, and
// entries merged BELOW the remembered tip (a concurrent branch, an older branch delivered
// late) are never indexed while a fresh replica indexes them.

func (ix *c04Index) stateReadSeeds(fn *ssa.Function, fields func(int) bool) []ssa.Value {
	var out []ssa.Value
	for _, b := range fn.Blocks {
		for _, in := range b.Instrs {
			switch x := in.(type) {
			case *ssa.UnOp:
				if x.Op != token.MUL {
					continue
				}
				if f, direct, _, ok := ix.rootField(x.X); ok && direct && fields(f) {
					out = append(out, x)
				}
			}
		}
	}
	return out
}

func (ix *c04Index) ruleD10() {
	c := ix.c
	upd := ix.Update
	construct := fnName(upd) + "+full-rescan"
	// success returns reachable from the entry without entering the entry loop
	r := ix.walk.ReachWithoutWalk(upd)
	var bypass []*ssa.Return
	for _, ret := range returnsOf(upd) {
		if r[ret.Block()] && isSuccessReturn(ret) {
			bypass = append(bypass, ret)
		}
	}
	if len(bypass) == 0 {
		c.ok("D10", construct, upd.Pos(), "every success return of UpdateIndex lies behind the entry loop: each call rebuilds the state from the whole snapshot")
		return
	}
	// what decides the bypass: anything read from the index object (remembered from earlier calls)?
	// (fields written somewhere in the UpdateIndex cycle, read in the code that runs before /
	// around the loop; configuration fields such as the group never change between calls)
	state := map[int]bool{}
	for _, wr := range ix.writes {
		if _, isCB := ix.cbFields[wr.Field]; !isCB && !ix.lockFields[wr.Field] {
			state[wr.Field] = true
		}
	}
	var seeds []ssa.Value
	for _, sd := range ix.stateReadSeeds(upd, func(f int) bool { return state[f] }) {
		if in, ok := sd.(ssa.Instruction); ok && r[in.Block()] && !ix.walk.InBody(in.Block()) {
			seeds = append(seeds, sd)
		}
	}
	// results of methods of the index called before the loop may carry remembered state too
	for _, b := range upd.Blocks {
		for _, in := range b.Instrs {
			if call, ok := in.(*ssa.Call); ok {
				if !r[b] || ix.walk.InBody(b) {
					continue
				}
				if cal := staticCallee(call.Common()); cal != nil && inModule(cal) && len(call.Common().Args) > 0 && c04PtrTo(call.Common().Args[0].Type(), ix.T) && call.Type() != nil {
					if tup, isT := call.Type().(*types.Tuple); !isT || tup.Len() > 0 {
						seeds = append(seeds, call)
					}
				}
			}
		}
	}
	t := taintFrom(upd, seeds...)
	var remembered []string
	for _, ret := range bypass {
		for _, b := range upd.Blocks {
			if ix.walk.InBody(b) {
				continue
			}
			ifi, ok := b.Instrs[len(b.Instrs)-1].(*ssa.If)
			if !ok || !t[ifi.Cond] || !c04ControlDependents(b)[ret.Block()] {
				continue
			}
			// name the fields involved
			names := map[string]bool{}
			for _, sd := range seeds {
				if u, ok := sd.(*ssa.UnOp); ok {
					if f, _, _, ok := ix.rootField(u.X); ok {
						tt := taintFrom(upd, sd)
						if tt[ifi.Cond] {
							names[ix.fieldName(f)] = true
						}
					}
				}
			}
			var ns []string
			for n := range names {
				ns = append(ns, n)
			}
			sort.Strings(ns)
			what := "a value computed by the index from its own fields"
			if len(ns) > 0 {
				what = "index field(s) {" + strings.Join(ns, ",") + "} remembered from an earlier call"
			}
			remembered = append(remembered, fmt.Sprintf("the return at %s is taken on a test (%s) of %s", c.pos(posOf(ret)), c.pos(posOf(ifi)), what))
		}
	}
	if len(remembered) > 0 {
		sort.Strings(remembered)
		c.fail("D10", construct, posOf(bypass[0]), "UpdateIndex can return successfully without scanning the log: %s. An unchanged remembered value does not mean an unchanged log: entries merged below it (a concurrent branch of another device, an older branch delivered late) are joined but never indexed, while a replica that indexes the same entries from scratch (or this one after reopen) has them", strings.Join(remembered, "; "))
		return
	}
	c.ok("D10", construct, posOf(bypass[0]), "%d success return(s) bypass the entry loop, none decided on state the index remembers from an earlier call (decided on the snapshot itself, e.g. an empty log)", len(bypass))
}

// ---------------------------------------------------------------------------
// D11: inside the scan, what a handler does with an entry does not depend on never-reset index
// state accumulated from OTHER entries. A live index has that state from earlier passes, a
// fresh one (reopen, or one batch) meets the newest entries first and has not seen the older
// ones yet, so such a decision flips with the way the entries arrived. The one legitimate
// read of never-reset state in a handler is the idempotence guard of D3: the presence test of
// the very key the guarded code records in the tested set. Cross-entry conditions belong in
// the post-index actions, which run after the whole scan.

func (ix *c04Index) ruleD11() {
	c := ix.c
	reset := ix.resetKinds()
	state := map[int]bool{}
	for _, wr := range ix.writes {
		if _, isCB := ix.cbFields[wr.Field]; !isCB {
			state[wr.Field] = true
		}
	}
	neverReset := func(f int) bool { return state[f] && reset[f] == "" }
	byFn := map[*ssa.Function][]*c04Write{}
	for _, wr := range ix.writes {
		if state[wr.Field] && !wr.Fresh {
			byFn[wr.Fn] = append(byFn[wr.Fn], wr)
		}
	}
	var fns []*ssa.Function
	for f, ph := range ix.phaseOf {
		if ph == "loop" {
			fns = append(fns, f)
		}
	}
	sort.Slice(fns, func(i, j int) bool { return fns[i].String() < fns[j].String() })
	// helpers whose result depends on never-reset state (a lookup wrapped in a method)
	dep := map[*ssa.Function]int{} // function -> a field its result depends on (+1)
	seedsOf := func(fn *ssa.Function) []ssa.Value {
		seeds := ix.stateReadSeeds(fn, neverReset)
		for _, b := range fn.Blocks {
			for _, in := range b.Instrs {
				if call, ok := in.(*ssa.Call); ok {
					if cal := staticCallee(call.Common()); cal != nil && dep[cal] > 0 {
						seeds = append(seeds, call)
					}
				}
			}
		}
		return seeds
	}
	fieldOfSeed := func(sd ssa.Value) int {
		switch x := sd.(type) {
		case *ssa.UnOp:
			if f, _, _, ok := ix.rootField(x.X); ok {
				return f
			}
		case *ssa.Call:
			if cal := staticCallee(x.Common()); cal != nil && dep[cal] > 0 {
				return dep[cal] - 1
			}
		}
		return -1
	}
	for changed, iter := true, 0; changed && iter < 4; iter++ {
		changed = false
		for _, fn := range fns {
			if dep[fn] > 0 || fn.Signature.Results().Len() == 0 {
				continue
			}
			if _, isRoot := ix.rootOf[fn]; isRoot {
				continue
			}
			for _, sd := range seedsOf(fn) {
				t := taintFrom(fn, sd)
				hit := false
				for _, r := range returnsOf(fn) {
					for _, v := range retResults(r) {
						if t[v] {
							hit = true
						}
					}
				}
				for _, b := range fn.Blocks {
					if ifi, ok := b.Instrs[len(b.Instrs)-1].(*ssa.If); ok && t[ifi.Cond] {
						cd := c04ControlDependents(b)
						for _, r := range returnsOf(fn) {
							if cd[r.Block()] {
								hit = true
							}
						}
					}
				}
				if hit {
					dep[fn] = fieldOfSeed(sd) + 1
					changed = true
					break
				}
			}
		}
	}
	// is the If at block b the idempotence guard of fn (presence of the key the guarded code records)?
	isSubjectGuard := func(fn *ssa.Function, b *ssa.BasicBlock) bool {
		for _, g := range ix.guardEdges(fn) {
			if g.E.From != b || (g.Kind != "lookup" && g.Kind != "helper") {
				continue
			}
			if g.Kind == "helper" {
				return true
			}
			for _, w2 := range ix.writes {
				if w2.Fn == fn && w2.Kind == "mapupdate" && w2.Field == g.Field && edgeDominates(g.E, w2.Instr.Block()) {
					if same, known := c04SameKey(g.Key, w2.Key); same || !known {
						return true
					}
				}
			}
		}
		return false
	}
	nReads := 0
	badOf := map[*ssa.Function][]string{}
	badPosOf := map[*ssa.Function]token.Pos{}
	readsOf := map[*ssa.Function]int{}
	for _, fn := range fns {
		seeds := seedsOf(fn)
		readsOf[fn] = len(seeds)
		nReads += len(seeds)
		for _, sd := range seeds {
			f := fieldOfSeed(sd)
			t := taintFrom(fn, sd)
			for _, b := range fn.Blocks {
				ifi, ok := b.Instrs[len(b.Instrs)-1].(*ssa.If)
				if !ok || !t[ifi.Cond] || isSubjectGuard(fn, b) {
					continue
				}
				cd := c04ControlDependents(b)
				// what does the decision control: a write to index state or a call that leads to one
				var what []string
				for _, wr := range byFn[fn] {
					if cd[wr.Instr.Block()] {
						what = append(what, "the write to "+ix.fieldName(wr.Field)+" at "+c.pos(posOf(wr.Instr)))
					}
				}
				for _, e := range ix.w.callGraph().callees[fn] {
					if cd[e.Site.Block()] && len(byFn[e.Callee]) > 0 {
						what = append(what, "the call of "+fnName(e.Callee)+" at "+c.pos(posOf(e.Site.(ssa.Instruction))))
					}
				}
				if len(what) == 0 {
					continue
				}
				sort.Strings(what)
				if !badPosOf[fn].IsValid() {
					badPosOf[fn] = posOf(ifi)
				}
				fname := "index state"
				if f >= 0 {
					fname = ix.fieldName(f)
				}
				badOf[fn] = append(badOf[fn], fmt.Sprintf("in %s the test at %s reads %s, which is never reset and is filled from other entries, and decides %s", fnName(fn), c.pos(posOf(ifi)), fname, strings.Join(what, ", ")))
			}
		}
	}
	isLoop := func(ph string) bool { return ph == "loop" }
	for _, u := range ix.units(isLoop, func(f *ssa.Function) bool { return len(byFn[f]) > 0 || readsOf[f] > 0 }) {
		construct := fnName(u.Root) + "+no-cross-entry-decision"
		var bad []string
		var badPos token.Pos
		reads, writes := 0, 0
		for _, f := range u.Members {
			reads += readsOf[f]
			writes += len(byFn[f])
			bad = append(bad, badOf[f]...)
			if !badPos.IsValid() {
				badPos = badPosOf[f]
			}
		}
		if len(bad) > 0 {
			sort.Strings(bad)
			c.fail("D11", construct, badPos, "a handler's treatment of an entry depends on never-reset state accumulated from other entries: %s. A live index knows that state from earlier passes; a fresh index (reopen, or the entries in one batch) scans newest first and has not met the older entries yet: the result flips with the arrival order (cross-entry conditions belong in a post-index action)", strings.Join(bad, "; "))
			continue
		}
		c.ok("D11", construct, u.Root.Pos(), "handler and the %d module function(s) it calls: %d write(s) to index state, %d read(s) of never-reset index state used only as the idempotence guard of the subject being recorded (or not deciding any write)", len(u.Members)-1, writes, reads)
	}
	c.count("reads_of_never_reset_state_in_handlers", nReads)
}

// ---------------------------------------------------------------------------
// D12: opening a store loads its whole local log. The Load of go-orbit-db's Store interface
// on the open path must not be given a deadline that weshnet adds itself (a context derived
// from context.WithTimeout / WithDeadline) nor a positive entry budget while its error is not
// enforced: a slow read-back would then open the group silently with a truncated log, and the
// same replica reports another state after reopen than before.

func c04RuleD12(c *Ctx) {
	w := c.W
	n := 0
	for _, fn := range w.ModFuncs {
		for _, b := range fn.Blocks {
			for _, in := range b.Instrs {
				call, ok := in.(*ssa.Call)
				if !ok || !c04IfaceMethod(call.Common(), c04PkgOrbitIface, "Load") || len(call.Common().Args) != 2 {
					continue
				}
				sig := call.Common().Signature()
				if sig.Results().Len() != 1 || !isErrorType(sig.Results().At(0).Type()) {
					continue
				}
				n++
				c.analysed(fn)
				construct := fnName(fn) + "+Store.Load"
				enforced := rejectOnFailure(fn, errVerdict(call)).OK
				rs := rootsOf(provCfg{W: w, InlineResults: true}, call.Common().Args[0])
				derived := ""
				for _, k := range []string{"context.WithTimeout", "context.WithDeadline", "context.WithTimeoutCause", "context.WithDeadlineCause"} {
					if rs["call:"+k] {
						derived = k
					}
				}
				amount, isConst := c04ConstInt(call.Common().Args[1])
				switch {
				case derived != "" && !enforced:
					c.fail("D12", construct, posOf(call), "the store's Load on the open path runs under a context from %s and its error is discarded: when the deadline passes the group opens silently with a partially loaded log (the state after reopen differs from the state before, and later writes do not link to the missing part)", derived)
				case isConst && amount > 0 && !enforced:
					c.fail("D12", construct, posOf(call), "the store's Load on the open path is limited to %d entries and its error is discarded: a longer log is opened truncated", amount)
				case derived != "" || (isConst && amount > 0):
					c.ok("D12", construct, posOf(call), "Load is bounded (%s / amount %d) but its error is enforced: a partial load fails the open instead of being used", derived, amount)
				default:
					msg := "the store's Load runs under the caller's context with no entry budget"
					if !enforced {
						msg += "; its error is discarded, which with the caller's context can only hide an IO failure or the caller's own cancellation (advisory)"
					}
					c.ok("D12", construct, posOf(call), "%s", msg)
				}
			}
		}
	}
	if n == 0 {
		c.undecided("D12", "Store.Load", token.NoPos, "no call of go-orbit-db's Store.Load found in the module: the open path was not recognised")
	}
}

// ---------------------------------------------------------------------------
// judgement units: one per function registered with the index (a handler-table entry or a
// post-index action), judged together with the module functions it calls, so that moving
// handler bodies into shared helpers does not change what is judged nor how many obligations
// there are. Functions of the given phases that no registered function reaches (UpdateIndex's
// own per-entry helper, ...) form units of their own when they have something to judge.

type c04Unit struct {
	Root    *ssa.Function
	Members []*ssa.Function
}

func (ix *c04Index) units(inPhase func(string) bool, relevant func(*ssa.Function) bool) []c04Unit {
	var out []c04Unit
	covered := map[*ssa.Function]bool{}
	for _, r := range ix.roots {
		if r.Via == "static" || !inPhase(ix.rootOf[r.Fn]) {
			continue
		}
		u := c04Unit{Root: r.Fn}
		for f := range ix.w.reachableFuncs([]*ssa.Function{r.Fn}, 4) {
			if ph, in := ix.phaseOf[f]; in && inPhase(ph) {
				u.Members = append(u.Members, f)
				covered[f] = true
			}
		}
		sort.Slice(u.Members, func(i, j int) bool { return u.Members[i].String() < u.Members[j].String() })
		out = append(out, u)
	}
	var rest []*ssa.Function
	for f, ph := range ix.phaseOf {
		if inPhase(ph) && !covered[f] && relevant(f) {
			rest = append(rest, f)
		}
	}
	sort.Slice(rest, func(i, j int) bool { return rest[i].String() < rest[j].String() })
	for _, f := range rest {
		out = append(out, c04Unit{Root: f, Members: []*ssa.Function{f}})
	}
	sort.Slice(out, func(i, j int) bool { return out[i].Root.String() < out[j].Root.String() })
	return out
}

// ---------------------------------------------------------------------------
// the walk over the log entries: either an indexed loop of UpdateIndex over the entry slice,
// or a range-over-func loop over slices.Backward / slices.All / slices.Values of it (the loop
// body is then the synthetic yield function, called by the iterator once per entry:
// `continue` is `return true`).

type c04WalkAnchor struct {
	Kind  string // index | rangefunc
	IA    *ssa.IndexAddr
	Loop  *c04Loop
	Call  *ssa.Call     // rangefunc: the call seq(yield) in UpdateIndex
	Yield *ssa.Function // rangefunc: the loop body
	Seq   ssa.Value     // the slice that is walked
	Iter  string        // rangefunc: slices.Backward | slices.All | slices.Values
}

func (a *c04WalkAnchor) Site() ssa.Instruction {
	if a.Kind == "index" {
		return a.IA
	}
	return a.Call
}

func (a *c04WalkAnchor) Pos() token.Pos { return posOf(a.Site()) }

// InBody: block b of UpdateIndex belongs to the per-entry code.
func (a *c04WalkAnchor) InBody(b *ssa.BasicBlock) bool {
	return a.Kind == "index" && a.Loop.Body[b]
}

// PhaseOf: position of an instruction of UpdateIndex relative to the walk.
func (a *c04WalkAnchor) PhaseOf(in ssa.Instruction) string {
	b := in.Block()
	if a.Kind == "index" {
		switch {
		case a.Loop.Body[b]:
			return "loop"
		case b.Dominates(a.Loop.Header):
			return "prologue"
		}
		return "post"
	}
	sb := a.Call.Block()
	if b == sb {
		for _, x := range b.Instrs {
			if x == in {
				if in == ssa.Instruction(a.Call) {
					return "loop"
				}
				return "prologue"
			}
			if x == ssa.Instruction(a.Call) {
				return "post"
			}
		}
	}
	if b.Dominates(sb) {
		return "prologue"
	}
	return "post"
}

// ReachWithoutWalk: blocks of UpdateIndex reachable from its entry without starting the walk.
func (a *c04WalkAnchor) ReachWithoutWalk(upd *ssa.Function) map[*ssa.BasicBlock]bool {
	cut := map[edge]bool{}
	if a.Kind == "index" {
		for _, p := range a.Loop.Header.Preds {
			cut[edge{p, a.Loop.Header}] = true
		}
		return reach(upd.Blocks[0], cut)
	}
	sb := a.Call.Block()
	for _, x := range sb.Succs {
		cut[edge{sb, x}] = true
	}
	r := reach(upd.Blocks[0], cut)
	delete(r, sb) // what follows the call in its own block comes after the walk
	return r
}

func (a *c04WalkAnchor) Walk() c04Walk {
	if a.Kind == "index" {
		return c04AnalyseWalk(a.IA, a.Loop)
	}
	wk := c04Walk{Known: true, Full: true, Dir: 1}
	if a.Iter == "slices.Backward" {
		wk.Dir = -1
	}
	return wk
}
