package main

// C19 No request can crash the service.
//
// Six crash classes are decided from the SSA of the module, for the functions reachable from
// the RPC handlers (the methods of the module types implementing the generated server
// interfaces) and for the exported byte helpers of pkg/cryptoutil:
//
//	D1 explicit panic / process exit whose controlling condition derives from request data
//	D2 nullable service field (a field some handler-reachable function sets to nil) read and
//	   dereferenced without a nil test (directly or through an accessor)
//	D3 request sub-message pointer dereferenced without a nil test (directly or in a callee)
//	D4 result of a module function that can be nil (with a nil error, or where the error has
//	   not been ruled out), dereferenced
//	D5 slicing / indexing of a byte slice in an exported cryptoutil helper without a length test
//	D6 library call that panics on a wrong argument length (ed25519 seed/key, cipher IV, AEAD
//	   nonce, byte-order accessors, slice-to-array conversions) fed with request bytes, protobuf
//	   message fields or arguments of exported helpers whose length is not established (c19_len.go)
//	D7 channel closed by a goroutine other than the one that sends on it, or closed twice
//	D8 type assertion without comma-ok whose operand can hold a type that does not fit
//	D9 index into a fixed-size array with a variable index that is not bounded by the array
//	   length (copy loop over untrusted bytes) (c19_len.go)
//	   (c19_chan.go)
//
// D2-D4 share one nil-flow engine: sources (classify), guards (dominating nil / error tests),
// sinks (field access, load/store through the pointer, method call on a nil interface, passing
// to a callee whose summary dereferences the parameter), and two summaries computed to a fixed
// point over the module call graph: derefsParam and retNil.

import (
	"fmt"
	"go/token"
	"go/types"
	"sort"
	"strings"

	"golang.org/x/tools/go/ssa"
)

const (
	c19PkgOOSTypes   = modulePath + "/pkg/outofstoremessagetypes"
	c19PkgCryptoutil = modulePath + "/pkg/cryptoutil"
)

func init() {
	register(&PropertyDef{
		ID:    "C19",
		Title: "No request can crash the service",
		Explanation: "Decides, from the type-checked SSA of /repo, nine classes of request-triggered crashes in module code behind the RPC handlers (D1-D4, D7 and D8 on the handler paths, D5 in the exported helpers of pkg/cryptoutil, D6 at every module call of a length-checking library function and D9 at every variable index into a fixed-size array, where only protobuf message fields (request messages included), arguments of the exported helpers and whole-stream reads count as untrusted). Handlers are the methods of the module types implementing protocoltypes.ProtocolServiceServer and outofstoremessagetypes.OutOfStoreMessageServiceServer; besides the handlers, the entry points are the callbacks orbit-db invokes while a handler is served and which the module call graph cannot see (functions with the signature of iface.StoreConstructor: called when a handler opens the stores of a group; methods of module types implementing iface.StoreIndex: called when a handler appends to or reads a store), each listed in the notes; reachable code is the closure over static calls, interface calls resolved to module implementations, closures, function values taken in reachable code and functions stored in package-level variables that reachable code reads. " +
			"(D1) every panic statement and every call of a process-terminating library function (os.Exit, log.Fatal*/Panic*, zap Fatal/Panic) in reachable code is one obligation; it is a violation when a branch condition that decides whether it executes derives by value flow from a handler's request parameter (operands to results, call arguments to results and to the parameters of module callees, stored values and out-parameters to local cells; contexts excluded), or when it is unconditional up to a handler. The panics go/ssa synthesises for select dispatch are not source panics and are skipped. " +
			"(D2) the pointer fields of a handler receiver type that a reachable function sets to nil are nullable (today: the account group context, cleared on deactivation). Every dereference of a value read from such a field, or returned by a function that may return it (accessor summaries), must be dominated by the non-nil side of a nil test of that same value; a test of another read of the field, or an assignment of a non-nil value to it, counts only while a lock of the owning struct is held from there to the use. Obligations are per handler: all such reads in the handler's own code (the functions it runs through static calls, closures and the functions, method expressions and closures it passes on; a call through a func-typed parameter is resolved to what the static callers pass) are judged together and reported under the handler, so a defect in a shared helper is reported for every handler that uses it and extracting a helper does not change the count; reads only reached through interface dispatch keep one obligation per function. " +
			"(D3) pointer-to-message fields of a handler's request parameter are nullable (proto3 leaves them nil when absent): a field access, or passing the value to a module function whose summary says it dereferences that parameter on a path without a nil test (generated getters come out nil-safe from their bodies), must be dominated by a nil test of the value or of another read of the same request field. " +
			"(D4) a module function with a return that carries nil (or a nullable value) together with a nil error is a nullable source for all its callers; a function that returns nil with a non-nil error is a nullable source at the points not dominated by the nil side of a test of that call's error (helpers that hand back the error they were given are seen through). Correlated results are honoured (the comma-ok idiom of module functions): when every nil-without-error return of the callee carries the same constant in one of its bool results and every other success return carries the opposite constant, a use dominated by the side of a test of that result, of that very call, on which it has the opposite value is guarded; wrappers that pass the value on only on that side therefore do not become nullable sources themselves, and a function that returns the value together with that very flag of the same call (return f()) inherits the correlation, merged with its own constant returns. Return statements the compiler merged into one return of phis are read per predecessor, and a named result that no store can reach on the way to a bare return counts as its zero value.One obligation per (caller, callee) pair in reachable code. The same engine is also run on the module's remaining non-test functions (the exported API no handler reaches, e.g. WeshOrbitDB.OpenGroupReplication); what it finds there is outside the property and is only written to the notes, prefixed \"outside the property's scope:\". " +
			"(D5) in the exported functions of pkg/cryptoutil, every slice expression with a bound, index expression or slice-to-array conversion on a byte slice needs its length established. With constant bounds (r[:32], x[3], conversion to [N]byte) the length facts of D6 are used: len >= bound must follow from a dominating comparison of len of that slice with a constant (so a weakened test such as len > 0 is reported), from a slice of an array or a make, or from the slice being the result of a module function all of whose non-nil returns have that fact, at a call site where its error was tested nil. With bounds computed at run time (data[:n]) the operation must be control-dependent on a comparison involving len of that same slice; whether that comparison is the right one is not decided. " +
			"(D6) every module call of a library function that panics when a byte-slice argument has the wrong length (table read off the module's actual callees: ed25519.NewKeyFromSeed 32, ed25519.Sign/PrivateKey.Sign 64, ed25519.Verify 32, PrivateKey.Seed/Public >= 32, cipher.NewCTR/CBC/CFB/OFB IV == block size, AEAD Seal/Open nonce == nonce size, binary.ByteOrder (Put)UintN >= N/8, a []byte key boxed into aead/ecdh ComputeSecret 32) and every slice-to-array conversion is one obligation. The required length must hold on every path: slice of a fixed-size array or with constant bounds, make with a constant (or, for run-time sizes, [:n] / make(n)), result of a module function whose returns all have it (a length test against a parameter of that function is read with the constant the call passes; a nil return of the callee counts as length 0 unless the call site has ruled it out: its error was tested nil there, or another of its results, a status constant or flag it returns only together with nil, is known to differ at the use, as after a switch over the status), parameter for which every static module caller has it, X25519 shared secret, io.ReadAll(io.LimitReader(hkdf, K)) on the nil-error side (an HKDF stream delivers 255 hash lengths before failing, so a nil error means exactly K bytes), or a comparison of len of the same value (or of another read of the same access path) with a constant whose outcome on the dominating edge gives the bound: a comparison with the wrong constant does not count. A field of a module struct has the meet of the facts of every value stored into it anywhere in the module (a length buffer made with a constant size in every constructor), unless its address escapes. If the required length does not hold: when the known length excludes it (a seed read with the wrong constant limit) the site is a violation whatever the bytes are; otherwise it is a violation when the backward slice of the argument (through slicing, conversions, phis, module callees and the arguments of module callers) reaches a field of a protobuf message (every request message is one), the argument of an exported pkg/cryptoutil function (module callers, when there are any, count for establishing the length, not for trusting the bytes) or a whole-stream read (io.ReadAll, os.ReadFile); otherwise it is listed as an internal buffer. This classification is local to the argument's definition: it does not use D1's request-influence fixpoint, so an edit elsewhere cannot change it. For run-time sizes (block size, nonce size) an equality test against any run-time value or any constant length is accepted as written. " +
			"(D7) for every close(ch) in reachable code whose channel can be traced to make(chan) instructions (through local variables, variables captured by closures, phis and the arguments of static calls): every send on the same channel objects must run on the same goroutine as the close, and no second close may follow it. A function runs on goroutine go:<f> when it is the target of a go statement, otherwise on the goroutines of its callers (a closure that is called, deferred or handed to a callee runs on its creator's goroutine). A close in the creating function on a path that shares no CFG path with the go statement that starts the sender (early error return before the goroutine is started) is accepted; a deferred close counts from its defer statement. Closes of channels held in struct fields, maps or returned by calls are listed in the notes as not decided; synchronisation that orders a foreign close after the last send (WaitGroup) is not recognised and would be reported. " +
			"(D8) every type assertion without comma-ok in reachable code is one obligation. It is accepted when the operand's static interface type already satisfies the asserted interface, or when a successful comma-ok assertion of the same value to the same (or an implying) type dominates it. Otherwise the set of dynamic types of the operand is derived where the module's code determines it: values boxed in the module, results of module functions, phis and captured variables, values sent on a channel created in reachable code, the event types an event-bus subscription was created for (Subscribe(new(T)) or a literal list; libp2p delivers only those), proto.Clone of such a value, and a field of the entries of a package-level map literal that is assigned nowhere else (the event-type table); every member of the set must be identical to, or implement, the asserted type, and the report names the ones that do not. Where the set cannot be derived (results of dependencies such as BaseStore.Index, container/list and container/heap elements) the site is listed as not decided, never as a violation. " +
			"(D9) every index expression into a fixed-size array whose index is not a constant (module-wide; one site today, the copy loop of Group.GetLinkKeyArray) is one obligation: an exclusive upper bound of the index must hold on every path and be at most the array length. Bounds come from a dominating comparison of the index with a constant, with the length of an array, or with len of a slice whose length facts (as in D6) give an upper bound (the range loop over a slice tested == N or <= N), from a constant mask, or from an 8-bit unsigned index type. A bound above the array length is a violation; when the index only runs below the length of a slice without an upper bound, the site is a violation if that slice is untrusted in the sense of D6 (protobuf message field, argument of an exported helper, whole-stream read), as it is when the index is computed from an element of such bytes; otherwise it is listed as not decided. Index expressions into slices are not covered outside D5. " +
			"Not decided: panics inside dependencies (orbit-db, libp2p, protobuf, grpc) and in callbacks of dependencies other than the two kinds listed above (libp2p stream handlers, event-bus subscribers, access-controller constructors); index, conversion, type-assertion, nil-map-write and division panics not rooted in the sources above; nil values that travel through maps, channels, struct literals or captured variables; whether the length comparison of D5 is the right one (only its presence and position); an error variable that lives in a captured cell and is tested after a merge; data races other than the lock condition of D2; resource exhaustion and dead-locks. The absence of a recovery interceptor is noted, not required.",
		Trusted:     []string{"golang.org/x/tools go/packages+go/ssa (v0.29.0)", "go/types", "gRPC hands a non-nil request message to every handler", "generated protobuf getters are nil-safe (verified from their bodies by the same summaries)"},
		Assumptions: []string{"dependencies behave as documented; only module code is analysed", "handlers are only entered through the generated server interfaces"},
		// D1: the handler census and the trace-id fallback; D2: the 22 handlers whose own code (static
		// calls, closures, function values passed on) reads the account group, one obligation each; D3: the two request sub-messages that are passed on; D4: the
		// call sites of module functions that return nil on failure (232 today, enumerated
		// mechanically: the floor only guards against the summaries finding nothing); D5: the two
		// exported helpers that cut a byte slice; D6: the 14 call sites of length-checking library
		// functions (4 ed25519.NewKeyFromSeed, PrivateKey.Seed, cipher.NewCTR, AEAD Seal and Open,
		// 6 byte-order accessors).
		// D7: the 12 close sites of channels created in reachable module code; D8: the 18 assertions
		// without comma-ok in reachable code (7 decided, 11 on values produced by dependencies); these two floors are set below today's
		// counts because removing a close or rewriting an assertion in the two-value form is a
		// harmless change that lowers them.
		Floors: map[string]int{"D1": 2, "D2": 22, "D3": 2, "D4": 100, "D5": 2, "D6": 14, "D7": 8, "D8": 12, "D9": 1},
		Borrows: []Borrow{
			{From: "C13", Rules: []string{"D4"}, Why: "the since/until identifiers of GroupMetadataList / GroupMessageList come from the request; the range selection is evaluated there for every position of both identifiers, and an index outside the entry slice (off-by-one at either end) is a run-time panic in the handler's goroutine"},
			{From: "C16", Rules: []string{"D9"}, Why: "releasing a mutex that is not held is a fatal runtime error that no interceptor can recover: a second Unlock on the path a handler takes when its client gives up (stream cancelled) takes the process down"},
		},
		Run: runC19,
	})
}

// ---------------------------------------------------------------------------
// handlers

type c19Handler struct {
	Fn    *ssa.Function
	Iface string
	Recv  types.Type
}

// c19Handlers: the methods of module types (outside the package that declares the interface,
// which holds only the generated Unimplemented stubs) implementing the server interfaces.
func c19Handlers(c *Ctx) ([]c19Handler, map[string]int) {
	w := c.W
	var out []c19Handler
	perIface := map[string]int{}
	for _, spec := range []struct{ pkg, name string }{
		{pkgTypes, "ProtocolServiceServer"},
		{c19PkgOOSTypes, "OutOfStoreMessageServiceServer"},
	} {
		tp := w.typesPkg(spec.pkg)
		if tp == nil {
			c.undecided("D1", "interface:"+spec.name, token.NoPos, "package %s not loaded", spec.pkg)
			continue
		}
		obj := tp.Scope().Lookup(spec.name)
		if obj == nil {
			c.undecided("D1", "interface:"+spec.name, token.NoPos, "server interface %s.%s not found", spec.pkg, spec.name)
			continue
		}
		it, ok := obj.Type().Underlying().(*types.Interface)
		if !ok {
			c.undecided("D1", "interface:"+spec.name, token.NoPos, "%s is not an interface", spec.name)
			continue
		}
		seen := map[*ssa.Function]bool{}
		for _, impl := range w.implementersOf(it) {
			named := impl
			if p, ok := impl.(*types.Pointer); ok {
				named = p.Elem()
			}
			nt, ok := named.(*types.Named)
			if !ok || nt.Obj().Pkg() == nil || nt.Obj().Pkg() == tp {
				continue
			}
			for i := 0; i < it.NumMethods(); i++ {
				m := it.Method(i)
				if !m.Exported() {
					continue
				}
				fn := w.methodOf(impl, m.Name())
				if fn == nil || fn.Blocks == nil || seen[fn] {
					continue
				}
				// promoted generated stub (method not overridden): not a handler of this type
				if fp := fnPkg(fn); fp == tp {
					continue
				}
				seen[fn] = true
				out = append(out, c19Handler{Fn: fn, Iface: spec.name, Recv: impl})
				perIface[spec.name]++
			}
		}
	}
	sort.Slice(out, func(i, j int) bool { return fnName(out[i].Fn) < fnName(out[j].Fn) })
	return out, perIface
}

// c19Reach: module functions reachable from the handlers: call-graph edges (static calls,
// interface calls resolved to module implementations), closures, functions whose value is
// taken in a reachable function (callbacks handed to dependencies), and functions stored in
// a package-level variable that a reachable function reads (tyber.NewTraceID = newID).
func c19Reach(w *World, roots []*ssa.Function) (map[*ssa.Function]int, map[*ssa.Function]*ssa.Function) {
	cg := w.callGraph()
	inGlobal := map[*ssa.Global][]*ssa.Function{}
	for _, fn := range w.ModFuncs {
		for _, b := range fn.Blocks {
			for _, in := range b.Instrs {
				st, ok := in.(*ssa.Store)
				if !ok {
					continue
				}
				g, ok := st.Addr.(*ssa.Global)
				if !ok {
					continue
				}
				switch v := st.Val.(type) {
				case *ssa.Function:
					inGlobal[g] = append(inGlobal[g], v)
				case *ssa.MakeClosure:
					if f, ok := v.Fn.(*ssa.Function); ok {
						inGlobal[g] = append(inGlobal[g], f)
					}
				}
			}
		}
	}
	dist := map[*ssa.Function]int{}
	prev := map[*ssa.Function]*ssa.Function{}
	var q []*ssa.Function
	var cur *ssa.Function
	push := func(f *ssa.Function, d int) {
		if f == nil {
			return
		}
		if o := f.Origin(); o != nil && o.Blocks != nil && f.Blocks == nil {
			f = o
		}
		if f.Blocks == nil {
			return
		}
		if _, ok := dist[f]; !ok {
			dist[f] = d
			if cur != nil {
				prev[f] = cur
			}
			q = append(q, f)
		}
	}
	for _, r := range roots {
		push(r, 0)
	}
	for len(q) > 0 {
		f := q[0]
		q = q[1:]
		cur = f
		d := dist[f] + 1
		for _, e := range cg.callees[f] {
			push(e.Callee, d)
		}
		for _, a := range f.AnonFuncs {
			push(a, d)
		}
		for _, b := range f.Blocks {
			for _, in := range b.Instrs {
				var ops [12]*ssa.Value
				for _, op := range in.Operands(ops[:0]) {
					if op == nil || *op == nil {
						continue
					}
					switch v := (*op).(type) {
					case *ssa.Function:
						push(v, d)
					case *ssa.Global:
						for _, g := range inGlobal[v] {
							push(g, d)
						}
					}
				}
			}
		}
	}
	return dist, prev
}

// ---------------------------------------------------------------------------
// nil-flow engine (A9n)

type c19Origin struct {
	Class  string    // "field" (D2) | "request" (D3) | "result" (D4) | "param" (summaries)
	Desc   string    // human description of the source
	Src    ssa.Value // the source value
	OnErr  ssa.Value // non-nil: nil only together with a non-nil error, which is this value
	Needs  string    // extra requirement that was not met (lock)
	Callee *ssa.Function
	// result of a call whose callee returns nil only together with the constant FlagNil in its
	// bool result FlagIdx (FlagCall == nil: no such correlation)
	FlagCall *ssa.Call
	FlagIdx  int
	FlagNil  bool
}

type c19Ret struct {
	OnSuccess bool   // some return has a nil/nullable result together with a nil error
	OnError   bool   // some error return carries the nil constant
	Class     string // class of the OnSuccess source
	Why       string
	// correlated flag (the comma-ok idiom of module functions): every nil-without-error return
	// carries the constant FlagNil in bool result FlagIdx, every other success return carries
	// the opposite constant. FlagIdx < 0: no such result.
	FlagIdx int
	FlagNil bool
}

type c19Deref struct {
	Yes bool
	Why string
}

type c19Nil struct {
	c        *Ctx
	w        *World
	reach    map[*ssa.Function]int
	prev     map[*ssa.Function]*ssa.Function
	handlers map[*ssa.Function]bool
	reqParam map[*ssa.Parameter]bool
	nullable map[*types.Var]string // nullable field -> where it is set to nil
	owner    map[*types.Var]string // nullable field -> owning named type name
	derefMem map[string]*c19Deref
	retMem   map[string]*c19Ret
	busy     map[string]bool
	keys     map[*ssa.Function]map[string][]ssa.Value // access key -> equivalent reads
	stores   map[*ssa.Function]map[string][]*ssa.Store
	icache   map[string][]*ssa.Function
	passMem  map[string]int
}

func c19IsPtr(t types.Type) bool {
	_, ok := t.Underlying().(*types.Pointer)
	return ok
}

func c19IsIface(t types.Type) bool {
	_, ok := t.Underlying().(*types.Interface)
	return ok && !isErrorType(t)
}

func c19FieldVar(fa *ssa.FieldAddr) *types.Var {
	p, ok := fa.X.Type().Underlying().(*types.Pointer)
	if !ok {
		return nil
	}
	st, ok := p.Elem().Underlying().(*types.Struct)
	if !ok || fa.Field >= st.NumFields() {
		return nil
	}
	return st.Field(fa.Field)
}

func c19OwnerName(fa *ssa.FieldAddr) string {
	if p, ok := fa.X.Type().Underlying().(*types.Pointer); ok {
		if n, ok := p.Elem().(*types.Named); ok {
			return n.Obj().Name()
		}
	}
	return ""
}

// c19Getter: the call is a generated-style getter x.GetF() on a pointer receiver.
func c19Getter(call *ssa.Call) (recv ssa.Value, field string, ok bool) {
	f := staticCallee(call.Common())
	if f == nil || f.Signature.Recv() == nil || len(call.Common().Args) != 1 || !strings.HasPrefix(f.Name(), "Get") {
		return nil, "", false
	}
	return call.Common().Args[0], strings.TrimPrefix(f.Name(), "Get"), true
}

// c19Access: v is a read of root.f1.f2... (loads of field addresses, generated getters).
func c19Access(v ssa.Value) (root ssa.Value, path string, ok bool) {
	switch x := v.(type) {
	case *ssa.UnOp:
		if x.Op != token.MUL {
			return nil, "", false
		}
		fa, isFA := x.X.(*ssa.FieldAddr)
		if !isFA {
			return nil, "", false
		}
		fv := c19FieldVar(fa)
		if fv == nil {
			return nil, "", false
		}
		if r, p, ok := c19Access(fa.X); ok {
			return r, p + "." + fv.Name(), true
		}
		return fa.X, "." + fv.Name(), true
	case *ssa.Call:
		if recv, f, ok := c19Getter(x); ok {
			if r, p, ok := c19Access(recv); ok {
				return r, p + "." + f, true
			}
			return recv, "." + f, true
		}
	}
	return nil, "", false
}

func c19Key(v ssa.Value) string {
	if r, p, ok := c19Access(v); ok {
		return r.Name() + p
	}
	return ""
}

func (n *c19Nil) index(fn *ssa.Function) {
	if _, ok := n.keys[fn]; ok {
		return
	}
	km := map[string][]ssa.Value{}
	sm := map[string][]*ssa.Store{}
	for _, b := range fn.Blocks {
		for _, in := range b.Instrs {
			if v, ok := in.(ssa.Value); ok {
				if k := c19Key(v); k != "" {
					km[k] = append(km[k], v)
				}
			}
			if st, ok := in.(*ssa.Store); ok {
				if fa, ok := st.Addr.(*ssa.FieldAddr); ok {
					if fv := c19FieldVar(fa); fv != nil {
						k := fa.X.Name() + "." + fv.Name()
						if r, p, ok := c19Access(fa.X); ok {
							k = r.Name() + p + "." + fv.Name()
						}
						sm[k] = append(sm[k], st)
					}
				}
			}
		}
	}
	n.keys[fn] = km
	n.stores[fn] = sm
}

// c19At is a program point: just before instruction In, or on the CFG edge E (the point at
// which a phi picks its incoming value).
type c19At struct {
	In ssa.Instruction
	E  *edge
}

func c19AtInstr(in ssa.Instruction) c19At { return c19At{In: in} }

func (a c19At) block() *ssa.BasicBlock {
	if a.E != nil {
		return a.E.From
	}
	return a.In.Block()
}

func (a c19At) fn() *ssa.Function { return a.block().Parent() }

// instr: an instruction executed at (or last before) the point, for lockset queries.
func (a c19At) instr() ssa.Instruction {
	if a.E != nil {
		return a.E.From.Instrs[len(a.E.From.Instrs)-1]
	}
	return a.In
}

// domBy: every path to the point takes edge e.
func (a c19At) domBy(e edge) bool {
	if a.E != nil {
		return e == *a.E || edgeDominates(e, a.E.From)
	}
	return edgeDominates(e, a.In.Block())
}

// c19Guarded: at is dominated by the non-nil side of a nil test of v.
func c19Guarded(v ssa.Value, at c19At) bool {
	for _, e := range edgesOfVerdict(v).Reject {
		if at.domBy(e) {
			return true
		}
	}
	return false
}

// c19AcceptDominates: at is dominated by the nil-error side of a test of errv.
func c19AcceptDominates(errv ssa.Value, at c19At) bool {
	if errv == nil {
		return false
	}
	for _, e := range edgesOfVerdict(errv).Accept {
		if at.domBy(e) {
			return true
		}
	}
	return false
}

func (n *c19Nil) lockHeld(owner string, at ssa.Instruction) bool {
	if owner == "" {
		return false
	}
	for k := range n.w.locks().heldAt(at) {
		if strings.HasPrefix(k, owner+".") {
			return true
		}
	}
	return false
}

func c19BlocksBetween(from *ssa.BasicBlock, via, to *ssa.BasicBlock) bool {
	return reach(from, nil)[via] && (via == to || reach(via, nil)[to])
}

// requestRooted: v reads a pointer-to-message field of a handler's request parameter.
func (n *c19Nil) requestRooted(v ssa.Value) (string, bool) {
	r, p, ok := c19Access(v)
	if !ok {
		return "", false
	}
	par, isPar := r.(*ssa.Parameter)
	if !isPar || !n.reqParam[par] {
		return "", false
	}
	pt, ok := v.Type().Underlying().(*types.Pointer)
	if !ok {
		return "", false
	}
	if _, ok := pt.Elem().Underlying().(*types.Struct); !ok {
		return "", false
	}
	return "request" + p, true // the parameter's own name is not part of the identity
}

type c19Scan struct {
	seed    *ssa.Parameter
	visited map[ssa.Value]bool
}

// origin returns why v may be nil at instruction at (nil: no known reason).
func (n *c19Nil) origin(v ssa.Value, at c19At, sc *c19Scan) *c19Origin {
	if v == nil {
		return nil
	}
	if !c19IsPtr(v.Type()) && !c19IsIface(v.Type()) {
		return nil
	}
	switch x := v.(type) {
	case *ssa.Parameter:
		if sc != nil && sc.seed == x && !c19Guarded(x, at) {
			return &c19Origin{Class: "param", Desc: "parameter " + x.Name(), Src: x}
		}
		return nil
	case *ssa.Phi:
		if sc == nil {
			sc = &c19Scan{}
		}
		if sc.visited == nil {
			sc.visited = map[ssa.Value]bool{}
		}
		if sc.visited[x] {
			return nil
		}
		sc.visited[x] = true
		defer delete(sc.visited, x)
		if c19Guarded(x, at) {
			return nil
		}
		for i, e := range x.Edges {
			pred := x.Block().Preds[i]
			if len(pred.Instrs) == 0 {
				continue
			}
			if o := n.origin(e, c19At{E: &edge{pred, x.Block()}}, sc); o != nil {
				// the merged value may additionally be protected at the use by the test that
				// protects the incoming value (error test of the producing call)
				if o.OnErr != nil && c19AcceptDominates(o.OnErr, at) {
					continue
				}
				// ... or by a test of the error variable merged in parallel (g, err = f() in
				// every branch, one test of err after the merge)
				if o.OnErr != nil && c19SiblingErrTested(x, i, o.OnErr, at) {
					continue
				}
				return o
			}
		}
		return nil
	case *ssa.ChangeType:
		return n.origin(x.X, at, sc)
	case *ssa.UnOp:
		if x.Op != token.MUL {
			return nil
		}
		fa, ok := x.X.(*ssa.FieldAddr)
		if !ok {
			return nil
		}
		fv := c19FieldVar(fa)
		if fv == nil {
			return nil
		}
		if where, isNullable := n.nullable[fv]; isNullable {
			o := &c19Origin{Class: "field", Desc: "field " + n.owner[fv] + "." + fv.Name() + " (set to nil in " + where + ")", Src: x}
			if c19Guarded(x, at) {
				return nil
			}
			ok, needs := n.equivGuard(x, at, n.owner[fv], sc)
			if ok {
				return nil
			}
			o.Needs = needs
			return o
		}
		if desc, ok := n.requestRooted(x); ok {
			if c19Guarded(x, at) {
				return nil
			}
			if ok, _ := n.equivGuard(x, at, "", sc); ok {
				return nil
			}
			return &c19Origin{Class: "request", Desc: "request sub-message " + desc, Src: x}
		}
		return nil
	case *ssa.Call:
		if desc, ok := n.requestRooted(x); ok {
			if c19Guarded(x, at) {
				return nil
			}
			if ok, _ := n.equivGuard(x, at, "", sc); ok {
				return nil
			}
			return &c19Origin{Class: "request", Desc: "request sub-message " + desc, Src: x}
		}
		if _, isTuple := x.Type().(*types.Tuple); isTuple {
			return nil
		}
		return n.resultOrigin(x, 0, x, at)
	case *ssa.Extract:
		call, ok := x.Tuple.(*ssa.Call)
		if !ok {
			return nil
		}
		return n.resultOrigin(call, x.Index, x, at)
	}
	return nil
}

// c19SiblingErrTested: a phi of the same block merges errv on the same edge, and at is dominated
// by the nil side of a test of that merged error.
func c19SiblingErrTested(ph *ssa.Phi, i int, errv ssa.Value, at c19At) bool {
	for _, in := range ph.Block().Instrs {
		p2, ok := in.(*ssa.Phi)
		if !ok {
			break
		}
		if p2 != ph && i < len(p2.Edges) && p2.Edges[i] == errv && c19AcceptDominates(p2, at) {
			return true
		}
	}
	return false
}

// equivGuard: another read of the same access path is nil-tested (non-nil side dominating at)
// or the path was assigned a value that is not nil at at. For fields of a shared object
// (owner != "") this only counts while a lock of the owner is held at both points.
func (n *c19Nil) equivGuard(v ssa.Value, at c19At, owner string, sc *c19Scan) (bool, string) {
	fn := at.fn()
	n.index(fn)
	k := c19Key(v)
	if k == "" {
		return false, ""
	}
	needs := ""
	storeBetween := func(from *ssa.BasicBlock) bool {
		for _, st := range n.stores[fn][k] {
			if st.Block() == at.block() || c19BlocksBetween(from, st.Block(), at.block()) {
				if st.Block() == at.block() && at.E == nil && !instrDominates(st, at.In) {
					continue
				}
				return true
			}
		}
		return false
	}
	for _, other := range n.keys[fn][k] {
		if other == v {
			continue
		}
		for _, e := range edgesOfVerdict(other).Reject {
			if !at.domBy(e) {
				continue
			}
			if storeBetween(e.To) {
				continue
			}
			if owner != "" {
				tst := e.From.Instrs[len(e.From.Instrs)-1]
				if !n.lockHeld(owner, at.instr()) || !n.lockHeld(owner, tst) {
					needs = "another read of the field is nil-tested, but no lock of " + owner + " is held from the test to the use"
					continue
				}
			}
			return true, ""
		}
	}
	// assignment of a non-nil value that dominates the use (latest dominating store wins)
	var last *ssa.Store
	for _, st := range n.stores[fn][k] {
		if !instrDominates(st, at.instr()) {
			continue
		}
		if last == nil || instrDominates(last, st) {
			last = st
		}
	}
	if last != nil {
		other := false
		for _, st := range n.stores[fn][k] {
			if st != last && !instrDominates(st, last) && c19BlocksBetween(last.Block(), st.Block(), at.block()) && st.Block() != last.Block() {
				other = true
			}
		}
		if !other && !isNilConst(last.Val) && n.origin(last.Val, at, sc) == nil {
			if owner != "" && (!n.lockHeld(owner, at.instr()) || !n.lockHeld(owner, last)) {
				return false, "the field is assigned before the use, but no lock of " + owner + " is held from the assignment to the use"
			}
			return true, ""
		}
	}
	return false, needs
}

// calleesOf: module functions a call may enter.
func (n *c19Nil) calleesOf(cc *ssa.CallCommon) []*ssa.Function {
	var out []*ssa.Function
	for _, f := range n.w.resolve(cc, n.icache) {
		if f != nil && f.Blocks != nil { // only module packages are built with bodies (incl. promoted-method wrappers)
			out = append(out, f)
		}
	}
	// call through a func-typed parameter: the functions, method expressions and closures that
	// the static callers of the enclosing function pass in that position
	if par, ok := cc.Value.(*ssa.Parameter); ok && !cc.IsInvoke() && len(out) == 0 {
		fn := par.Parent()
		idx := -1
		for i, p := range fn.Params {
			if p == par {
				idx = i
			}
		}
		seen := map[*ssa.Function]bool{}
		for _, cs := range n.w.callGraph().callers[fn] {
			ccs := cs.Instr.Common()
			if staticCallee(ccs) == nil || idx < 0 || idx >= len(ccs.Args) {
				continue
			}
			var f *ssa.Function
			switch a := ccs.Args[idx].(type) {
			case *ssa.Function:
				f = a
			case *ssa.MakeClosure:
				f, _ = a.Fn.(*ssa.Function)
			case *ssa.ChangeType:
				switch b := a.X.(type) {
				case *ssa.Function:
					f = b
				case *ssa.MakeClosure:
					f, _ = b.Fn.(*ssa.Function)
				}
			}
			if f != nil && f.Blocks != nil && !seen[f] {
				seen[f] = true
				out = append(out, f)
			}
		}
	}
	return out
}

// staticClosure: the functions a handler runs through static calls, closures and function
// values it passes on (no interface dispatch): the code that is the handler's own.
func (n *c19Nil) staticClosure(h *ssa.Function) map[*ssa.Function]bool {
	seen := map[*ssa.Function]bool{}
	var q []*ssa.Function
	push := func(f *ssa.Function) {
		if f == nil {
			return
		}
		if o := f.Origin(); o != nil && o.Blocks != nil && f.Blocks == nil {
			f = o
		}
		if f.Blocks == nil || seen[f] {
			return
		}
		if _, ok := n.reach[f]; !ok {
			return
		}
		seen[f] = true
		q = append(q, f)
	}
	push(h)
	for len(q) > 0 {
		f := q[0]
		q = q[1:]
		for _, a := range f.AnonFuncs {
			push(a)
		}
		for _, b := range f.Blocks {
			for _, in := range b.Instrs {
				if ci, ok := in.(ssa.CallInstruction); ok {
					push(staticCallee(ci.Common()))
				}
				var ops [12]*ssa.Value
				for _, op := range in.Operands(ops[:0]) {
					if op == nil || *op == nil {
						continue
					}
					if fv, ok := (*op).(*ssa.Function); ok {
						push(fv)
					}
				}
			}
		}
	}
	return seen
}

func (n *c19Nil) resultOrigin(call *ssa.Call, idx int, v ssa.Value, at c19At) *c19Origin {
	cc := call.Common()
	var succ, onerr *c19Ret
	var sf, ef *ssa.Function
	for _, f := range n.calleesOf(cc) {
		if idx >= f.Signature.Results().Len() {
			continue
		}
		r := n.retNil(f, idx)
		if r.OnSuccess && succ == nil && !c19FlagGuards(call, r, at) {
			succ, sf = r, f
		}
		if r.OnError && onerr == nil {
			onerr, ef = r, f
		}
	}
	if succ == nil && onerr == nil {
		return nil
	}
	if c19Guarded(v, at) {
		return nil
	}
	if succ != nil {
		cls := succ.Class
		if cls == "" || cls == "param" {
			cls = "result"
		}
		o := &c19Origin{Class: cls, Desc: "result of " + fnName(sf) + ", which " + succ.Why, Src: v, Callee: sf}
		if succ.FlagIdx >= 0 {
			o.FlagCall, o.FlagIdx, o.FlagNil = call, succ.FlagIdx, succ.FlagNil
		}
		return o
	}
	errv := errVerdict(call)
	if errv != nil && c19AcceptDominates(errv, at) {
		return nil
	}
	o := &c19Origin{Class: "result", Desc: "result of " + fnName(ef) + ", which is nil when it fails, used where its error has not been ruled out", Src: v, OnErr: errv, Callee: ef}
	if errv == nil {
		o.Desc = "result of " + fnName(ef) + ", which is nil when it fails, and whose error is discarded"
	}
	return o
}

// c19FlagGuards: the callee returns nil without an error only together with the constant
// r.FlagNil in its bool result r.FlagIdx; at is dominated by the side of a test of that result
// of this very call on which it has the other value (v, found, err := f(); if found { use(v) }).
func c19FlagGuards(call *ssa.Call, r *c19Ret, at c19At) bool {
	if r.FlagIdx < 0 {
		return false
	}
	for _, fl := range extractsOf(call, r.FlagIdx) {
		ve := edgesOfVerdict(fl)
		edges := ve.Accept // nil comes with false: the use must be on the true side
		if r.FlagNil {
			edges = ve.Reject // nil comes with true: the use must be on the false side
		}
		for _, e := range edges {
			if at.domBy(e) {
				return true
			}
		}
	}
	return false
}

// errPassthrough: every return of fn hands back, as its error, the error parameter k (possibly
// through other such functions): logging helpers that return the error they were given.
func (n *c19Nil) errPassthrough(fn *ssa.Function) int {
	key := fmt.Sprintf("p%p", fn)
	if r, ok := n.passMem[key]; ok {
		return r
	}
	n.passMem[key] = -1
	eidx := errResultIndex(fn.Signature)
	if eidx < 0 || fn.Blocks == nil {
		return -1
	}
	k := -1
	for _, r := range returnsOf(fn) {
		rr := retResults(r)
		if eidx >= len(rr) {
			return -1
		}
		var par *ssa.Parameter
		switch x := rr[eidx].(type) {
		case *ssa.Parameter:
			par = x
		case *ssa.Call:
			g := staticCallee(x.Common())
			if g == nil || !inModule(g) {
				return -1
			}
			kg := n.errPassthrough(g)
			if kg < 0 || kg >= len(x.Common().Args) {
				return -1
			}
			par, _ = x.Common().Args[kg].(*ssa.Parameter)
		}
		if par == nil || !isErrorType(par.Type()) {
			return -1
		}
		idx := -1
		for i, p := range fn.Params {
			if p == par {
				idx = i
			}
		}
		if idx < 0 || (k >= 0 && k != idx) {
			return -1
		}
		k = idx
	}
	n.passMem[key] = k
	return k
}

// nonNilErr: definitelyNonNilErr, extended with module helpers that return the error they are given.
func (n *c19Nil) nonNilErr(v ssa.Value, at *ssa.BasicBlock, depth int) bool {
	if definitelyNonNilErr(v, at, 0) {
		return true
	}
	call, ok := v.(*ssa.Call)
	if !ok || depth > 3 {
		return false
	}
	var fs []*ssa.Function
	switch f := call.Common().Value.(type) {
	case *ssa.Function:
		fs = []*ssa.Function{f}
	case *ssa.Phi:
		for _, e := range f.Edges {
			g, ok := e.(*ssa.Function)
			if !ok {
				return false
			}
			fs = append(fs, g)
		}
	default:
		return false
	}
	if len(fs) == 0 {
		return false
	}
	for _, f := range fs {
		if !inModule(f) {
			return false
		}
		k := n.errPassthrough(f)
		if k < 0 || k >= len(call.Common().Args) || !n.nonNilErr(call.Common().Args[k], at, depth+1) {
			return false
		}
	}
	return true
}

// retNil: summary of result idx of fn.
func (n *c19Nil) retNil(fn *ssa.Function, idx int) *c19Ret {
	key := fmt.Sprintf("%p/%d", fn, idx)
	if r, ok := n.retMem[key]; ok {
		return r
	}
	if n.busy["r"+key] {
		return &c19Ret{FlagIdx: -1}
	}
	n.busy["r"+key] = true
	defer delete(n.busy, "r"+key)
	res := &c19Ret{FlagIdx: -1}
	// flags[k]: constants seen in bool result k on the nil / non-nil success returns
	type flagObs struct {
		nilT, nilF, okT, okF, other bool
	}
	flags := map[int]*flagObs{}
	// observe: a success return whose result idx is nil (isNil) or not. via: the nil-ness comes
	// from a call whose callee has a correlated flag; a bool result that is that very flag,
	// passed on unchanged (return f()), inherits the correlation instead of breaking it.
	observe := func(r *ssa.Return, rr []ssa.Value, isNil bool, via *c19Origin) {
		for k := 0; k < fn.Signature.Results().Len() && k < len(rr); k++ {
			if k == idx || !isBoolType(fn.Signature.Results().At(k).Type()) {
				continue
			}
			fo := flags[k]
			if fo == nil {
				fo = &flagObs{}
				flags[k] = fo
			}
			if via != nil && via.FlagCall != nil {
				if ex, ok := rr[k].(*ssa.Extract); ok && ex.Tuple == ssa.Value(via.FlagCall) && ex.Index == via.FlagIdx {
					if via.FlagNil {
						fo.nilT, fo.okF = true, true
					} else {
						fo.nilF, fo.okT = true, true
					}
					continue
				}
			}
			b, isConst := constBool(rr[k])
			if !isConst && c19ZeroAtReturn(rr[k], r) {
				b, isConst = false, true // named result never assigned on the paths to this return
			}
			switch {
			case !isConst:
				fo.other = true
			case isNil && b:
				fo.nilT = true
			case isNil:
				fo.nilF = true
			case b:
				fo.okT = true
			default:
				fo.okF = true
			}
		}
	}
	rt := fn.Signature.Results().At(idx).Type()
	if !c19IsPtr(rt) && !c19IsIface(rt) {
		n.retMem[key] = res
		return res
	}
	eidx := errResultIndex(fn.Signature)
	for _, rv := range c19ReturnVariants(fn) {
		r, rr, at := rv.R, rv.RR, rv.At
		if idx >= len(rr) {
			continue
		}
		val := rr[idx]
		if eidx >= 0 && eidx != idx && eidx < len(rr) && n.nonNilErr(rr[eidx], at.block(), 0) {
			if isNilConst(val) {
				res.OnError = true
			}
			continue
		}
		if isNilConst(val) || c19ZeroAtReturn(val, r) {
			observe(r, rr, true, nil)
			if !res.OnSuccess {
				res.OnSuccess, res.Class = true, "result"
				res.Why = "returns nil without an error (" + n.c.pos(posOf(r)) + ")"
			}
			continue
		}
		o := n.originForReturn(val, at)
		if o == nil {
			observe(r, rr, false, nil)
			continue
		}
		if o.OnErr != nil && eidx >= 0 && eidx < len(rr) && rr[eidx] == o.OnErr {
			// result and error of the same call passed on together
			res.OnError = true
			continue
		}
		observe(r, rr, true, o)
		if !res.OnSuccess {
			res.OnSuccess, res.Class = true, o.Class
			res.Why = "can return the " + o.Desc + " without an error (" + n.c.pos(posOf(r)) + ")"
		}
	}
	if res.OnSuccess {
		for k := 0; k < fn.Signature.Results().Len(); k++ {
			fo := flags[k]
			if fo == nil || fo.other {
				continue
			}
			switch {
			case fo.nilT && !fo.nilF && !fo.okT: // nil <=> flag true (alreadyRegistered)
				res.FlagIdx, res.FlagNil = k, true
			case fo.nilF && !fo.nilT && !fo.okF: // nil <=> flag false (found)
				res.FlagIdx, res.FlagNil = k, false
			}
			if res.FlagIdx >= 0 {
				break
			}
		}
	}
	n.retMem[key] = res
	return res
}

// c19ZeroAtReturn: v is the load of a local result cell that no store can have written on any
// path to return r (bare return of a named result that was never assigned): the zero value.
func c19ZeroAtReturn(v ssa.Value, r *ssa.Return) bool {
	ld, ok := v.(*ssa.UnOp)
	if !ok || ld.Op != token.MUL {
		return false
	}
	al, ok := ld.X.(*ssa.Alloc)
	if !ok || al.Parent() != r.Parent() || al.Referrers() == nil || (al.Heap && closureWrites(al)) {
		return false
	}
	for _, ref := range *al.Referrers() {
		switch u := ref.(type) {
		case *ssa.Store:
			if u.Addr != ssa.Value(al) {
				return false
			}
			if u.Block() == r.Block() || reach(u.Block(), nil)[r.Block()] {
				return false
			}
		case *ssa.UnOp, *ssa.DebugRef:
		default:
			return false // address taken
		}
	}
	return true
}

// c19RetVariant: one way of leaving the function: a return instruction, or, when the returned
// values are phis of the return's own block (several return statements merged by the compiler),
// the return taken from one predecessor, with the values that predecessor supplies.
type c19RetVariant struct {
	R  *ssa.Return
	RR []ssa.Value
	At c19At
}

func c19ReturnVariants(fn *ssa.Function) []c19RetVariant {
	var out []c19RetVariant
	for _, r := range returnsOf(fn) {
		rr := retResults(r)
		b := r.Block()
		split := false
		for _, v := range rr {
			if ph, ok := v.(*ssa.Phi); ok && ph.Block() == b {
				split = true
			}
		}
		if !split || len(b.Preds) == 0 {
			out = append(out, c19RetVariant{r, rr, c19AtInstr(r)})
			continue
		}
		for i, pred := range b.Preds {
			vr := make([]ssa.Value, len(rr))
			for k, v := range rr {
				vr[k] = v
				if ph, ok := v.(*ssa.Phi); ok && ph.Block() == b && i < len(ph.Edges) {
					vr[k] = ph.Edges[i]
				}
			}
			out = append(out, c19RetVariant{r, vr, c19At{E: &edge{pred, b}}})
		}
	}
	return out
}

// originForReturn: like origin, and a nil constant merged into the returned value counts.
func (n *c19Nil) originForReturn(v ssa.Value, at c19At) *c19Origin {
	if ph, ok := v.(*ssa.Phi); ok && !c19Guarded(ph, at) {
		for _, e := range ph.Edges {
			if isNilConst(e) {
				return &c19Origin{Class: "result", Desc: "nil value of a variable that is not assigned on every path", Src: ph}
			}
		}
	}
	return n.origin(v, at, nil)
}

// derefsParam: fn dereferences its parameter j on some path without a nil test.
func (n *c19Nil) derefsParam(fn *ssa.Function, j int) *c19Deref {
	key := fmt.Sprintf("%p/%d", fn, j)
	if d, ok := n.derefMem[key]; ok {
		return d
	}
	if n.busy["d"+key] || fn.Blocks == nil || j >= len(fn.Params) {
		return &c19Deref{}
	}
	n.busy["d"+key] = true
	defer delete(n.busy, "d"+key)
	d := &c19Deref{}
	if c19IsPtr(fn.Params[j].Type()) {
		for _, s := range n.sinks(fn, &c19Scan{seed: fn.Params[j]}) {
			if s.Origin.Class == "param" && s.Origin.Src == ssa.Value(fn.Params[j]) {
				d.Yes = true
				d.Why = fnName(fn) + " " + s.What + " (" + n.c.pos(posOf(s.Instr)) + ")"
				break
			}
		}
	}
	n.derefMem[key] = d
	return d
}

type c19Sink struct {
	Instr  ssa.Instruction
	Origin *c19Origin
	What   string
}

// sinks lists the dereferences in fn of values that may be nil.
func (n *c19Nil) sinks(fn *ssa.Function, sc *c19Scan) []c19Sink {
	var out []c19Sink
	add := func(in ssa.Instruction, v ssa.Value, what string) {
		var s *c19Scan
		if sc != nil {
			s = &c19Scan{seed: sc.seed}
		}
		if o := n.origin(v, c19AtInstr(in), s); o != nil {
			out = append(out, c19Sink{Instr: in, Origin: o, What: what})
		}
	}
	for _, b := range fn.Blocks {
		if b == fn.Recover {
			continue
		}
		for _, in := range b.Instrs {
			switch x := in.(type) {
			case *ssa.FieldAddr:
				if fv := c19FieldVar(x); fv != nil {
					add(x, x.X, "reads field "+fv.Name()+" of it")
				}
			case *ssa.IndexAddr:
				if c19IsPtr(x.X.Type()) {
					add(x, x.X, "indexes it")
				}
			case *ssa.UnOp:
				if x.Op == token.MUL {
					switch x.X.(type) {
					case *ssa.FieldAddr, *ssa.IndexAddr, *ssa.Alloc, *ssa.Global, *ssa.FreeVar:
					default:
						add(x, x.X, "loads through it")
					}
				}
			case *ssa.Store:
				switch x.Addr.(type) {
				case *ssa.FieldAddr, *ssa.IndexAddr, *ssa.Alloc, *ssa.Global, *ssa.FreeVar:
				default:
					add(x, x.Addr, "stores through it")
				}
			case ssa.CallInstruction:
				cc := x.Common()
				if cc.IsInvoke() {
					if c19IsIface(cc.Value.Type()) {
						add(x, cc.Value, "calls method "+cc.Method.Name()+" on it")
					}
				}
				var callees []*ssa.Function
				resolved := false
				for ai, a := range cc.Args {
					if !c19IsPtr(a.Type()) {
						continue
					}
					if _, isConst := a.(*ssa.Const); isConst {
						continue
					}
					var s *c19Scan
					if sc != nil {
						s = &c19Scan{seed: sc.seed}
					}
					o := n.origin(a, c19AtInstr(x), s)
					if o == nil {
						continue
					}
					if !resolved {
						callees, resolved = n.calleesOf(cc), true
					}
					pi := ai
					if cc.IsInvoke() {
						pi = ai + 1
					}
					for _, callee := range callees {
						if d := n.derefsParam(callee, pi); d.Yes {
							what := "passes it to " + fnName(callee) + ", where " + d.Why
							if pi == 0 && !cc.IsInvoke() && callee.Signature.Recv() != nil {
								what = "calls method " + callee.Name() + " on it, where " + d.Why
							}
							out = append(out, c19Sink{Instr: x, Origin: o, What: what})
							break
						}
					}
				}
			}
		}
	}
	return out
}

// classify: the kind of nullable source v is, ignoring every guard ("" when none).
func (n *c19Nil) classify(v ssa.Value) (class, label string) {
	switch x := v.(type) {
	case *ssa.UnOp:
		if x.Op != token.MUL {
			return "", ""
		}
		if fa, ok := x.X.(*ssa.FieldAddr); ok {
			if fv := c19FieldVar(fa); fv != nil {
				if _, isN := n.nullable[fv]; isN {
					return "field", n.owner[fv] + "." + fv.Name()
				}
			}
		}
		if d, ok := n.requestRooted(x); ok {
			return "request", d
		}
	case *ssa.Call:
		if d, ok := n.requestRooted(x); ok {
			return "request", d
		}
		if _, isTuple := x.Type().(*types.Tuple); isTuple {
			return "", ""
		}
		return n.classifyResult(x, 0)
	case *ssa.Extract:
		if call, ok := x.Tuple.(*ssa.Call); ok {
			return n.classifyResult(call, x.Index)
		}
	}
	return "", ""
}

func (n *c19Nil) classifyResult(call *ssa.Call, idx int) (string, string) {
	cls, label := "", ""
	for _, f := range n.calleesOf(call.Common()) {
		if idx >= f.Signature.Results().Len() {
			continue
		}
		r := n.retNil(f, idx)
		if r.OnSuccess {
			c := r.Class
			if c == "" || c == "param" {
				c = "result"
			}
			return c, fnName(f)
		}
		if r.OnError && cls == "" {
			cls, label = "result-onerror", fnName(f)
		}
	}
	return cls, label
}

// ---------------------------------------------------------------------------
// D1: request-controlled explicit panics / process exits

var c19ExitKeys = map[string]bool{
	"os.Exit":   true,
	"log.Fatal": true, "log.Fatalf": true, "log.Fatalln": true, "log.Panic": true, "log.Panicf": true, "log.Panicln": true,
	"(*log.Logger).Fatal": true, "(*log.Logger).Fatalf": true, "(*log.Logger).Fatalln": true, "(*log.Logger).Panic": true, "(*log.Logger).Panicf": true, "(*log.Logger).Panicln": true,
	"(*go.uber.org/zap.Logger).Fatal": true, "(*go.uber.org/zap.Logger).Panic": true,
	"(*go.uber.org/zap.SugaredLogger).Fatal": true, "(*go.uber.org/zap.SugaredLogger).Fatalf": true, "(*go.uber.org/zap.SugaredLogger).Fatalw": true, "(*go.uber.org/zap.SugaredLogger).Fatalln": true,
	"(*go.uber.org/zap.SugaredLogger).Panic": true, "(*go.uber.org/zap.SugaredLogger).Panicf": true, "(*go.uber.org/zap.SugaredLogger).Panicw": true, "(*go.uber.org/zap.SugaredLogger).Panicln": true,
}

func c19IsContext(t types.Type) bool {
	n, ok := t.(*types.Named)
	return ok && n.Obj().Pkg() != nil && n.Obj().Pkg().Path() == "context" && n.Obj().Name() == "Context"
}

type c19Taint struct {
	n *c19Nil
	t map[ssa.Value]bool
}

func c19AllocBase(v ssa.Value) *ssa.Alloc {
	for i := 0; i < 8; i++ {
		switch x := v.(type) {
		case *ssa.Alloc:
			return x
		case *ssa.FieldAddr:
			v = x.X
		case *ssa.IndexAddr:
			v = x.X
		case *ssa.Slice:
			v = x.X
		default:
			return nil
		}
	}
	return nil
}

// run propagates "derives from a handler's request parameter" by value flow: operands to
// results, call arguments to call results and to the parameters of the module callees, stored
// values and out-parameters to local cells. Contexts are never tainted; heap fields are not
// tracked.
func (t *c19Taint) run(fns []*ssa.Function) {
	mark := func(v ssa.Value) bool {
		if v == nil || t.t[v] || c19IsContext(v.Type()) {
			return false
		}
		if _, isC := v.(*ssa.Const); isC {
			return false
		}
		t.t[v] = true
		return true
	}
	for changed, iter := true, 0; changed && iter < 40; iter++ {
		changed = false
		for _, fn := range fns {
			for _, b := range fn.Blocks {
				for _, in := range b.Instrs {
					switch x := in.(type) {
					case *ssa.Store:
						if t.t[x.Val] {
							if al := c19AllocBase(x.Addr); al != nil && mark(al) {
								changed = true
							}
						}
					case *ssa.MakeClosure:
						if f, ok := x.Fn.(*ssa.Function); ok {
							for i, bv := range x.Bindings {
								if t.t[bv] && i < len(f.FreeVars) && mark(f.FreeVars[i]) {
									changed = true
								}
							}
						}
					case ssa.CallInstruction:
						cc := x.Common()
						any := cc.IsInvoke() && t.t[cc.Value]
						for _, a := range cc.Args {
							if t.t[a] {
								any = true
							}
						}
						if mc, ok := cc.Value.(*ssa.MakeClosure); ok {
							for _, bv := range mc.Bindings {
								if t.t[bv] {
									any = true
								}
							}
						}
						if !any {
							continue
						}
						if v := x.Value(); v != nil && mark(v) {
							changed = true
						}
						for _, a := range cc.Args {
							if al, ok := a.(*ssa.Alloc); ok && !t.t[a] && mark(al) {
								changed = true
							}
						}
						for _, callee := range t.n.calleesOf(cc) {
							for ai, a := range cc.Args {
								pi := ai
								if cc.IsInvoke() {
									pi = ai + 1
								}
								if t.t[a] && pi < len(callee.Params) && mark(callee.Params[pi]) {
									changed = true
								}
							}
							if cc.IsInvoke() && t.t[cc.Value] && len(callee.Params) > 0 && mark(callee.Params[0]) {
								changed = true
							}
						}
					default:
						v, ok := in.(ssa.Value)
						if !ok || t.t[v] {
							continue
						}
						var ops [12]*ssa.Value
						for _, op := range in.Operands(ops[:0]) {
							if op != nil && *op != nil && t.t[*op] {
								if mark(v) {
									changed = true
								}
								break
							}
						}
					}
				}
			}
		}
	}
}

// c19Controllers: the If instructions of the function of blk whose outcome decides whether blk
// is reached (exactly one of the two out-edges lies on every path to blk).
func c19Controllers(blk *ssa.BasicBlock) []*ssa.If {
	var out []*ssa.If
	for _, b := range blk.Parent().Blocks {
		if len(b.Instrs) == 0 || len(b.Succs) != 2 {
			continue
		}
		ifi, ok := b.Instrs[len(b.Instrs)-1].(*ssa.If)
		if !ok {
			continue
		}
		d0 := edgeDominates(edge{b, b.Succs[0]}, blk)
		d1 := edgeDominates(edge{b, b.Succs[1]}, blk)
		if d0 != d1 {
			out = append(out, ifi)
		}
	}
	return out
}

type c19Control struct {
	Tainted bool
	Why     string
}

// controlledByRequest: some branch condition deciding that site is executed derives from a
// request parameter; when the site is unconditional in its function, the question is asked at
// its call sites (and an unconditional site in a handler is reached by every request).
func (t *c19Taint) controlledByRequest(site ssa.Instruction, depth int, seen map[*ssa.Function]bool) c19Control {
	fn := site.Parent()
	ctl := c19Controllers(site.Block())
	for _, ifi := range ctl {
		if t.t[ifi.Cond] {
			return c19Control{true, "the branch at " + t.n.c.pos(posOf(ifi)) + " in " + fnName(fn) + " that leads to it tests a value derived from the request"}
		}
	}
	if len(ctl) > 0 {
		return c19Control{false, fmt.Sprintf("%d controlling branch(es) in %s, none derived from a request parameter", len(ctl), fnName(fn))}
	}
	if t.n.handlers[fn] {
		return c19Control{true, "it is executed unconditionally by handler " + fnName(fn)}
	}
	if depth >= 4 || seen[fn] {
		return c19Control{false, "unconditional in " + fnName(fn) + "; callers not resolved further"}
	}
	seen[fn] = true
	var sites []ssa.Instruction
	for _, cs := range t.n.w.callGraph().callers[fn] {
		if _, ok := t.n.reach[cs.Caller]; ok {
			sites = append(sites, cs.Instr)
		}
	}
	if par := fn.Parent(); par != nil {
		if _, ok := t.n.reach[par]; ok {
			for _, b := range par.Blocks {
				for _, in := range b.Instrs {
					if mc, ok := in.(*ssa.MakeClosure); ok && mc.Fn == ssa.Value(fn) {
						sites = append(sites, mc)
					}
				}
			}
		}
	}
	last := c19Control{false, "unconditional in " + fnName(fn) + ", which no handler-reachable function calls"}
	for _, s := range sites {
		r := t.controlledByRequest(s, depth+1, seen)
		if r.Tainted {
			r.Why = "unconditional in " + fnName(fn) + "; " + r.Why
			return r
		}
		last = c19Control{false, "unconditional in " + fnName(fn) + "; " + r.Why}
	}
	return last
}

// pathTo: handler -> fn chain along the reachability search, for report text.
func (n *c19Nil) pathTo(fn *ssa.Function) string {
	var chain []string
	for x, i := fn, 0; x != nil && i < 64; x, i = n.prev[x], i+1 {
		chain = append([]string{fnName(x)}, chain...)
	}
	if len(chain) > 6 {
		chain = append(append(chain[:3:3], "..."), chain[len(chain)-2:]...)
	}
	return strings.Join(chain, " -> ")
}

// ---------------------------------------------------------------------------
// D5: slicing of byte slices in exported decode helpers

func c19IsByteSlice(t types.Type) bool {
	s, ok := t.Underlying().(*types.Slice)
	if !ok {
		return false
	}
	b, ok := s.Elem().Underlying().(*types.Basic)
	return ok && b.Kind() == types.Uint8
}

// c19LenGuarded: the outcome of a comparison involving len(v) is known at instruction at.
func c19LenGuarded(v ssa.Value, at ssa.Instruction) bool {
	isLen := func(x ssa.Value) bool {
		call, ok := x.(*ssa.Call)
		if !ok {
			return false
		}
		b, ok := call.Common().Value.(*ssa.Builtin)
		return ok && b.Name() == "len" && len(call.Common().Args) == 1 && call.Common().Args[0] == v
	}
	var uses func(cond ssa.Value, d int) bool
	uses = func(cond ssa.Value, d int) bool {
		if d > 3 {
			return false
		}
		switch c := cond.(type) {
		case *ssa.BinOp:
			switch c.Op {
			case token.EQL, token.NEQ, token.LSS, token.LEQ, token.GTR, token.GEQ:
				return isLen(c.X) || isLen(c.Y)
			}
		case *ssa.UnOp:
			if c.Op == token.NOT {
				return uses(c.X, d+1)
			}
		}
		return false
	}
	for _, ifi := range c19Controllers(at.Block()) {
		if uses(ifi.Cond, 0) {
			return true
		}
	}
	return false
}

// c19ValueLabel: a name for v that does not depend on SSA register numbering.
func c19ValueLabel(v ssa.Value) string {
	switch x := v.(type) {
	case *ssa.Parameter:
		for i, p := range x.Parent().Params {
			if p == x {
				return fmt.Sprintf("param%d", i)
			}
		}
		return x.Name()
	case *ssa.FreeVar:
		return x.Name()
	case *ssa.Call:
		return "result of " + calleeKey(x.Common())
	case *ssa.Extract:
		if call, ok := x.Tuple.(*ssa.Call); ok {
			return fmt.Sprintf("result %d of %s", x.Index, calleeKey(call.Common()))
		}
	case *ssa.Slice:
		return "slice of " + c19ValueLabel(x.X)
	case *ssa.UnOp:
		if r, p, ok := c19Access(v); ok {
			return c19ValueLabel(r) + p
		}
	case *ssa.Phi:
		return "variable " + x.Comment
	}
	return "local value"
}

func c19RunD5(c *Ctx, n *c19Nil) {
	lf := &c19Len{c: c, n: n, retM: map[*ssa.Function]*c19LenFact{}, busy: map[*ssa.Function]bool{}}
	sp := c.W.pkg(c19PkgCryptoutil)
	if sp == nil {
		c.undecided("D5", "package:pkg/cryptoutil", token.NoPos, "package %s not loaded", c19PkgCryptoutil)
		return
	}
	var fns []*ssa.Function
	for _, fn := range c.W.ModFuncs {
		if fn.Pkg != sp || fn.Parent() != nil || fn.Object() == nil || !fn.Object().Exported() {
			continue
		}
		if recv := fn.Signature.Recv(); recv != nil {
			t := recv.Type()
			if p, ok := t.(*types.Pointer); ok {
				t = p.Elem()
			}
			if nt, ok := t.(*types.Named); !ok || !nt.Obj().Exported() {
				continue
			}
		}
		fns = append(fns, fn)
	}
	for _, fn := range fns {
		type agg struct {
			pos  token.Pos
			n    int
			bad  []string
			name string
			desc string
		}
		per := map[ssa.Value]*agg{}
		var order []ssa.Value
		// need: the length the operation requires when its bounds are constants (-1: bounds
		// computed at run time). With constant bounds the length must be established as an
		// interval fact (dominating comparison with a constant that gives len >= need, slice of
		// an array, make, or the result of a module function whose returns all have the fact);
		// with run-time bounds a comparison on len of the value that decides the operation counts.
		note := func(v ssa.Value, in ssa.Instruction, what string, needs bool, need int64) {
			a := per[v]
			if a == nil {
				desc := ""
				nm := c19ValueLabel(v)
				if par, ok := v.(*ssa.Parameter); ok {
					desc = nm + " (" + par.Name() + ")"
				} else {
					desc = nm
				}
				a = &agg{pos: posOf(in), name: nm, desc: desc}
				per[v] = a
				order = append(order, v)
			}
			a.n++
			if needs {
				f := lf.fact(v, in, 0, map[ssa.Value]bool{})
				okLen := false
				if need >= 0 {
					okLen = f.Known && f.Lo >= need
				} else {
					okLen = c19LenGuarded(v, in) || f.DynEq || f.DynGe
				}
				if !okLen {
					w := what + " at " + c.pos(posOf(in))
					if need >= 0 {
						w += fmt.Sprintf(" needs len >= %d, established: %s", need, f.String())
					}
					a.bad = append(a.bad, w)
				}
			}
		}
		for _, b := range fn.Blocks {
			for _, in := range b.Instrs {
				switch x := in.(type) {
				case *ssa.Slice:
					if !c19IsByteSlice(x.X.Type()) {
						continue
					}
					lowZero := x.Low == nil
					if k, ok := constInt(x.Low); ok && k == 0 {
						lowZero = true
					}
					need := int64(-1)
					if x.High != nil {
						if hi, ok := constInt(x.High); ok {
							need = hi
							if x.Max != nil {
								if mx, ok := constInt(x.Max); ok && mx > need {
									need = mx
								} else if !ok {
									need = -1
								}
							}
						}
					} else if x.Low != nil && x.Max == nil {
						if lo, ok := constInt(x.Low); ok {
							need = lo
						}
					}
					note(x.X, x, "slice expression", !(lowZero && x.High == nil && x.Max == nil), need)
				case *ssa.IndexAddr:
					if c19IsByteSlice(x.X.Type()) {
						need := int64(-1)
						if i, ok := constInt(x.Index); ok {
							need = i + 1
						}
						note(x.X, x, "index expression", true, need)
					}
				case *ssa.SliceToArrayPointer:
					if c19IsByteSlice(x.X.Type()) {
						need := int64(-1)
						if nArr, ok := c19ArrayLen(x.Type()); ok {
							need = nArr
						}
						note(x.X, x, "conversion to an array", true, need)
					}
				}
			}
		}
		if len(order) > 0 {
			c.analysed(fn)
		}
		for _, v := range order {
			a := per[v]
			construct := fnName(fn) + "+" + a.name
			if len(a.bad) == 0 {
				c.ok("D5", construct, a.pos, "%d slicing/indexing operation(s) on byte slice %s, each with a bound that is either the full range, within the length established for the slice, or decided after a comparison on its length", a.n, a.desc)
			} else {
				c.fail("D5", construct, a.pos, "exported helper %s cuts byte slice %s without a preceding test of its length (%s): an input shorter than the bound makes it panic instead of returning an error", fnName(fn), a.desc, strings.Join(a.bad, "; "))
			}
		}
	}
	c.count("D5.exported_cryptoutil_functions", len(fns))
}

// ---------------------------------------------------------------------------

func runC19(c *Ctx) {
	hs, per := c19Handlers(c)
	const wantProto, wantOOS = 40, 1
	if per["ProtocolServiceServer"] < wantProto || per["OutOfStoreMessageServiceServer"] < wantOOS {
		c.undecided("D1", "handlers", token.NoPos, "found %d protocol-service and %d out-of-store handlers, fewer than the %d+%d confirmed on the reference tree", per["ProtocolServiceServer"], per["OutOfStoreMessageServiceServer"], wantProto, wantOOS)
	}
	var roots []*ssa.Function
	for _, h := range hs {
		roots = append(roots, h.Fn)
	}
	// entry points a request reaches through a dependency, which the module call graph cannot see
	for _, cb := range c19CallbackRoots(c) {
		roots = append(roots, cb.Fn)
		c.note("callback root %s: %s", fnName(cb.Fn), cb.Why)
	}
	reach, prev := c19Reach(c.W, roots)
	c.count("handlers", len(hs))
	c.count("reachable_module_functions", len(reach))
	n := &c19Nil{c: c, w: c.W, reach: reach, prev: prev, handlers: map[*ssa.Function]bool{}, reqParam: map[*ssa.Parameter]bool{},
		nullable: map[*types.Var]string{}, owner: map[*types.Var]string{}, derefMem: map[string]*c19Deref{}, retMem: map[string]*c19Ret{},
		busy: map[string]bool{}, keys: map[*ssa.Function]map[string][]ssa.Value{}, stores: map[*ssa.Function]map[string][]*ssa.Store{}, icache: map[string][]*ssa.Function{}, passMem: map[string]int{}}
	recvTypes := map[string]bool{}
	for _, h := range hs {
		n.handlers[h.Fn] = true
		c.analysed(h.Fn)
		for i, p := range h.Fn.Params {
			pt, ok := p.Type().Underlying().(*types.Pointer)
			if !ok {
				continue
			}
			if i == 0 {
				recvTypes[types.TypeString(pt.Elem(), nil)] = true
				continue
			}
			if _, ok := pt.Elem().Underlying().(*types.Struct); ok {
				n.reqParam[p] = true
			}
		}
	}
	var fns []*ssa.Function
	for f := range reach {
		fns = append(fns, f)
	}
	sort.Slice(fns, func(i, j int) bool {
		if a, b := fns[i].String(), fns[j].String(); a != b {
			return a < b
		}
		return fns[i].Pos() < fns[j].Pos()
	})

	// ---- D1
	taint := &c19Taint{n: n, t: map[ssa.Value]bool{}}
	for p := range n.reqParam {
		taint.t[p] = true
	}
	taint.run(fns)
	nSites := 0
	for _, fn := range fns {
		k := 0
		for _, b := range fn.Blocks {
			if b == fn.Recover {
				continue
			}
			for _, in := range b.Instrs {
				key := ""
				if pi, isPanic := in.(*ssa.Panic); isPanic {
					if !pi.Pos().IsValid() {
						continue // synthetic (select dispatch, range-over-func protocol): not a panic call in the source
					}
					key = "panic"
				} else if ci, ok := in.(ssa.CallInstruction); ok {
					if key = calleeKey(ci.Common()); !c19ExitKeys[key] {
						continue
					}
				} else {
					continue
				}
				k++
				nSites++
				c.analysed(fn)
				construct := fnName(fn) + "+" + key
				if k > 1 {
					construct += fmt.Sprintf("#%d", k)
				}
				r := taint.controlledByRequest(in, 0, map[*ssa.Function]bool{})
				path := n.pathTo(fn)
				if r.Tainted {
					c.fail("D1", construct, posOf(in), "%s reachable from a handler (%s) and controlled by the request: %s; the request must be answered with an error instead", key, path, r.Why)
				} else {
					c.ok("D1", construct, posOf(in), "%s reachable from a handler (%s) but not controlled by request data: %s", key, path, r.Why)
				}
			}
		}
	}
	c.ok("D1", "handlers", token.NoPos, "%d handlers (%d protocol service, %d out-of-store service), %d module functions reachable from them scanned, %d panic/exit call sites found", len(hs), per["ProtocolServiceServer"], per["OutOfStoreMessageServiceServer"], len(reach), nSites)

	// ---- nullable fields (D2 sources)
	for _, fn := range fns {
		for _, b := range fn.Blocks {
			for _, in := range b.Instrs {
				st, ok := in.(*ssa.Store)
				if !ok || !isNilConst(st.Val) {
					continue
				}
				fa, ok := st.Addr.(*ssa.FieldAddr)
				if !ok {
					continue
				}
				pt, ok := fa.X.Type().Underlying().(*types.Pointer)
				if !ok || !recvTypes[types.TypeString(pt.Elem(), nil)] {
					continue
				}
				fv := c19FieldVar(fa)
				if fv == nil || !c19IsPtr(fv.Type()) {
					continue
				}
				if _, ok := n.nullable[fv]; !ok {
					n.nullable[fv] = fnName(fn)
					n.owner[fv] = c19OwnerName(fa)
					c.note("nullable field %s.%s: set to nil in %s (%s)", n.owner[fv], fv.Name(), fnName(fn), c.pos(posOf(st)))
				}
			}
		}
	}
	if len(n.nullable) == 0 {
		c.undecided("D2", "nullable-fields", token.NoPos, "no field of a handler receiver type is set to nil by a handler-reachable function: the deactivation path was not found")
	}

	// ---- D2 / D3 / D4: sources and their unguarded dereferences
	type srcKey struct {
		fn    *ssa.Function
		class string
		label string
	}
	type srcAgg struct {
		pos token.Pos
		n   int
		bad []string
	}
	srcs := map[srcKey]*srcAgg{}
	var order []srcKey
	get := func(k srcKey, pos token.Pos) *srcAgg {
		a := srcs[k]
		if a == nil {
			a = &srcAgg{pos: pos}
			srcs[k] = a
			order = append(order, k)
		}
		return a
	}
	// Verdicts only for code reachable from the handlers (the property quantifies over the
	// service's methods). The same engine run on the rest of the module's non-test code is
	// advisory: notes, never obligations.
	outside := c19ApiFuncs(c.W, reach)
	c.count("nil_flow_functions_outside_the_scope_scanned_for_notes", len(outside))
	for _, fn := range outside {
		for _, s := range n.sinks(fn, nil) {
			c.note("outside the property's scope: %s %s at %s [source: %s]; not on any path from an RPC handler, advisory only", fnName(fn), s.What, c.pos(posOf(s.Instr)), s.Origin.Desc)
		}
	}
	for _, fn := range fns {
		for _, b := range fn.Blocks {
			for _, in := range b.Instrs {
				v, ok := in.(ssa.Value)
				if !ok {
					continue
				}
				if !c19IsPtr(v.Type()) && !c19IsIface(v.Type()) {
					continue
				}
				if cls, label := n.classify(v); cls != "" {
					get(srcKey{fn, cls, label}, posOf(in)).n++
				}
			}
		}
		for _, s := range n.sinks(fn, nil) {
			cls, label := n.classify(s.Origin.Src)
			if cls == "" {
				// merged value (phi): attribute to the description
				cls, label = s.Origin.Class, s.Origin.Desc
			}
			a := get(srcKey{fn, cls, label}, posOf(s.Instr))
			msg := fmt.Sprintf("%s %s at %s", fnName(fn), s.What, c.pos(posOf(s.Instr)))
			if s.Origin.Needs != "" {
				msg += " (" + s.Origin.Needs + ")"
			}
			a.bad = append(a.bad, msg+" [source: "+s.Origin.Desc+"]")
		}
	}
	// D2 per handler: the nullable-field sources in the handler's own code (static calls,
	// closures, function values passed on) are judged together, so that moving the accessor and
	// its nil test into a shared helper changes neither the number of obligations nor who is
	// reported. Sources only reached through interface dispatch keep a per-function obligation.
	coveredD2 := map[srcKey]bool{}
	for _, h := range hs {
		cl := n.staticClosure(h.Fn)
		var items []srcKey
		for _, k := range order {
			if k.class == "field" && cl[k.fn] {
				items = append(items, k)
			}
		}
		if len(items) == 0 {
			continue
		}
		var bad, where []string
		reads := 0
		for _, k := range items {
			coveredD2[k] = true
			reads += srcs[k].n
			bad = append(bad, srcs[k].bad...)
			where = append(where, fnName(k.fn))
		}
		construct := fnName(h.Fn) + "+account group"
		if len(bad) == 0 {
			c.ok("D2", construct, h.Fn.Pos(), "%d read(s) of a nullable account-group source in the handler's own code (%s); every dereference is dominated by a nil test (or the value is only returned/compared)", reads, strings.Join(c19Dedup(where), ", "))
		} else {
			c.fail("D2", construct, h.Fn.Pos(), "the handler dereferences the account group, which is nil after its deactivation, without a nil test: %s; the request then panics instead of returning an error", strings.Join(c19Dedup(bad), "; "))
		}
	}
	nOnErr := 0
	for _, k := range order {
		a := srcs[k]
		c.analysed(k.fn)
		construct := fnName(k.fn) + "+" + k.label
		switch k.class {
		case "field":
			if coveredD2[k] {
				continue
			}
			if len(a.bad) == 0 {
				c.ok("D2", construct, a.pos, "nullable account-group source %s read %d time(s); every dereference is dominated by a nil test (or the value is only returned/compared)", k.label, a.n)
			} else {
				c.fail("D2", construct, a.pos, "%s can be nil (after the group it points to is deactivated) and is dereferenced without a nil test: %s; the request then panics instead of returning an error", k.label, strings.Join(c19Dedup(a.bad), "; "))
			}
		case "request":
			if len(a.bad) == 0 {
				c.ok("D3", construct, a.pos, "request sub-message %s (nil when absent from the request) is nil-tested before every dereference, here and in the callees it is passed to", k.label)
			} else {
				c.fail("D3", construct, a.pos, "request sub-message %s is nil when the client omits it and is dereferenced without a nil test: %s", k.label, strings.Join(c19Dedup(a.bad), "; "))
			}
		case "result-onerror":
			nOnErr++
			if len(a.bad) > 0 {
				c.fail("D4", construct, a.pos, "the result of %s is nil when the call fails and is dereferenced where the failure has not been ruled out: %s", k.label, strings.Join(c19Dedup(a.bad), "; "))
			} else {
				c.ok("D4", construct, a.pos, "result of %s (nil on failure) is dereferenced only where its error was tested nil, or not at all", k.label)
			}
		default:
			if len(a.bad) == 0 {
				c.ok("D4", construct, a.pos, "result of %s can be nil without an error; every dereference is dominated by a nil test", k.label)
			} else {
				c.fail("D4", construct, a.pos, "%s can return nil together with a nil error and its result is dereferenced without a nil test: %s", k.label, strings.Join(c19Dedup(a.bad), "; "))
			}
		}
	}
	c.count("D4.call_sites_with_nil_on_error_results", nOnErr)

	c19RunD5(c, n)
	c19RunD6(c, n, taint, fns)
	c19RunD7D8(c, n, fns)
	c.note("no recovery interceptor is installed on the gRPC servers created by the module (NewClientFromService, NewOutOfStoreMessageServiceClient): a panic in a handler terminates the process; noted, not required by the rules")
}

func c19Dedup(in []string) []string {
	seen := map[string]bool{}
	var out []string
	for _, s := range in {
		if !seen[s] {
			seen[s] = true
			out = append(out, s)
		}
	}
	return out
}
