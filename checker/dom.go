package main

// A2 (must-pass-through) and A3 (reject-on-failure) over SSA CFGs, with verifier summaries.

import (
	"fmt"
	"go/types"
	"sort"
	"strings"

	"golang.org/x/tools/go/ssa"
)

// A checkRole identifies primitive check calls and which result carries the verdict.
type checkRole struct {
	Name string
	// Match returns the verdict values of call ci when it plays this role (bool: true accepts;
	// error: nil accepts). Return nil when the call does not play the role.
	Match func(fn *ssa.Function, ci ssa.CallInstruction) []ssa.Value
}

// verdictsOfCall: standard extraction: every bool and error result of the call.
func verdictsOfCall(ci ssa.CallInstruction) []ssa.Value {
	sig := ci.Common().Signature()
	var out []ssa.Value
	for i := 0; i < sig.Results().Len(); i++ {
		t := sig.Results().At(i).Type()
		if isErrorType(t) || isBoolType(t) {
			if v := resultValue(ci, i); v != nil {
				out = append(out, v)
			}
		}
	}
	return out
}

func isBoolType(t types.Type) bool {
	b, ok := t.Underlying().(*types.Basic)
	return ok && b.Kind() == types.Bool
}

// boolVerdict returns only the bool result (ok) of a call, errVerdict only the error.
func boolVerdict(ci ssa.CallInstruction) ssa.Value {
	sig := ci.Common().Signature()
	for i := 0; i < sig.Results().Len(); i++ {
		if isBoolType(sig.Results().At(i).Type()) {
			return resultValue(ci, i)
		}
	}
	return nil
}
func errVerdict(ci ssa.CallInstruction) ssa.Value {
	sig := ci.Common().Signature()
	if i := errResultIndex(sig); i >= 0 {
		return resultValue(ci, i)
	}
	return nil
}

type a3Result struct {
	OK      bool
	Why     string
	Tested  bool
	Returns []*ssa.Return // offending success returns
	Escapes []string      // where control gets without any test of the verdict
}

// rejectOnFailure (A3): the verdict v is tested and no success return is reachable from the
// rejecting side; or v itself is returned as the function's error (propagation).
func rejectOnFailure(fn *ssa.Function, v ssa.Value) a3Result {
	if v == nil {
		return a3Result{OK: false, Why: "verdict result is discarded (never extracted)"}
	}
	ve := edgesOfVerdict(v)
	if len(ve.Ifs) == 0 {
		// propagated?
		if isErrorType(v.Type()) {
			idx := errResultIndex(fn.Signature)
			propagated := false
			var flows func(x ssa.Value, d int) bool
			flows = func(x ssa.Value, d int) bool {
				if x == v {
					return true
				}
				if ph, ok := x.(*ssa.Phi); ok && d < 4 {
					for _, e := range ph.Edges {
						if flows(e, d+1) {
							return true
						}
					}
				}
				return false
			}
			for _, ret := range returnsOf(fn) {
				if rr := retResults(ret); idx >= 0 && idx < len(rr) && flows(rr[idx], 0) {
					propagated = true
				}
			}
			if propagated {
				return a3Result{OK: true, Why: "verdict returned to the caller unchanged", Tested: false}
			}
		}
		return a3Result{OK: false, Why: "verdict is never tested"}
	}
	res := a3Result{OK: true, Tested: true}
	region := reachFromEdges(ve.Reject, nil)
	for _, r := range returnsOf(fn) {
		if region[r.Block()] && isSuccessReturnOnReject(r, v) {
			res.OK = false
			res.Returns = append(res.Returns, r)
		}
	}
	if !res.OK {
		res.Why = "a success return is reachable after the check failed"
	} else if esc := untestedEscapes(fn, v, ve); len(esc) > 0 {
		res.OK = false
		res.Escapes = esc
		res.Why = "the verdict is tested on some paths only: control gets from the call to " + strings.Join(esc, " and to ") + " without passing any test of it"
	} else {
		res.Why = "failing side reaches only error returns"
	}
	return res
}

// untestedEscapes: where control can get from the instruction that produces verdict v without
// passing a block that branches on v (or on an alias of it): back to the producing block (the
// next iteration overwrites the verdict) or to a success return. Returning v itself (also
// through phis) hands the verdict on and is not an escape.
func untestedEscapes(fn *ssa.Function, v ssa.Value, ve verdictEdges) []string {
	var def ssa.Instruction
	switch x := v.(type) {
	case *ssa.Extract:
		def, _ = x.Tuple.(ssa.Instruction)
	case ssa.Instruction:
		def = x
	}
	if def == nil || def.Block() == nil || def.Parent() != fn {
		return nil
	}
	if _, isPhi := def.(*ssa.Phi); isPhi {
		return nil
	}
	tested := map[*ssa.BasicBlock]bool{}
	for _, ifi := range ve.Ifs {
		tested[ifi.Block()] = true
	}
	start := def.Block()
	if tested[start] {
		return nil
	}
	var flows func(x ssa.Value, d int) bool
	flows = func(x ssa.Value, d int) bool {
		if x == v {
			return true
		}
		if ph, ok := x.(*ssa.Phi); ok && d < 4 {
			for _, e := range ph.Edges {
				if flows(e, d+1) {
					return true
				}
			}
		}
		return false
	}
	out := map[string]bool{}
	seen := map[*ssa.BasicBlock]bool{}
	var stack []*ssa.BasicBlock
	push := func(to *ssa.BasicBlock) {
		if to == start {
			out["the next execution of the call"] = true
			return
		}
		if !seen[to] {
			seen[to] = true
			stack = append(stack, to)
		}
	}
	for _, s := range start.Succs {
		push(s)
	}
	for len(stack) > 0 {
		b := stack[len(stack)-1]
		stack = stack[:len(stack)-1]
		if tested[b] {
			continue
		}
		if len(b.Instrs) > 0 {
			if ret, ok := b.Instrs[len(b.Instrs)-1].(*ssa.Return); ok {
				if b == fn.Recover {
					continue
				}
				handed := false
				for _, r := range retResults(ret) {
					if flows(r, 0) {
						handed = true
					}
				}
				if !handed && isSuccessReturnOnReject(ret, v) {
					out["a success return"] = true
				}
				continue
			}
		}
		for _, s := range b.Succs {
			push(s)
		}
	}
	var names []string
	for k := range out {
		names = append(names, k)
	}
	sort.Strings(names)
	return names
}

// isSuccessReturnOnReject: like isSuccessReturn, but a return of the rejected error verdict
// itself counts as an error return.
func isSuccessReturnOnReject(r *ssa.Return, v ssa.Value) bool {
	fn := r.Parent()
	idx := errResultIndex(fn.Signature)
	if idx >= 0 && idx < len(retResults(r)) && retResults(r)[idx] == v && isErrorType(v.Type()) {
		return false
	}
	if idx < 0 {
		// functions without error result: a bool result false is the rejection
		for i, res := range retResults(r) {
			if isBoolType(fn.Signature.Results().At(i).Type()) {
				if b, ok := constBool(res); ok && !b {
					return false
				}
			}
		}
		// nil pointer result counts as rejection too
		for _, res := range retResults(r) {
			if isNilConst(res) {
				return false
			}
		}
		return true
	}
	return isSuccessReturn(r)
}

// bypassReturns (A2): the success returns of fn reachable from entry without taking any of
// the accepting edges; returns of one of the verdict values themselves are not bypasses.
func bypassReturns(fn *ssa.Function, accept []edge, verdicts []ssa.Value) []*ssa.Return {
	cut := map[edge]bool{}
	for _, e := range accept {
		cut[e] = true
	}
	r := reach(fn.Blocks[0], cut)
	idx := errResultIndex(fn.Signature)
	var out []*ssa.Return
	for _, ret := range returnsOf(fn) {
		if !r[ret.Block()] {
			continue
		}
		if idx >= 0 && idx < len(retResults(ret)) {
			tail := false
			for _, v := range verdicts {
				if retResults(ret)[idx] == v {
					tail = true
				}
			}
			if tail {
				continue
			}
		}
		if isSuccessReturn(ret) {
			out = append(out, ret)
		}
	}
	return out
}

// verification sites -----------------------------------------------------------

// A verifySite is one signature verification as seen from a function: a direct call of
// PubKey.Verify, or a call of a module helper whose every success return passes an accepted
// Verify of three of its own parameters (the helper is then summarised as "verifies (key, data,
// sig) = (arg i, arg j, arg k)"). Verdicts are the values that must all accept (bool: true,
// error: nil) for the verification to have succeeded.
type verifySite struct {
	Call           ssa.CallInstruction
	Key, Data, Sig ssa.Value
	Verdicts       []ssa.Value
	Via            *ssa.Function // the helper, nil for a direct Verify
}

const keyVerifyCall = "(github.com/libp2p/go-libp2p/core/crypto.PubKey).Verify"

func verifySitesIn(fn *ssa.Function, depth int) []verifySite {
	var out []verifySite
	if fn == nil || fn.Blocks == nil {
		return nil
	}
	for _, b := range fn.Blocks {
		for _, in := range b.Instrs {
			call, ok := in.(*ssa.Call)
			if !ok {
				continue
			}
			cc := call.Common()
			if calleeKey(cc) == keyVerifyCall && len(cc.Args) >= 2 {
				s := verifySite{Call: call, Key: cc.Value, Data: cc.Args[0], Sig: cc.Args[1]}
				if v := boolVerdict(call); v != nil {
					s.Verdicts = append(s.Verdicts, v)
				}
				if v := errVerdict(call); v != nil {
					s.Verdicts = append(s.Verdicts, v)
				}
				out = append(out, s)
				continue
			}
			if depth <= 0 {
				continue
			}
			h := staticCallee(cc)
			if h == nil || h == fn || h.Blocks == nil || !inModule(h) {
				continue
			}
			paramIdx := func(v ssa.Value) int {
				v = stripConvValue(v)
				for i, p := range h.Params {
					if ssa.Value(p) == v {
						return i
					}
				}
				return -1
			}
			for _, hs := range verifySitesIn(h, depth-1) {
				ik, id, is := paramIdx(hs.Key), paramIdx(hs.Data), paramIdx(hs.Sig)
				if ik < 0 || id < 0 || is < 0 || ik >= len(cc.Args) || id >= len(cc.Args) || is >= len(cc.Args) {
					continue
				}
				// inside the helper every verdict rejects and acceptance dominates the success returns
				okH := len(hs.Verdicts) > 0
				var accept []edge
				for _, v := range hs.Verdicts {
					if r := rejectOnFailure(h, v); !r.OK {
						okH = false
					}
				}
				if okH {
					accept = edgesOfVerdict(hs.Verdicts[0]).Accept
					if len(bypassReturns(h, accept, hs.Verdicts)) > 0 {
						okH = false
					}
				}
				if !okH {
					continue
				}
				s := verifySite{Call: call, Key: cc.Args[ik], Data: cc.Args[id], Sig: cc.Args[is], Via: h}
				if v := errVerdict(call); v != nil {
					s.Verdicts = append(s.Verdicts, v)
				} else if v := boolVerdict(call); v != nil {
					s.Verdicts = append(s.Verdicts, v)
				}
				out = append(out, s)
			}
		}
	}
	return out
}

// stripConvValue looks through value-preserving conversions (interface/type changes).
func stripConvValue(v ssa.Value) ssa.Value {
	for {
		switch x := v.(type) {
		case *ssa.ChangeType:
			v = x.X
		case *ssa.ChangeInterface:
			v = x.X
		case *ssa.MakeInterface:
			v = x.X
		case *ssa.Convert:
			v = x.X
		default:
			return v
		}
	}
}

// verifier summaries ---------------------------------------------------------

type verifierInfo struct {
	IsVerifier bool
	Sites      []ssa.CallInstruction // primitive or summarized check sites found in fn
	Bypass     []*ssa.Return
}

type verifierCache struct {
	w    *World
	role checkRole
	memo map[*ssa.Function]*verifierInfo
	busy map[*ssa.Function]bool
	// Extra accepting edges supplied by the rule for a function (alternative justified paths).
	Extra func(fn *ssa.Function) []edge
}

func newVerifierCache(w *World, role checkRole) *verifierCache {
	return &verifierCache{w: w, role: role, memo: map[*ssa.Function]*verifierInfo{}, busy: map[*ssa.Function]bool{}}
}

// info computes whether every success return of fn passes through an accepting check.
func (vc *verifierCache) info(fn *ssa.Function) *verifierInfo {
	if vi, ok := vc.memo[fn]; ok {
		return vi
	}
	if vc.busy[fn] || fn.Blocks == nil {
		return &verifierInfo{}
	}
	vc.busy[fn] = true
	defer delete(vc.busy, fn)
	vi := &verifierInfo{}
	var accept []edge
	var verdicts []ssa.Value
	for _, b := range fn.Blocks {
		for _, in := range b.Instrs {
			ci, ok := in.(ssa.CallInstruction)
			if !ok {
				continue
			}
			if _, isCall := in.(*ssa.Call); !isCall {
				continue // go/defer cannot deliver a verdict
			}
			var vs []ssa.Value
			if m := vc.role.Match(fn, ci); len(m) > 0 {
				vs = m
			} else if callee := staticCallee(ci.Common()); callee != nil && callee != fn && callee.Blocks != nil && inModule(callee) {
				if errResultIndex(callee.Signature) >= 0 && vc.info(callee).IsVerifier {
					if v := errVerdict(ci); v != nil {
						vs = []ssa.Value{v}
					}
				}
			}
			if len(vs) == 0 {
				continue
			}
			vi.Sites = append(vi.Sites, ci)
			// all verdict values must accept: cutting any accept edge set suffices only if the
			// path has to pass every one; we require passing the accepting side of each tested
			// verdict, so cut the accept edges of the FIRST tested verdict only when others are
			// untested. Simpler and sound: a path is fine only if it takes an accept edge of
			// every verdict; we therefore check each verdict separately below.
			for _, v := range vs {
				verdicts = append(verdicts, v)
				accept = append(accept, edgesOfVerdict(v).Accept...)
			}
		}
	}
	if vc.Extra != nil {
		accept = append(accept, vc.Extra(fn)...)
	}
	if len(vi.Sites) == 0 && (vc.Extra == nil || len(accept) == 0) {
		vc.memo[fn] = vi
		return vi
	}
	vi.Bypass = bypassReturns(fn, accept, verdicts)
	vi.IsVerifier = len(vi.Bypass) == 0
	vc.memo[fn] = vi
	return vi
}

func inModule(fn *ssa.Function) bool {
	p := fnPkg(fn)
	return p != nil && (p.Path() == modulePath || len(p.Path()) > len(modulePath) && p.Path()[:len(modulePath)+1] == modulePath+"/")
}

func describeReturns(c *Ctx, rs []*ssa.Return) string {
	s := ""
	for i, r := range rs {
		if i > 0 {
			s += ", "
		}
		s += c.pos(posOf(r))
	}
	return s
}

var _ = fmt.Sprintf
