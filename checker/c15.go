package main

// C15 Message queues: FIFO, exactly once, no lost wake-up; priority by counter.
//
// Subjects are found by role: the exported generic types queue.SimpleQueue / queue.PriorityQueue,
// their fields by *type* (container/list.List, chan, sync.(RW)Mutex, []T), the library callees
// container/list.*, container/heap.*, context.Context.Done/Err, make(chan), select/send/receive.
// Unexported names appear in report text only.

import (
	"fmt"
	"go/constant"
	"go/token"
	"go/types"
	"sort"
	"strings"

	"golang.org/x/tools/go/ssa"
)

const c15PkgQueue = modulePath + "/internal/queue"

func init() {
	register(&PropertyDef{
		ID:    "C15",
		Title: "Message queues: FIFO, exactly once, no lost wake-up; priority by counter",
		Explanation: "Decides, from the type-checked SSA of the generic bodies of queue.SimpleQueue and queue.PriorityQueue (every function of the package that touches their fields), shapes that hold or fail for every interleaving at once. " +
			"SimpleQueue: (D1) items enter the list at one end and leave from the other (PushBack vs Front+Remove, or the mirror image), every removed element is the head element read in the same critical section and its value is what the function returns, every head value that is returned is removed on every path (exactly once), and every list operation runs with the queue mutex held - code that sits in an unexported helper of the package is checked in the helper's body once per exported function through which it is reached, with the locks held on that function's call chains (a helper called with the mutex held is as good as inline code; the helper's result must be passed on to the exported function's return), so extracting or merging helpers neither hides a site nor lowers the obligation count; a closure handed to a package helper that only calls it (withLock(func())) runs with the locks the helper holds at that call and belongs to the exported function that created it, values it stores into captured result variables are followed into that function; the capacity of the wake-up channel is followed through a package constructor of a named channel type; a parameter of an unexported package function (method or plain function, generic or not) to which every call site passes the queue's list or wake-up channel stands for that field, so list operations, sends and receives written in such helpers are the queue's; a helper call that observes emptiness on every path (take-the-front-if-any) counts as an emptiness observation in its caller, and a result it stored into the caller's named results is 'no item' at a cancelled exit when the helper's boolean is false on every path reaching that exit and the helper returns the zero item whenever it returns false; " +
			"(D2) the wake-up channel is not of the losing shape 'capacity 0 + non-blocking send + receive performed after the mutex was released' (a send falling between the waiter's unlock and its receive is dropped), and the blocking wait is never entered with the mutex held; every receive that takes a token off the wake-up channel (the blocking wait, a non-blocking drain, in the waiter or in a helper on its path) is followed, before the consumer can block on the channel again, by a fresh emptiness test made with the mutex held - unless it was made with the mutex held on the empty side of such a test in the same critical section (the token is then provably stale) - because a token taken after the mutex was released may belong to an item that has not been seen; and an exported function never reaches its blocking wait from the entry without such a test; a non-blocking receive on the wake-up channel in code that is not part of the consumer's wait (Pop, Add, their helpers - it can run while a consumer is about to block, and the one-slot channel coalesces several signals into one token) is allowed only under the mutex on the empty side of an emptiness test; " +
			"(D3) after every wake-up the waiter re-observes emptiness (Len, or a nil-tested Front/Back) before any removal; " +
			"(D4) every insertion is followed on every path by a wake-up send, or preceded by one inside the same uninterrupted critical section; " +
			"(D5) the blocking wait also listens to ctx.Done(), a wait ended by cancellation cannot re-enter the wait without testing ctx.Err(), the exit taken on cancellation returns the zero item and false, and an item is removed and handed out only after the context was tested since the last blocking point (function entry or the wait; ctx.Err() feeding a branch or a non-blocking ctx.Done() case), the cancelled side of that test removing nothing - so a wait whose context is already cancelled returns 'no item' even when items are pending. " +
			"PriorityQueue: (D6) Less, interpreted concretely (integer arithmetic with wrap-around, conversions, comparisons, cmp.Compare, module comparison helpers inlined to depth 2 with the items or their counters as arguments) on 64 pairs of uint64 counters including values 2^63 and more apart, is true for every counter(i)<counter(j) and false for every counter(i)>counter(j) (a signed-difference comparison is reported as not a total order), Swap exchanges both elements, Push appends its argument, Pop returns and removes the last element; container/heap operations on the queue run under the write lock; Push/Pop/Swap are never called directly by module code (only through container/heap); Add pushes its argument through heap.Push on every path; the items handed out by Next/NextAll are results of heap.Pop; Len returns the length of the backing slice; NextAll, interpreted concretely for queues of 0..5 items with a callback that returns nil (len/Len() = current size, heap.Pop/Push change it, local cells and loop counters computed), returns nil only with the queue empty, never pops an empty queue and hands every popped item to the callback - the contract C08 relies on ('on a nil return nothing stays parked'); the backing slice is not written outside the heap.Interface methods and is read only under the lock. " +
			"Not decided: the exhaustive interleaving exploration the property asks for (only the listed lost-wake-up, ordering and locking shapes are decided), fairness/liveness of the Go scheduler, behaviour with more than one consumer (a single wake-up token is enough for one consumer only), correctness of container/list and container/heap themselves, what the callers in store_message.go do with the items.",
		Trusted:     []string{"golang.org/x/tools go/packages+go/ssa (v0.29.0)", "container/list, container/heap, sync.Mutex/RWMutex, channel and select semantics of the Go runtime", "lock identity by owner type + field (methods touch only their receiver's fields)"},
		Assumptions: []string{"one consumer per SimpleQueue (as in MessageStore.processMessageLoop)", "queue fields are unexported, so the functions of package internal/queue are all the code that can touch them"},
		Floors:      map[string]int{"D1": 10, "D2": 3, "D3": 1, "D4": 1, "D5": 4, "D6": 19},
		Run:         runC15,
	})
}

// ---------------------------------------------------------------------------
// environment

type c15Env struct {
	c   *Ctx
	w   *World
	li  *lockInfo
	fns []*ssa.Function // generic origin bodies (and closures) of package internal/queue
}

func runC15(c *Ctx) {
	w := c.W
	e := &c15Env{c: c, w: w, li: w.locks()}
	tp := w.typesPkg(c15PkgQueue)
	if tp == nil {
		c.undecided("D1", "internal/queue", token.NoPos, "package %s not loaded", c15PkgQueue)
		return
	}
	// generic origin bodies: package-level functions, declared methods of the package's
	// named types (generic methods are not in the program's method sets), and their closures
	sp := w.pkg(c15PkgQueue)
	if sp == nil {
		c.undecided("D1", "internal/queue", token.NoPos, "package %s has no SSA", c15PkgQueue)
		return
	}
	seen := map[*ssa.Function]bool{}
	var addFn func(fn *ssa.Function)
	addFn = func(fn *ssa.Function) {
		if fn == nil || fn.Blocks == nil || seen[fn] || fn.Synthetic != "" {
			return
		}
		seen[fn] = true
		e.fns = append(e.fns, fn)
		for _, a := range fn.AnonFuncs {
			addFn(a)
		}
	}
	names := make([]string, 0, len(sp.Members))
	for n := range sp.Members {
		names = append(names, n)
	}
	sort.Strings(names)
	for _, n := range names {
		switch m := sp.Members[n].(type) {
		case *ssa.Function:
			addFn(m)
		case *ssa.Type:
			if nt, ok := m.Type().(*types.Named); ok {
				for i := 0; i < nt.NumMethods(); i++ {
					addFn(w.Prog.FuncValue(nt.Method(i)))
				}
			}
		}
	}
	sq := c15LookupNamed(tp, "SimpleQueue")
	pq := c15LookupNamed(tp, "PriorityQueue")
	if sq == nil {
		c.undecided("D1", "internal/queue.SimpleQueue", token.NoPos, "exported type SimpleQueue not found")
	} else {
		e.runSimple(sq)
	}
	if pq == nil {
		c.undecided("D6", "internal/queue.PriorityQueue", token.NoPos, "exported type PriorityQueue not found")
	} else {
		e.runPriority(pq)
	}
}

func c15LookupNamed(p *types.Package, name string) *types.Named {
	obj, _ := p.Scope().Lookup(name).(*types.TypeName)
	if obj == nil {
		return nil
	}
	n, _ := obj.Type().(*types.Named)
	return n
}

// c15Named: the generic origin of the named type behind t (pointers stripped).
func c15Named(t types.Type) *types.Named {
	for i := 0; i < 4; i++ {
		if p, ok := t.Underlying().(*types.Pointer); ok {
			if _, isNamed := t.(*types.Named); !isNamed {
				t = p.Elem()
				continue
			}
		}
		break
	}
	if n, ok := t.(*types.Named); ok {
		return n.Origin()
	}
	return nil
}

func c15IsPkgType(t types.Type, pkg, name string) bool {
	for i := 0; i < 2; i++ {
		if p, ok := t.(*types.Pointer); ok {
			t = p.Elem()
		}
	}
	n, ok := t.(*types.Named)
	return ok && n.Obj().Pkg() != nil && n.Obj().Pkg().Path() == pkg && n.Obj().Name() == name
}

// c15FieldRef resolves v (the address of a struct field, or a value loaded from it) to the
// owner type and field index.
func c15FieldRef(v ssa.Value) (owner *types.Named, idx int, base ssa.Value) {
	for i := 0; i < 4; i++ {
		switch x := v.(type) {
		case *ssa.UnOp:
			if x.Op == token.MUL {
				v = x.X
				continue
			}
		case *ssa.ChangeType:
			v = x.X
			continue
		case *ssa.FieldAddr:
			pt, ok := x.X.Type().Underlying().(*types.Pointer)
			if !ok {
				return nil, -1, nil
			}
			return c15Named(pt.Elem()), x.Field, x.X
		case *ssa.Field:
			return c15Named(x.X.Type()), x.Field, x.X
		}
		break
	}
	return nil, -1, nil
}

func c15StructOf(n *types.Named) *types.Struct {
	st, _ := n.Underlying().(*types.Struct)
	return st
}

// c15FieldsWhere lists the indices of the fields of n whose type satisfies pred.
func c15FieldsWhere(n *types.Named, pred func(types.Type) bool) []int {
	st := c15StructOf(n)
	var out []int
	for i := 0; st != nil && i < st.NumFields(); i++ {
		if pred(st.Field(i).Type()) {
			out = append(out, i)
		}
	}
	return out
}

func c15HasInt(l []int, x int) bool {
	for _, y := range l {
		if x == y {
			return true
		}
	}
	return false
}

// lock classes of the mutex fields of n, as lockset.go names them.
func c15LockClasses(n *types.Named) []string {
	var out []string
	st := c15StructOf(n)
	for _, i := range c15FieldsWhere(n, func(t types.Type) bool {
		return c15IsPkgType(t, "sync", "Mutex") || c15IsPkgType(t, "sync", "RWMutex")
	}) {
		out = append(out, n.Obj().Name()+"."+st.Field(i).Name())
	}
	return out
}

func (e *c15Env) holds(in ssa.Instruction, classes []string, mode byte) bool {
	return e.holdsDepth(in, classes, mode, 0, nil)
}

// holdsFor: like holds, but only the call chains that start in the exported function root
// are considered for an unexported helper.
func (e *c15Env) holdsFor(in ssa.Instruction, classes []string, mode byte, root *ssa.Function) bool {
	return e.holdsDepth(in, classes, mode, 0, root)
}

// rootsOf: the exported functions (or functions without a caller in the package) through
// which fn is reached inside the package; fn itself when it is one.
func (e *c15Env) rootsOf(fn *ssa.Function) []*ssa.Function {
	seen := map[*ssa.Function]bool{}
	var out []*ssa.Function
	var visit func(f *ssa.Function, depth int)
	visit = func(f *ssa.Function, depth int) {
		if seen[f] {
			return
		}
		seen[f] = true
		if f.Parent() != nil && len(e.closureSites(f)) > 0 {
			visit(f.Parent(), depth+1)
			return
		}
		obj := f.Object()
		sites := e.callSitesOf(f)
		if depth >= 4 || f.Parent() != nil || (obj != nil && obj.Exported()) || len(sites) == 0 {
			out = append(out, f)
			return
		}
		for _, cs := range sites {
			visit(cs.Parent(), depth+1)
		}
	}
	visit(fn, 0)
	sort.Slice(out, func(i, j int) bool { return fnName(out[i]) < fnName(out[j]) })
	return out
}

func (e *c15Env) reachedFrom(fn, root *ssa.Function) bool {
	for _, r := range e.rootsOf(fn) {
		if r == root {
			return true
		}
	}
	return false
}

// c15Label: construct of an obligation that lives in fn and is owed by the exported function
// root (the same thing when the code sits in the exported function itself).
func c15Label(root, fn *ssa.Function, suffix string) string {
	if root == fn || root == nil {
		return fnName(fn) + suffix
	}
	return fnName(root) + suffix + " (in helper " + fn.Name() + ")"
}

func (e *c15Env) holdsDepth(in ssa.Instruction, classes []string, mode byte, depth int, root *ssa.Function) bool {
	ls := e.li.heldAt(in)
	for _, cl := range classes {
		if ls.holds(cl, mode) {
			return true
		}
	}
	// unexported helper of the package: held when every call site in the package holds it
	fn := in.Parent()
	if fn.Parent() != nil && depth < 3 {
		// closure handed to a package helper that calls it: entered with the locks the helper
		// holds at that call (no lock operation of its own may release them first)
		sites := e.closureSites(fn)
		n := 0
		for _, st := range sites {
			if root != nil && !e.reachedFrom(st.creator, root) {
				continue
			}
			n++
			if !e.holdsDepth(st.at, classes, mode, depth+1, nil) {
				return false
			}
		}
		if n == 0 {
			return false
		}
		for _, b := range fn.Blocks {
			for _, x := range b.Instrs {
				if ci, ok := x.(ssa.CallInstruction); ok {
					if _, isLock := lockOpOf(ci); isLock {
						return false
					}
				}
			}
		}
		return true
	}
	if obj := fn.Object(); depth >= 3 || fn.Parent() != nil || (obj != nil && obj.Exported()) {
		return false
	}
	// a release inside fn on a way to in cancels what the callers hold
	released := false
	acquires := map[ssa.Instruction]bool{}
	for _, b := range fn.Blocks {
		for _, x := range b.Instrs {
			if ci, ok := x.(ssa.CallInstruction); ok {
				if op, ok := lockOpOf(ci); ok && !op.Deferred && op.Acquire {
					acquires[x] = true
				}
			}
		}
	}
	acquires[in] = true
	c15Search(fn.Blocks[0], 0, nil, acquires, func(x ssa.Instruction) {
		if ci, ok := x.(ssa.CallInstruction); ok {
			if op, ok := lockOpOf(ci); ok && !op.Deferred && !op.Acquire {
				released = true
			}
		}
	})
	if released {
		return false
	}
	n := 0
	for _, x := range e.callSitesOf(fn) {
		if root != nil && !e.reachedFrom(x.Parent(), root) {
			continue
		}
		n++
		if _, isCall := x.(*ssa.Call); !isCall {
			return false // go / defer: runs outside the caller's critical section
		}
		if !e.holdsDepth(x, classes, mode, depth+1, root) {
			return false
		}
	}
	return n > 0
}

// ---------------------------------------------------------------------------
// instruction-level path search

func c15Index(in ssa.Instruction) int {
	for i, x := range in.Block().Instrs {
		if x == in {
			return i
		}
	}
	return -1
}

// c15Search walks forward from (block b, instruction index start). It stops a path at an
// instruction in stop, and returns the first instruction in target it can reach (nil if none).
// visit, when non-nil, is called for every instruction walked over.
func c15Search(b *ssa.BasicBlock, start int, target, stop map[ssa.Instruction]bool, visit func(ssa.Instruction)) ssa.Instruction {
	type item struct {
		b *ssa.BasicBlock
		i int
	}
	seen := map[*ssa.BasicBlock]bool{}
	work := []item{{b, start}}
	for len(work) > 0 {
		it := work[len(work)-1]
		work = work[:len(work)-1]
		blocked := false
		for i := it.i; i < len(it.b.Instrs); i++ {
			in := it.b.Instrs[i]
			if target[in] {
				return in
			}
			if stop[in] {
				blocked = true
				break
			}
			if visit != nil {
				visit(in)
			}
		}
		if blocked {
			continue
		}
		for _, s := range it.b.Succs {
			if !seen[s] {
				seen[s] = true
				work = append(work, item{s, 0})
			}
		}
	}
	return nil
}

func c15After(in ssa.Instruction, target, stop map[ssa.Instruction]bool) ssa.Instruction {
	return c15Search(in.Block(), c15Index(in)+1, target, stop, nil)
}

func c15Returns(fn *ssa.Function) map[ssa.Instruction]bool {
	m := map[ssa.Instruction]bool{}
	for _, r := range returnsOf(fn) {
		m[r] = true
	}
	return m
}

// c15Between: the instructions that lie on some path from a to b that does not pass through
// a again (both excluded).
func c15Between(a, b ssa.Instruction) []ssa.Instruction {
	var walked []ssa.Instruction
	c15Search(a.Block(), c15Index(a)+1, nil, map[ssa.Instruction]bool{a: true, b: true}, func(in ssa.Instruction) { walked = append(walked, in) })
	// blocks with a path of at least one edge to b's block that does not run through a's block
	bwd := map[*ssa.BasicBlock]bool{}
	stack := []*ssa.BasicBlock{b.Block()}
	for len(stack) > 0 {
		x := stack[len(stack)-1]
		stack = stack[:len(stack)-1]
		if x == a.Block() {
			continue
		}
		for _, p := range x.Preds {
			if !bwd[p] {
				bwd[p] = true
				stack = append(stack, p)
			}
		}
	}
	ai, bi := c15Index(a), c15Index(b)
	var out []ssa.Instruction
	for _, in := range walked {
		i := c15Index(in)
		switch {
		case in.Block() == a.Block() && i < ai:
			// reached by going round a loop: the next execution of a starts a new path
		case in.Block() == b.Block() && (i < bi && (in.Block() != a.Block() || ai < bi)):
			out = append(out, in)
		case in.Block() == b.Block():
			if bwd[b.Block()] {
				out = append(out, in)
			}
		case in.Block() == a.Block() || bwd[in.Block()]:
			if in.Block() == a.Block() && !bwd[a.Block()] {
				continue
			}
			out = append(out, in)
		}
	}
	return out
}

// c15Leaves expands v backwards through phis, conversions, type assertions and local cells
// (named results spilled to allocs: the stores that can reach the load) to the leaf values it
// may carry. zero reports that the untouched zero value of a cell may be carried.
func c15Leaves(v ssa.Value) (leaves []ssa.Value, zero bool) {
	seen := map[ssa.Value]bool{}
	var visit func(v ssa.Value)
	visit = func(v ssa.Value) {
		if v == nil || seen[v] {
			return
		}
		seen[v] = true
		switch x := v.(type) {
		case *ssa.Phi:
			for _, ed := range x.Edges {
				visit(ed)
			}
			return
		case *ssa.TypeAssert:
			visit(x.X)
			return
		case *ssa.ChangeType:
			visit(x.X)
			return
		case *ssa.MakeInterface:
			visit(x.X)
			return
		case *ssa.ChangeInterface:
			visit(x.X)
			return
		case *ssa.Extract:
			if ta, ok := x.Tuple.(*ssa.TypeAssert); ok && x.Index == 0 {
				visit(ta.X)
				return
			}
		case *ssa.UnOp:
			if al, ok := x.X.(*ssa.Alloc); ok && x.Op == token.MUL && closureWrites(al) {
				if vals, ok := c15CapturedStores(al); ok {
					zero = true
					for _, s := range vals {
						visit(s)
					}
					return
				}
			}
			if al, ok := x.X.(*ssa.Alloc); ok && x.Op == token.MUL && !closureWrites(al) {
				vals, z := c15ReachingStores(al, x)
				if z {
					zero = true
				}
				for _, s := range vals {
					visit(s)
				}
				return
			}
		}
		leaves = append(leaves, v)
	}
	visit(v)
	return
}

// c15ReachingStores: the values stored to cell al that can reach the load ld; zero when the
// load can be reached from the function entry without any store.
func c15ReachingStores(al *ssa.Alloc, ld ssa.Instruction) (vals []ssa.Value, zero bool) {
	seen := map[*ssa.BasicBlock]bool{}
	var scan func(b *ssa.BasicBlock, from int)
	scan = func(b *ssa.BasicBlock, from int) {
		for i := from; i >= 0; i-- {
			if st, ok := b.Instrs[i].(*ssa.Store); ok && st.Addr == ssa.Value(al) {
				vals = append(vals, st.Val)
				return
			}
			if b.Instrs[i] == ssa.Instruction(al) {
				zero = true
				return
			}
		}
		if len(b.Preds) == 0 {
			zero = true
			return
		}
		for _, p := range b.Preds {
			if !seen[p] {
				seen[p] = true
				scan(p, len(p.Instrs)-1)
			}
		}
	}
	scan(ld.Block(), c15Index(ld)-1)
	return
}

func c15IsZeroConst(v ssa.Value) bool {
	k, ok := v.(*ssa.Const)
	if !ok {
		return false
	}
	if k.Value == nil {
		return true
	}
	switch k.Value.Kind() {
	case constant.Bool:
		return !constant.BoolVal(k.Value)
	case constant.Int, constant.Float:
		return constant.Sign(k.Value) == 0
	case constant.String:
		return constant.StringVal(k.Value) == ""
	}
	return false
}

// c15FlowsForward: the instructions (returns, calls) that values derived from seeds reach,
// through loads, conversions, type assertions, phis and local cells.
func c15FlowsForward(seeds ...ssa.Value) (rets map[*ssa.Return]bool, callArgs map[ssa.CallInstruction]bool) {
	rets, callArgs = map[*ssa.Return]bool{}, map[ssa.CallInstruction]bool{}
	seen := map[ssa.Value]bool{}
	var visit func(v ssa.Value)
	visit = func(v ssa.Value) {
		if v == nil || seen[v] || v.Referrers() == nil {
			return
		}
		seen[v] = true
		for _, r := range *v.Referrers() {
			switch u := r.(type) {
			case *ssa.UnOp:
				if u.Op == token.MUL && u.X == v {
					visit(u)
				}
			case *ssa.TypeAssert:
				visit(u)
			case *ssa.Extract:
				visit(u)
			case *ssa.ChangeType:
				visit(u)
			case *ssa.ChangeInterface:
				visit(u)
			case *ssa.MakeInterface:
				visit(u)
			case *ssa.Phi:
				visit(u)
			case *ssa.Store:
				if u.Val == v {
					if al, ok := u.Addr.(*ssa.Alloc); ok {
						visit(al) // loads of the cell
					}
					if fv, ok := u.Addr.(*ssa.FreeVar); ok {
						if cell := c15FreeBinding(fv); cell != nil {
							visit(cell) // loads of the captured cell in the enclosing function
						}
					}
				}
			case *ssa.Return:
				rets[u] = true
			case ssa.CallInstruction:
				for _, a := range u.Common().Args {
					if a == v {
						callArgs[u] = true
					}
				}
			}
		}
	}
	for _, s := range seeds {
		visit(s)
	}
	return
}

func c15Keys(m map[string]bool) string {
	var l []string
	for k := range m {
		l = append(l, k)
	}
	sort.Strings(l)
	return strings.Join(l, ", ")
}

var _ = fmt.Sprintf

// ---------------------------------------------------------------------------
// SimpleQueue

type c15ListOp struct {
	fn     *ssa.Function
	in     ssa.CallInstruction
	method string
}

type c15ChanOp struct {
	fn       *ssa.Function
	in       ssa.Instruction
	blocking bool
	sel      *ssa.Select // nil for a plain send / receive
	state    int         // index of the state inside sel
}

type c15Simple struct {
	e        *c15Env
	named    *types.Named
	listIdx  []int
	chanIdx  []int
	locks    []string
	ops      []c15ListOp
	byFn     map[*ssa.Function][]c15ListOp
	sends    []c15ChanOp
	recvs    []c15ChanOp
	caps     []int64 // capacities of the make(chan) values stored into the channel field(s); -1 unknown
	makeFns  []*ssa.Function
	mustSend map[*ssa.Function]int // 0 unknown, 1 yes, 2 no
	ungRem   map[*ssa.Function]int
	blockUnt map[*ssa.Function]int
	parField map[*ssa.Parameter]int
	allTest  map[*ssa.Function]int
}

func (e *c15Env) runSimple(named *types.Named) {
	c := e.c
	s := &c15Simple{e: e, named: named, byFn: map[*ssa.Function][]c15ListOp{}, mustSend: map[*ssa.Function]int{}, ungRem: map[*ssa.Function]int{}}
	tname := "internal/queue." + named.Obj().Name()
	s.listIdx = c15FieldsWhere(named, func(t types.Type) bool { return c15IsPkgType(t, "container/list", "List") })
	s.chanIdx = c15FieldsWhere(named, func(t types.Type) bool { _, ok := t.Underlying().(*types.Chan); return ok })
	s.locks = c15LockClasses(named)
	if len(s.listIdx) == 0 {
		c.undecided("D1", tname, token.NoPos, "no container/list field: the FIFO store of the queue was not recognised")
		return
	}
	if len(s.locks) == 0 {
		c.undecided("D1", tname, token.NoPos, "no sync.Mutex/RWMutex field: the lock guarding the list was not recognised")
		return
	}
	s.collect()
	s.ruleOrder()
	s.rulePairing()
	s.ruleLock()
	if len(s.recvs) == 0 {
		c.undecided("D2", tname, token.NoPos, "no receive on a channel field of the queue: the waiting primitive was not recognised (rules D2-D5 model a wake-up channel)")
		return
	}
	s.ruleWakeup()
	s.ruleTokenRecheck()
	s.ruleRecheck()
	s.ruleSignalAfterInsert()
	s.ruleCancel()
}

func (s *c15Simple) isList(v ssa.Value) bool {
	i, ok := s.fieldOf(v, 0)
	return ok && c15HasInt(s.listIdx, i)
}

func (s *c15Simple) isChan(v ssa.Value) bool {
	i, ok := s.fieldOf(v, 0)
	return ok && c15HasInt(s.chanIdx, i)
}

// fieldOf resolves v to a field of the queue: the address of the field, a value loaded from
// it, or a parameter of an unexported package function (method or not, generic or not) to
// which every call site in the package passes that same field.
func (s *c15Simple) fieldOf(v ssa.Value, depth int) (int, bool) {
	if n, i, _ := c15FieldRef(v); n != nil {
		return i, n.Obj() == s.named.Obj()
	}
	for i := 0; i < 3; i++ {
		if ct, ok := v.(*ssa.ChangeType); ok {
			v = ct.X
		}
	}
	par, ok := v.(*ssa.Parameter)
	if !ok || depth > 2 {
		return -1, false
	}
	if s.parField == nil {
		s.parField = map[*ssa.Parameter]int{}
	}
	if r, ok := s.parField[par]; ok {
		return r, r >= 0
	}
	s.parField[par] = -1
	fn := par.Parent()
	if obj := fn.Object(); fn.Parent() != nil || (obj != nil && obj.Exported()) {
		return -1, false
	}
	k := c15ParamIndex(fn, par)
	res, n := -1, 0
	for _, cs := range s.e.callSitesOf(fn) {
		args := cs.(ssa.CallInstruction).Common().Args
		if k < 0 || k >= len(args) {
			return -1, false
		}
		i, ok := s.fieldOf(args[k], depth+1)
		if !ok || (n > 0 && i != res) {
			return -1, false
		}
		res = i
		n++
	}
	if n == 0 {
		return -1, false
	}
	s.parField[par] = res
	return res, true
}

const c15ListPrefix = "(*container/list.List)."

func (s *c15Simple) collect() {
	for _, fn := range s.e.fns {
		touched := false
		for _, b := range fn.Blocks {
			for _, in := range b.Instrs {
				switch x := in.(type) {
				case ssa.CallInstruction:
					cc := x.Common()
					key := calleeKey(cc)
					if strings.HasPrefix(key, c15ListPrefix) && len(cc.Args) > 0 && s.isList(cc.Args[0]) {
						op := c15ListOp{fn, x, strings.TrimPrefix(key, c15ListPrefix)}
						s.ops = append(s.ops, op)
						s.byFn[fn] = append(s.byFn[fn], op)
						touched = true
					}
				case *ssa.Send:
					if s.isChan(x.Chan) {
						s.sends = append(s.sends, c15ChanOp{fn: fn, in: x, blocking: true})
						touched = true
					}
				case *ssa.UnOp:
					if x.Op == token.ARROW && s.isChan(x.X) {
						s.recvs = append(s.recvs, c15ChanOp{fn: fn, in: x, blocking: true})
						touched = true
					}
				case *ssa.Select:
					for i, st := range x.States {
						if !s.isChan(st.Chan) {
							continue
						}
						op := c15ChanOp{fn: fn, in: x, blocking: x.Blocking, sel: x, state: i}
						if st.Dir == types.SendOnly {
							s.sends = append(s.sends, op)
						} else {
							s.recvs = append(s.recvs, op)
						}
						touched = true
					}
				case *ssa.Store:
					if n, i, _ := c15FieldRef(x.Addr); n != nil && n.Obj() == s.named.Obj() && c15HasInt(s.chanIdx, i) {
						if _, isAddr := x.Addr.(*ssa.FieldAddr); isAddr {
							capv := int64(-1)
							if k, ok := s.chanCap(x.Val, 0); ok {
								capv = k
							}
							s.caps = append(s.caps, capv)
							s.makeFns = append(s.makeFns, fn)
							touched = true
						}
					}
				}
			}
		}
		if touched {
			s.e.c.analysed(fn)
		}
	}
	s.e.c.count("SimpleQueue list operations", len(s.ops))
	s.e.c.count("SimpleQueue wake-up sends", len(s.sends))
	s.e.c.count("SimpleQueue wake-up receives", len(s.recvs))
}

// headOf: e is the result of Front()/Back() on the queue's list: returns "front"/"back".
func (s *c15Simple) headOf(v ssa.Value) (string, *ssa.Call) {
	call, ok := v.(*ssa.Call)
	if !ok {
		return "", nil
	}
	cc := call.Common()
	if len(cc.Args) == 0 || !s.isList(cc.Args[0]) {
		return "", nil
	}
	switch calleeKey(cc) {
	case c15ListPrefix + "Front":
		return "front", call
	case c15ListPrefix + "Back":
		return "back", call
	}
	return "", nil
}

// D1 (order): insertion end and removal end are opposite, at every site.
func (s *c15Simple) ruleOrder() {
	c := s.e.c
	type site struct {
		op   c15ListOp
		head string // which end this site implies is the head (oldest item) of the queue
		what string
	}
	var sites []site
	votes := map[string]int{}
	for _, op := range s.ops {
		construct := fnName(op.fn) + "+list." + op.method
		switch op.method {
		case "Len", "Front", "Back":
			continue
		case "PushBack":
			sites = append(sites, site{op, "front", "inserts at the back"})
		case "PushFront":
			sites = append(sites, site{op, "back", "inserts at the front"})
		case "Remove":
			args := op.in.Common().Args
			end := ""
			if len(args) > 1 {
				end, _ = s.headOf(args[1])
			}
			if end == "" {
				c.fail("D1", construct, posOf(op.in), "the element removed is not the result of Front()/Back() on the queue's list: removal of something else than the oldest item breaks FIFO order")
				continue
			}
			sites = append(sites, site{op, end, "removes from the " + end})
		default:
			c.undecided("D1", construct, posOf(op.in), "list mutation %s is not modelled by the FIFO rule", op.method)
			continue
		}
		votes[sites[len(sites)-1].head]++
	}
	majority := ""
	if votes["front"] > votes["back"] {
		majority = "front"
	} else if votes["back"] > votes["front"] {
		majority = "back"
	}
	for _, st := range sites {
		for _, root := range s.e.rootsOf(st.op.fn) {
			construct := c15Label(root, st.op.fn, "+list."+st.op.method)
			if st.head == majority {
				c.ok("D1", construct, posOf(st.op.in), "%s; consistent with the other sites (oldest item at the %s)", st.what, majority)
			} else if majority == "" {
				c.fail("D1", construct, posOf(st.op.in), "%s, but insertions and removals do not agree on which end holds the oldest item: items are not handed out in insertion order", st.what)
			} else {
				c.fail("D1", construct, posOf(st.op.in), "%s while the other sites keep the oldest item at the %s: items are handed out in LIFO, not insertion, order", st.what, majority)
			}
		}
	}
}

// consumer functions: reachable from the exported removing API (methods other than the
// inserting ones that return an item).
func (s *c15Simple) valueReadsOf(el ssa.Value) []ssa.Value {
	var out []ssa.Value
	if el.Referrers() == nil {
		return nil
	}
	for _, r := range *el.Referrers() {
		if fa, ok := r.(*ssa.FieldAddr); ok && fa.X == el {
			st := fa.X.Type().Underlying().(*types.Pointer).Elem().Underlying().(*types.Struct)
			if st.Field(fa.Field).Name() == "Value" { // exported field of container/list.Element
				out = append(out, fa)
			}
		}
	}
	return out
}

// D1 (pairing, exactly once)
func (s *c15Simple) rulePairing() {
	c := s.e.c
	for _, op := range s.ops {
		if op.method != "Remove" {
			continue
		}
		args := op.in.Common().Args
		if len(args) < 2 {
			continue
		}
		_, head := s.headOf(args[1])
		if head == nil {
			continue // reported by the order rule
		}
		// the removed element's value is what is returned
		seeds := s.valueReadsOf(args[1])
		if v := op.in.Value(); v != nil {
			seeds = append(seeds, v) // Remove returns the element's value
		}
		rets, _ := c15FlowsForward(seeds...)
		for _, root := range s.e.rootsOf(op.fn) {
			construct := c15Label(root, op.fn, "+removed element")
			// same critical section between reading the head and removing it
			var gap ssa.Instruction
			if !s.e.holdsFor(head, s.locks, 'W', root) || !s.e.holdsFor(op.in, s.locks, 'W', root) {
				gap = op.in
			}
			for _, in := range c15Between(head, op.in) {
				if !s.e.holdsFor(in, s.locks, 'W', root) {
					gap = in
					break
				}
			}
			switch {
			case gap != nil:
				c.fail("D1", construct, posOf(gap), "the queue mutex is not held continuously between reading the head element and removing it: another goroutine can remove the same element (item delivered twice) in between")
			case len(rets) == 0:
				c.fail("D1", construct, posOf(op.in), "the value of the removed element does not reach a result of the function: the item is taken out of the queue and lost")
			case !s.retsReachRoot(rets, root):
				c.fail("D1", construct, posOf(op.in), "the helper returns the removed item but %s does not return the helper's result on to its caller: the item is taken out of the queue and lost", fnName(root))
			default:
				c.ok("D1", construct, posOf(op.in), "removes the head element read in the same critical section and returns its value")
			}
		}
	}
	// every head value that is returned is removed on every path
	for _, op := range s.ops {
		if op.method != "Front" && op.method != "Back" {
			continue
		}
		el := op.in.Value()
		if el == nil {
			continue
		}
		reads := s.valueReadsOf(el)
		rets, _ := c15FlowsForward(reads...)
		if len(rets) == 0 {
			continue
		}
		removes := map[ssa.Instruction]bool{}
		for _, o2 := range s.byFn[op.fn] {
			if o2.method == "Remove" && len(o2.in.Common().Args) > 1 && o2.in.Common().Args[1] == ssa.Value(el) {
				removes[o2.in] = true
			}
		}
		msg := ""
		var at ssa.Instruction = op.in
		if len(removes) == 0 {
			msg = "the value of the head element is returned but the element is never removed from the list: the same item is handed out again by the next call"
		}
		for _, rd := range reads {
			if msg != "" {
				break
			}
			rdIn := rd.(ssa.Instruction)
			dominated := false
			for rm := range removes {
				if instrDominates(rm, rdIn) {
					dominated = true
				}
			}
			if dominated {
				continue
			}
			retSet := map[ssa.Instruction]bool{}
			for r := range rets {
				retSet[r] = true
				if r.Parent() != op.fn {
					for own := range c15Returns(op.fn) {
						retSet[own] = true
					}
				}
			}
			if esc := c15After(rdIn, retSet, removes); esc != nil {
				msg, at = "a path returns the head item without removing its element from the list: the item is handed out more than once", esc
			}
		}
		for _, root := range s.e.rootsOf(op.fn) {
			construct := c15Label(root, op.fn, "+returned head item")
			if msg != "" {
				c.fail("D1", construct, posOf(at), "%s", msg)
			} else {
				c.ok("D1", construct, posOf(op.in), "the element whose value is returned is removed on every path to the return")
			}
		}
	}
}

// retsReachRoot: one of the returns the item flows to (in the function itself, or, through a
// captured result variable, in the function that created the closure) is passed on to root.
func (s *c15Simple) retsReachRoot(rets map[*ssa.Return]bool, root *ssa.Function) bool {
	for r := range rets {
		if s.resultReachesRoot(r.Parent(), root, 0) {
			return true
		}
	}
	return false
}

// resultReachesRoot: the results of helper fn are passed on, call by call, to a return of the
// exported function root.
func (s *c15Simple) resultReachesRoot(fn, root *ssa.Function, depth int) bool {
	if fn == root {
		return true
	}
	if depth > 3 {
		return false
	}
	n := 0
	for _, cs := range s.e.callSitesOf(fn) {
		g := cs.Parent()
		if !s.e.reachedFrom(g, root) {
			continue
		}
		n++
		v, ok := cs.(ssa.Value)
		if !ok {
			return false
		}
		rets, _ := c15FlowsForward(v)
		if len(rets) == 0 || !s.resultReachesRoot(g, root, depth+1) {
			return false
		}
	}
	return n > 0
}

// D1 (lock): every list operation runs with the queue mutex held; for an unexported helper,
// once per exported function through which it is reached, with that function's lock context.
func (s *c15Simple) ruleLock() {
	c := s.e.c
	var fns []*ssa.Function
	for fn := range s.byFn {
		fns = append(fns, fn)
	}
	sort.Slice(fns, func(i, j int) bool { return fnName(fns[i]) < fnName(fns[j]) })
	for _, fn := range fns {
		for _, root := range s.e.rootsOf(fn) {
			construct := c15Label(root, fn, "+list access under the queue mutex")
			var bad *c15ListOp
			for i, op := range s.byFn[fn] {
				if !s.e.holdsFor(op.in, s.locks, 'W', root) {
					bad = &s.byFn[fn][i]
					break
				}
			}
			if bad != nil {
				c.fail("D1", construct, posOf(bad.in), "list.%s is called without the queue mutex (%s) held on every path: concurrent producers/consumer corrupt the list, lose or duplicate items", bad.method, strings.Join(s.locks, "/"))
			} else {
				c.ok("D1", construct, fn.Pos(), "%d list operation(s), all with %s held", len(s.byFn[fn]), strings.Join(s.locks, "/"))
			}
		}
	}
}

// D2 (A11): wake-up token cannot be lost.
func (s *c15Simple) ruleWakeup() {
	c := s.e.c
	unbuffered, unknown := len(s.caps) > 0, len(s.caps) == 0
	for _, k := range s.caps {
		if k < 0 {
			unknown = true
		}
		if k != 0 {
			unbuffered = false
		}
	}
	var tryIn *c15ChanOp
	for i := range s.sends {
		if !s.sends[i].blocking {
			tryIn = &s.sends[i]
		}
	}
	makers := map[string]bool{}
	for _, f := range s.makeFns {
		makers[fnName(f)] = true
	}
	for _, r := range s.recvs {
		construct := fnName(r.fn) + "+wake-up receive"
		held := s.e.holds(r.in, s.locks, 'W')
		switch {
		case len(s.sends) == 0:
			c.fail("D2", construct, posOf(r.in), "the consumer waits on a channel of the queue that nothing ever sends to: an added item never wakes it")
		case unknown:
			c.undecided("D2", construct, posOf(r.in), "the capacity of the wake-up channel is not a constant make(chan) stored at construction: the lost-token shape cannot be decided")
		case r.blocking && held:
			c.fail("D2", construct, posOf(r.in), "the consumer blocks on the wake-up channel with the queue mutex held (the mutex is not released before the wait, or the waiting helper is called inside the critical section): Add needs the mutex to insert and to signal, so no item is ever added or handed over while the consumer waits")
		case unbuffered && tryIn != nil && !held:
			c.fail("D2", construct, posOf(r.in), "lost wake-up: the channel made in %s has capacity 0, %s signals it with a non-blocking send (select/default), and this receive starts after the queue mutex was released; an Add that runs between the consumer's unlock and this receive finds no receiver, drops its signal, and the consumer stays blocked although the queue is non-empty", c15Keys(makers), fnName(tryIn.fn))
		default:
			why := "the channel is buffered, a token sent while the consumer is not yet receiving is kept"
			if unbuffered && tryIn == nil {
				why = "every send is blocking, no token is dropped"
			} else if unbuffered {
				why = "the receive is not preceded by a release of the queue mutex"
			}
			c.ok("D2", construct, posOf(r.in), "%s", why)
		}
	}
}

// emptiness observations of fn: Len() feeding a branch, or Front()/Back() compared with nil
// feeding a branch.
func (s *c15Simple) emptinessTests(fn *ssa.Function) map[ssa.Instruction]bool {
	return s.emptinessTestsD(fn, 0)
}

func (s *c15Simple) emptinessTestsD(fn *ssa.Function, depth int) map[ssa.Instruction]bool {
	out := map[ssa.Instruction]bool{}
	for _, op := range s.byFn[fn] {
		v := op.in.Value()
		if v == nil {
			continue
		}
		switch op.method {
		case "Len":
			if c15FeedsIf(v, false, 0) {
				out[op.in] = true
			}
		case "Front", "Back":
			if c15FeedsIf(v, true, 0) {
				out[op.in] = true
			}
		}
	}
	if depth > 2 {
		return out
	}
	// a call of a package helper that observes emptiness on every path before it returns
	// (typically "take the front element if there is one") is such an observation
	for _, b := range fn.Blocks {
		for _, in := range b.Instrs {
			if g := s.pkgCallee(in); g != nil && g != fn && s.alwaysTests(g, depth+1) {
				out[in] = true
			}
		}
	}
	return out
}

func (s *c15Simple) alwaysTests(g *ssa.Function, depth int) bool {
	if s.allTest == nil {
		s.allTest = map[*ssa.Function]int{}
	}
	if v := s.allTest[g]; v != 0 {
		return v == 1
	}
	s.allTest[g] = 2
	tests := s.emptinessTestsD(g, depth)
	res := len(g.Blocks) > 0 && len(tests) > 0 && c15Search(g.Blocks[0], 0, c15Returns(g), tests, nil) == nil
	if res {
		s.allTest[g] = 1
	}
	return res
}

// c15FeedsIf: v reaches the condition of an If through comparisons / negations (needNil: the
// first comparison must be against nil).
func c15FeedsIf(v ssa.Value, needNil bool, depth int) bool {
	if depth > 3 || v.Referrers() == nil {
		return false
	}
	for _, r := range *v.Referrers() {
		switch u := r.(type) {
		case *ssa.If:
			if !needNil {
				return true
			}
		case *ssa.BinOp:
			switch u.Op {
			case token.EQL, token.NEQ, token.LSS, token.LEQ, token.GTR, token.GEQ:
				if needNil && !(isNilConst(u.X) || isNilConst(u.Y)) {
					continue
				}
				if c15FeedsIf(u, false, depth+1) {
					return true
				}
			}
		case *ssa.UnOp:
			if u.Op == token.NOT && !needNil && c15FeedsIf(u, false, depth+1) {
				return true
			}
		}
	}
	return false
}

// pkgCallee: the package function called by in (generic origin), or nil.
func (s *c15Simple) pkgCallee(in ssa.Instruction) *ssa.Function {
	ci, ok := in.(*ssa.Call)
	if !ok {
		return nil
	}
	f := staticCallee(ci.Common())
	if f == nil {
		return nil
	}
	if o := f.Origin(); o != nil {
		f = o
	}
	for _, g := range s.e.fns {
		if g == f {
			return f
		}
	}
	return nil
}

// removal targets of fn: Remove sites and calls of package functions that can remove without
// observing emptiness first.
func (s *c15Simple) removalTargets(fn *ssa.Function, depth int) map[ssa.Instruction]bool {
	out := map[ssa.Instruction]bool{}
	for _, op := range s.byFn[fn] {
		if op.method == "Remove" {
			out[op.in] = true
		}
	}
	if depth > 3 {
		return out
	}
	for _, b := range fn.Blocks {
		for _, in := range b.Instrs {
			if g := s.pkgCallee(in); g != nil && g != fn && s.unguardedRemoval(g, depth+1) {
				out[in] = true
			}
		}
	}
	return out
}

func (s *c15Simple) unguardedRemoval(g *ssa.Function, depth int) bool {
	if v := s.ungRem[g]; v != 0 {
		return v == 1
	}
	s.ungRem[g] = 2
	res := len(g.Blocks) > 0 && c15Search(g.Blocks[0], 0, s.removalTargets(g, depth), s.emptinessTests(g), nil) != nil
	if res {
		s.ungRem[g] = 1
	}
	return res
}

// callSitesOf: the call sites of fn inside the package.
func (e *c15Env) callSitesOf(fn *ssa.Function) []ssa.Instruction {
	var out []ssa.Instruction
	for _, g := range e.fns {
		for _, b := range g.Blocks {
			for _, x := range b.Instrs {
				ci, ok := x.(ssa.CallInstruction)
				if !ok {
					continue
				}
				f := staticCallee(ci.Common())
				if f == nil {
					continue
				}
				if o := f.Origin(); o != nil {
					f = o
				}
				if f == fn {
					out = append(out, x)
				}
			}
		}
	}
	return out
}

// liftWait: the instructions that stand for the wait in the functions that loop around it:
// the receive itself, and, when it sits in an unexported helper, the calls of that helper.
func (s *c15Simple) liftWait(in ssa.Instruction, depth int) []ssa.Instruction {
	out := []ssa.Instruction{in}
	fn := in.Parent()
	if obj := fn.Object(); depth < 2 && fn.Parent() == nil && (obj == nil || !obj.Exported()) {
		for _, cs := range s.e.callSitesOf(fn) {
			out = append(out, s.liftWait(cs, depth+1)...)
		}
	}
	return out
}

// deliveryTargets: the instructions of fn that take an item out of the list: Remove sites and
// calls of package functions that (transitively) contain one, guarded or not.
func (s *c15Simple) deliveryTargets(fn *ssa.Function) map[ssa.Instruction]bool {
	out := map[ssa.Instruction]bool{}
	for _, op := range s.byFn[fn] {
		if op.method == "Remove" {
			out[op.in] = true
		}
	}
	var removes func(g *ssa.Function, depth int) bool
	removes = func(g *ssa.Function, depth int) bool {
		for _, op := range s.byFn[g] {
			if op.method == "Remove" {
				return true
			}
		}
		if depth > 3 {
			return false
		}
		for _, b := range g.Blocks {
			for _, in := range b.Instrs {
				if h := s.pkgCallee(in); h != nil && h != g && removes(h, depth+1) {
					return true
				}
			}
		}
		return false
	}
	for _, b := range fn.Blocks {
		for _, in := range b.Instrs {
			if g := s.pkgCallee(in); g != nil && g != fn && removes(g, 1) {
				out[in] = true
			}
		}
	}
	return out
}

// D3: emptiness re-observed after every wake-up, before any removal.
func (s *c15Simple) ruleRecheck() {
	c := s.e.c
	for _, r := range s.recvs {
		if !r.blocking {
			continue
		}
		for _, site := range s.liftWait(r.in, 0) {
			fn := site.Parent()
			construct := fnName(fn) + "+re-check after wake-up"
			if hit := c15After(site, s.removalTargets(fn, 0), s.emptinessTests(fn)); hit != nil {
				c.fail("D3", construct, posOf(hit), "after the wake-up receive a removal from the list is reached without observing emptiness again (no Len() test, no nil-tested Front()): a wake-up caused by cancellation or by a stale token removes from an empty list (nil element) instead of waiting again")
			} else {
				c.ok("D3", construct, posOf(site), "every path from the wake-up to a removal passes a fresh emptiness test")
			}
		}
	}
}

// send sites of fn: direct sends on the wake-up channel and calls of package functions that
// send on every path.
func (s *c15Simple) sendSites(fn *ssa.Function, depth int) map[ssa.Instruction]bool {
	out := map[ssa.Instruction]bool{}
	for _, sd := range s.sends {
		if sd.fn == fn {
			out[sd.in] = true
		}
	}
	if depth > 3 {
		return out
	}
	for _, b := range fn.Blocks {
		for _, in := range b.Instrs {
			if g := s.pkgCallee(in); g != nil && g != fn && s.alwaysSends(g, depth+1) {
				out[in] = true
			}
		}
	}
	return out
}

func (s *c15Simple) alwaysSends(g *ssa.Function, depth int) bool {
	if v := s.mustSend[g]; v != 0 {
		return v == 1
	}
	s.mustSend[g] = 2
	res := len(g.Blocks) > 0 && c15Search(g.Blocks[0], 0, c15Returns(g), s.sendSites(g, depth), nil) == nil
	if res {
		s.mustSend[g] = 1
	}
	return res
}

// signalledAfter: every path from instruction at to the end of its function passes a wake-up
// send, or (unexported helper) every caller sends after the call.
func (s *c15Simple) signalledAfter(at ssa.Instruction, depth int) (bool, ssa.Instruction) {
	fn := at.Parent()
	sends := s.sendSites(fn, 0)
	esc := c15After(at, c15Returns(fn), sends)
	if esc == nil {
		return true, nil
	}
	// a send before the insertion, inside one uninterrupted critical section
	for sd := range sends {
		if !instrDominates(sd, at) || !s.e.holds(sd, s.locks, 'W') || !s.e.holds(at, s.locks, 'W') {
			continue
		}
		cont := true
		for _, in := range c15Between(sd, at) {
			if !s.e.holds(in, s.locks, 'W') {
				cont = false
			}
		}
		if cont {
			return true, nil
		}
	}
	if obj := fn.Object(); depth < 2 && (obj == nil || !obj.Exported()) {
		callers := 0
		for _, g := range s.e.fns {
			for _, b := range g.Blocks {
				for _, in := range b.Instrs {
					if s.pkgCallee(in) == fn {
						callers++
						if ok, _ := s.signalledAfter(in, depth+1); !ok {
							return false, esc
						}
					}
				}
			}
		}
		if callers > 0 {
			return true, nil
		}
	}
	return false, esc
}

// D4: insertion made visible before (or atomically with) the wake-up.
func (s *c15Simple) ruleSignalAfterInsert() {
	c := s.e.c
	for _, op := range s.ops {
		if op.method != "PushBack" && op.method != "PushFront" {
			continue
		}
		construct := fnName(op.fn) + "+wake-up after insert"
		if ok, esc := s.signalledAfter(op.in, 0); ok {
			c.ok("D4", construct, posOf(op.in), "every path from the insertion passes a wake-up send (or the send precedes it inside the same critical section)")
		} else {
			c.fail("D4", construct, posOf(esc), "an item is inserted and the function can finish without a wake-up send that follows the insertion (and no send precedes it inside the same uninterrupted critical section): a consumer that found the queue empty keeps waiting although the queue is non-empty")
		}
	}
}

func c15IsCtxCall(v ssa.Value, method string) *ssa.Call {
	call, ok := v.(*ssa.Call)
	if !ok {
		return nil
	}
	cc := call.Common()
	if cc.IsInvoke() && cc.Method.Name() == method && c15IsPkgType(cc.Value.Type(), "context", "Context") {
		return call
	}
	return nil
}

// D5: cancellation.
func (s *c15Simple) ruleCancel() {
	c := s.e.c
	for _, r := range s.recvs {
		if !r.blocking {
			continue
		}
		fn := r.fn
		hasCtx := false
		for _, p := range fn.Params {
			if c15IsPkgType(p.Type(), "context", "Context") {
				hasCtx = true
			}
		}
		if !hasCtx {
			continue // no cancellation contract for this wait
		}
		// (a) the wait also listens to ctx.Done()
		cA := fnName(fn) + "+cancellable wait"
		doneState := -1
		if r.sel != nil {
			for i, st := range r.sel.States {
				if st.Dir == types.RecvOnly && c15IsCtxCall(st.Chan, "Done") != nil {
					doneState = i
				}
			}
		}
		if doneState < 0 {
			c.fail("D5", cA, posOf(r.in), "the blocking wait on the wake-up channel has no case receiving from ctx.Done(): cancelling the context does not end the wait")
			continue
		}
		c.ok("D5", cA, posOf(r.in), "the wait selects on the wake-up channel and on ctx.Done()")

		doneEdges := c15SelectCaseEdges(r.sel, doneState)
		for _, site := range s.liftWait(r.in, 0) {
			s.cancelAt(site, site == r.in, doneEdges)
		}
	}
}

// cancelAt: D5 (b) and (c) for the wait instruction site (the select itself, or the call of
// the helper that contains it).
func (s *c15Simple) cancelAt(site ssa.Instruction, direct bool, doneEdges []edge) {
	c := s.e.c
	fn := site.Parent()
	// context tests of the function
	tests := map[ssa.Instruction]bool{}
	var cancelled []edge
	for _, b := range fn.Blocks {
		for _, in := range b.Instrs {
			if v, ok := in.(ssa.Value); ok {
				if call := c15IsCtxCall(v, "Err"); call != nil {
					ve := edgesOfVerdict(call)
					for _, f := range ve.Ifs {
						tests[f] = true
					}
					cancelled = append(cancelled, ve.Reject...)
				}
			}
			// select { case <-ctx.Done(): ...; default: } is a test of the context as well
			if sel, ok := in.(*ssa.Select); ok && !sel.Blocking {
				for i, st := range sel.States {
					if st.Dir == types.RecvOnly && c15IsCtxCall(st.Chan, "Done") != nil {
						if eds := c15SelectCaseEdges(sel, i); len(eds) > 0 {
							tests[sel] = true
							cancelled = append(cancelled, eds...)
						}
					}
				}
			}
		}
	}
	s.cancelBeforeDelivery(site, tests, cancelled)
	// search from the ways the wait ends by cancellation
	from := func(target, stop map[ssa.Instruction]bool) ssa.Instruction {
		if !direct {
			return c15After(site, target, stop)
		}
		for _, ed := range doneEdges {
			if h := c15Search(ed.To, 0, target, stop, nil); h != nil {
				return h
			}
		}
		return nil
	}
	// (b) the wait is not re-entered without a context test
	cB := fnName(fn) + "+context re-tested after cancelled wait"
	if direct && len(doneEdges) == 0 {
		c.undecided("D5", cB, posOf(site), "the branch taken for the ctx.Done() case of the select was not found")
	} else if hit := from(map[ssa.Instruction]bool{site: true}, tests); hit != nil {
		c.fail("D5", cB, posOf(hit), "after the ctx.Done() case the function can reach the same wait again without testing ctx.Err(): a cancelled WaitForItem spins/blocks instead of returning 'no item'")
	} else {
		c.ok("D5", cB, posOf(site), "every way back to the wait after the ctx.Done() case passes a ctx.Err() test")
	}
	// (c) exits taken on cancellation return zero item, false
	cC := fnName(fn) + "+cancelled exit returns no item"
	stop := map[ssa.Instruction]bool{site: true}
	for k := range tests {
		stop[k] = true
	}
	for k := range s.deliveryTargets(fn) {
		stop[k] = true
	}
	rets := map[*ssa.Return]bool{}
	for ri := range c15Returns(fn) {
		one := map[ssa.Instruction]bool{ri: true}
		found := from(one, stop) != nil
		for _, ed := range cancelled {
			if c15Search(ed.To, 0, one, stop, nil) != nil {
				found = true
			}
		}
		if found {
			rets[ri.(*ssa.Return)] = true
		}
	}
	if obj := fn.Object(); len(rets) == 0 && (obj == nil || !obj.Exported()) {
		return // helper that only parks: the exits are its callers'
	}
	if len(rets) == 0 {
		c.fail("D5", cC, posOf(site), "no return is reachable from the cancelled side of a ctx.Err() test or from the ctx.Done() case: a cancelled wait never returns")
		return
	}
	msg := ""
	var at ssa.Instruction
	for ret := range rets {
		for i, v := range ret.Results {
			leaves, _ := c15Leaves(v)
			for _, lf := range leaves {
				if !c15IsZeroConst(lf) && !s.noItemOnArrival(lf, ret) {
					at = ret
					if isBoolType(v.Type()) {
						msg = "the exit taken after cancellation can return true: a cancelled wait must return 'no item'"
					} else {
						msg = fmt.Sprintf("the exit taken after cancellation can return a non-zero result #%d: a cancelled wait must return the zero item", i)
					}
				}
			}
		}
	}
	if msg != "" {
		c.fail("D5", cC, posOf(at), "%s", msg)
	} else {
		c.ok("D5", cC, fn.Pos(), "the %d exit(s) taken after cancellation return the zero item and false", len(rets))
	}
}

// c15FalseOnArrival: every path from the definition of the boolean v to the return ret takes
// the false side of a test of v (so the value, as last stored, is false when ret is reached).
func c15FalseOnArrival(v ssa.Value, ret *ssa.Return) bool {
	def, ok := v.(ssa.Instruction)
	if !ok || !isBoolType(v.Type()) {
		return false
	}
	ve := edgesOfVerdict(v)
	if len(ve.Reject) == 0 {
		return false
	}
	cut := map[edge]bool{}
	for _, e := range ve.Reject {
		cut[e] = true
	}
	return def.Block() != ret.Block() && !reach(def.Block(), cut)[ret.Block()]
}

// noItemOnArrival: leaf value lf, as it arrives at the cancelled exit ret, is 'no item': a
// boolean that is false on arrival, or the item result of a package helper whose boolean
// result is false on arrival and which returns the zero item whenever it returns false.
func (s *c15Simple) noItemOnArrival(lf ssa.Value, ret *ssa.Return) bool {
	if isBoolType(lf.Type()) {
		return c15FalseOnArrival(lf, ret)
	}
	ex, ok := lf.(*ssa.Extract)
	if !ok {
		return false
	}
	call, ok := ex.Tuple.(*ssa.Call)
	if !ok {
		return false
	}
	g := s.pkgCallee(call)
	if g == nil {
		return false
	}
	res := g.Signature.Results()
	for bi := 0; bi < res.Len(); bi++ {
		if bi == ex.Index || !isBoolType(res.At(bi).Type()) {
			continue
		}
		sib := extractsOf(call, bi)
		if len(sib) != 1 || !c15FalseOnArrival(sib[0], ret) {
			continue
		}
		// the helper returns the zero item whenever its boolean may be false
		good := true
		for _, r := range returnsOf(g) {
			rr := retResults(r)
			if bi >= len(rr) || ex.Index >= len(rr) {
				good = false
				break
			}
			bl, bz := c15Leaves(rr[bi])
			mayFalse := bz
			for _, x := range bl {
				if b, ok := constBool(x); !ok || !b {
					mayFalse = true
				}
			}
			if !mayFalse {
				continue
			}
			il, _ := c15Leaves(rr[ex.Index])
			for _, x := range il {
				if !c15IsZeroConst(x) {
					good = false
				}
			}
		}
		if good {
			return true
		}
	}
	return false
}

// cancelBeforeDelivery: D5 (d). In the function that loops around the wait, an item is handed
// out only after the context was tested since the last blocking point (function entry or the
// wait), and the cancelled side of such a test hands out nothing. Otherwise a wait whose
// context is already cancelled keeps returning pending items.
func (s *c15Simple) cancelBeforeDelivery(site ssa.Instruction, tests map[ssa.Instruction]bool, cancelled []edge) {
	c := s.e.c
	fn := site.Parent()
	removals := s.deliveryTargets(fn)
	if obj := fn.Object(); len(removals) == 0 && (obj == nil || !obj.Exported()) {
		return // helper that only parks: items are handed out by its callers
	}
	cD := fnName(fn) + "+context tested before an item is handed out"
	if len(fn.Blocks) == 0 {
		return
	}
	if hit := c15Search(fn.Blocks[0], 0, removals, tests, nil); hit != nil {
		c.fail("D5", cD, posOf(hit), "from the function entry an item is removed and returned without any test of the context (ctx.Err(), or a non-blocking ctx.Done() case): a wait whose context is already cancelled returns (item, true) instead of 'no item' while items are pending")
		return
	}
	if hit := c15After(site, removals, tests); hit != nil {
		c.fail("D5", cD, posOf(hit), "after a wake-up an item is removed and returned without testing the context again: a consumer whose context was cancelled meanwhile is handed an item instead of 'no item'")
		return
	}
	stop := map[ssa.Instruction]bool{site: true}
	for k := range tests {
		stop[k] = true
	}
	for _, ed := range cancelled {
		if hit := c15Search(ed.To, 0, removals, stop, nil); hit != nil {
			c.fail("D5", cD, posOf(hit), "the cancelled side of the context test still reaches the removal of an item: cancellation is observed but an item is handed out nevertheless")
			return
		}
	}
	c.ok("D5", cD, fn.Pos(), "every path from the entry and from a wake-up to the removal of an item passes a test of the context, whose cancelled side removes nothing")
}

// c15SelectCaseEdges: the CFG edges taken when sel completes with the case of index k.
func c15SelectCaseEdges(sel *ssa.Select, k int) []edge {
	var out []edge
	for _, ex := range extractsOf(sel, 0) {
		if ex.Referrers() == nil {
			continue
		}
		for _, r := range *ex.Referrers() {
			bo, ok := r.(*ssa.BinOp)
			if !ok || bo.Op != token.EQL || bo.Referrers() == nil {
				continue
			}
			var other ssa.Value = bo.Y
			if bo.Y == ssa.Value(ex) {
				other = bo.X
			}
			if n, ok := constInt(other); !ok || int(n) != k {
				continue
			}
			for _, rr := range *bo.Referrers() {
				if f, ok := rr.(*ssa.If); ok {
					out = append(out, edge{f.Block(), f.Block().Succs[0]})
				}
			}
		}
	}
	return out
}

// ---------------------------------------------------------------------------
// PriorityQueue

type c15Prio struct {
	e        *c15Env
	named    *types.Named
	itemsIdx []int
	locks    []string
	heapM    map[string]*ssa.Function // heap.Interface method name -> method of the queue
}

const c15HeapPkg = "container/heap"

func (e *c15Env) runPriority(named *types.Named) {
	c := e.c
	p := &c15Prio{e: e, named: named, heapM: map[string]*ssa.Function{}}
	tname := "internal/queue." + named.Obj().Name()
	p.itemsIdx = c15FieldsWhere(named, func(t types.Type) bool { _, ok := t.Underlying().(*types.Slice); return ok })
	p.locks = c15LockClasses(named)
	if len(p.itemsIdx) == 0 || len(p.locks) == 0 {
		c.undecided("D6", tname, token.NoPos, "backing slice or mutex field of the priority queue not recognised")
		return
	}
	// heap.Interface method names from the library type
	var hi *types.Interface
	for _, imp := range e.w.typesPkg(c15PkgQueue).Imports() {
		if imp.Path() == c15HeapPkg {
			if tn, ok := imp.Scope().Lookup("Interface").(*types.TypeName); ok {
				hi, _ = tn.Type().Underlying().(*types.Interface)
			}
		}
	}
	if hi == nil {
		c.undecided("D6", tname, token.NoPos, "container/heap.Interface not imported by the queue package")
		return
	}
	for i := 0; i < hi.NumMethods(); i++ {
		name := hi.Method(i).Name()
		if fn := e.w.lookupMethod(c15PkgQueue, named.Obj().Name(), name); fn != nil && fn.Blocks != nil {
			p.heapM[name] = fn
			c.analysed(fn)
		} else {
			c.undecided("D6", tname+"."+name, token.NoPos, "heap.Interface method %s of the priority queue has no analysable body", name)
		}
	}
	if len(p.heapM) != hi.NumMethods() {
		return
	}
	p.ruleLess()
	p.ruleSwap()
	p.rulePush()
	p.rulePop()
	p.ruleHeapCalls()
	p.ruleDirectCalls()
	p.ruleItems()
	p.ruleAPI()
	p.ruleLen()
	p.ruleDrain()
}

func (p *c15Prio) isItems(v ssa.Value) bool {
	n, i, _ := c15FieldRef(v)
	return n != nil && n.Obj() == p.named.Obj() && c15HasInt(p.itemsIdx, i)
}

func (p *c15Prio) isHeapMethod(fn *ssa.Function) bool {
	for _, m := range p.heapM {
		if m == fn {
			return true
		}
	}
	return false
}

// itemsLoad: v is a load of the backing slice field.
func (p *c15Prio) itemsLoad(v ssa.Value) bool {
	u, ok := v.(*ssa.UnOp)
	if !ok || u.Op != token.MUL {
		return false
	}
	_, isFA := u.X.(*ssa.FieldAddr)
	return isFA && p.isItems(u.X)
}

// elemAddr: v is &items[idx]; returns idx.
func (p *c15Prio) elemAddr(v ssa.Value) (ssa.Value, bool) {
	ia, ok := v.(*ssa.IndexAddr)
	if !ok || !p.itemsLoad(ia.X) {
		return nil, false
	}
	return ia.Index, true
}

func c15ParamIndex(fn *ssa.Function, v ssa.Value) int {
	for i, q := range fn.Params {
		if ssa.Value(q) == v {
			return i
		}
	}
	return -1
}

// c15Num: a concrete integer (or boolean) value of a fixed width.
type c15Num struct {
	bits   uint64
	width  uint
	signed bool
}

func c15NumOf(t types.Type, bits uint64) (c15Num, bool) {
	bt, ok := t.Underlying().(*types.Basic)
	if !ok {
		return c15Num{}, false
	}
	if bt.Info()&types.IsBoolean != 0 {
		return c15Num{bits & 1, 1, false}, true
	}
	if bt.Info()&types.IsInteger == 0 {
		return c15Num{}, false
	}
	sz := types.SizesFor("gc", "amd64").Sizeof(bt)
	n := c15Num{width: uint(sz * 8), signed: bt.Info()&types.IsUnsigned == 0}
	n.bits = bits
	if n.width < 64 {
		n.bits &= (uint64(1) << n.width) - 1
	}
	return n, true
}

// signed interpretation (sign-extended to 64 bits)
func (n c15Num) int64() int64 {
	if n.width < 64 && n.signed && n.bits&(uint64(1)<<(n.width-1)) != 0 {
		return int64(n.bits | ^((uint64(1) << n.width) - 1))
	}
	return int64(n.bits)
}

func (n c15Num) less(m c15Num) bool {
	if n.signed {
		return n.int64() < m.int64()
	}
	return n.bits < m.bits
}

func c15Bool(b bool) c15Num {
	if b {
		return c15Num{1, 1, false}
	}
	return c15Num{0, 1, false}
}

// c15LessEval evaluates the body of Less for concrete counter values.
type c15LessEval struct {
	p      *c15Prio
	fn     *ssa.Function
	ci, cj uint64
	env    map[ssa.Value]c15Num
	items  map[ssa.Value]int // callee frames: parameters bound to items[i] (1) / items[j] (2)
	level  int               // inlining depth
	why    string
	at     ssa.Instruction
}

// itemOf: v is the queue element items[i] (1) or items[j] (2), 0 otherwise.
func (ev *c15LessEval) itemOf(v ssa.Value) int {
	for i := 0; i < 4; i++ {
		if k := ev.items[v]; k > 0 {
			return k
		}
		switch x := v.(type) {
		case *ssa.ChangeType:
			v = x.X
			continue
		case *ssa.MakeInterface:
			v = x.X
			continue
		case *ssa.ChangeInterface:
			v = x.X
			continue
		case *ssa.UnOp:
			if x.Op == token.MUL && ev.level == 0 {
				if idx, ok := ev.p.elemAddr(x.X); ok {
					if k := c15ParamIndex(ev.fn, idx); k == 1 || k == 2 {
						return k
					}
				}
			}
		}
		break
	}
	return 0
}

// counterIdx: call is <item>.Counter(); returns which item (1, 2) or 0.
func (ev *c15LessEval) counterIdx(call *ssa.Call) int {
	cc := call.Common()
	name := ""
	var recv ssa.Value
	if cc.IsInvoke() {
		name, recv = cc.Method.Name(), cc.Value
	} else if f := staticCallee(cc); f != nil && len(cc.Args) > 0 && f.Signature.Recv() != nil {
		name, recv = f.Name(), cc.Args[0]
	}
	if name != "Counter" { // method of the exported interface queue.ICounter
		return 0
	}
	return ev.itemOf(recv)
}

// inline evaluates a call of a module function with a body (a comparison helper): items and
// numbers are passed as arguments, depth <= 2.
func (ev *c15LessEval) inline(call *ssa.Call, depth int) (c15Num, bool, bool) {
	f := staticCallee(call.Common())
	if f == nil {
		return c15Num{}, false, false
	}
	if f.Blocks == nil {
		if o := f.Origin(); o != nil && o.Blocks != nil {
			f = o
		}
	}
	if pk := fnPkg(f); f.Blocks == nil || pk == nil || !strings.HasPrefix(pk.Path(), modulePath) || ev.level >= 2 {
		return c15Num{}, false, false
	}
	args := call.Common().Args
	if len(args) != len(f.Params) || f.Signature.Results().Len() != 1 {
		return c15Num{}, false, false
	}
	sub := &c15LessEval{p: ev.p, fn: f, ci: ev.ci, cj: ev.cj, env: map[ssa.Value]c15Num{}, items: map[ssa.Value]int{}, level: ev.level + 1}
	for i, a := range args {
		if k := ev.itemOf(a); k > 0 {
			sub.items[f.Params[i]] = k
			continue
		}
		w, at := ev.why, ev.at
		if n, ok := ev.val(a, depth+1); ok {
			sub.env[f.Params[i]] = n
		} else {
			ev.why, ev.at = w, at // an argument the helper may not need (the queue itself)
		}
	}
	n, ok := sub.runNum()
	if !ok {
		if ev.why == "" {
			ev.why, ev.at = "in helper "+f.Name()+": "+sub.why, sub.at
		}
		return c15Num{}, false, true
	}
	return n, true, true
}

func (ev *c15LessEval) fail(in ssa.Value, why string) (c15Num, bool) {
	if ev.why == "" {
		ev.why = why
		if i, ok := in.(ssa.Instruction); ok {
			ev.at = i
		}
	}
	return c15Num{}, false
}

func (ev *c15LessEval) val(v ssa.Value, depth int) (c15Num, bool) {
	if n, ok := ev.env[v]; ok {
		return n, true
	}
	if depth > 24 {
		return ev.fail(v, "expression too deep")
	}
	switch x := v.(type) {
	case *ssa.Const:
		if x.Value == nil {
			return c15Num{0, 64, false}, true // nil (error, pointer, interface)
		}
		switch x.Value.Kind() {
		case constant.Bool:
			return c15Bool(constant.BoolVal(x.Value)), true
		case constant.Int:
			if u, ok := constant.Uint64Val(x.Value); ok {
				return c15NumOf(x.Type(), u)
			}
			if i, ok := constant.Int64Val(x.Value); ok {
				return c15NumOf(x.Type(), uint64(i))
			}
		}
		return ev.fail(v, "constant not modelled")
	case *ssa.ChangeType:
		return ev.val(x.X, depth+1)
	case *ssa.Convert:
		n, ok := ev.val(x.X, depth+1)
		if !ok {
			return n, false
		}
		bits := n.bits
		if n.signed {
			bits = uint64(n.int64())
		}
		if r, ok := c15NumOf(x.Type(), bits); ok && r.width > 1 && n.width > 1 {
			return r, true
		}
		return ev.fail(v, "conversion to a non-integer type is not modelled")
	case *ssa.UnOp:
		n, ok := ev.val(x.X, depth+1)
		if !ok {
			return n, false
		}
		switch x.Op {
		case token.NOT:
			return c15Bool(n.bits == 0), true
		case token.SUB:
			return c15NumOf(x.Type(), -n.bits)
		case token.XOR:
			return c15NumOf(x.Type(), ^n.bits)
		}
		return ev.fail(v, "unary operator "+x.Op.String()+" not modelled")
	case *ssa.BinOp:
		a, ok := ev.val(x.X, depth+1)
		if !ok {
			return a, false
		}
		b, ok := ev.val(x.Y, depth+1)
		if !ok {
			return b, false
		}
		switch x.Op {
		case token.EQL:
			return c15Bool(a.bits == b.bits), true
		case token.NEQ:
			return c15Bool(a.bits != b.bits), true
		case token.LSS:
			return c15Bool(a.less(b)), true
		case token.GTR:
			return c15Bool(b.less(a)), true
		case token.LEQ:
			return c15Bool(!b.less(a)), true
		case token.GEQ:
			return c15Bool(!a.less(b)), true
		case token.ADD:
			return c15NumOf(x.Type(), a.bits+b.bits)
		case token.SUB:
			return c15NumOf(x.Type(), a.bits-b.bits)
		case token.MUL:
			return c15NumOf(x.Type(), a.bits*b.bits)
		case token.AND:
			return c15NumOf(x.Type(), a.bits&b.bits)
		case token.OR:
			return c15NumOf(x.Type(), a.bits|b.bits)
		case token.XOR:
			return c15NumOf(x.Type(), a.bits^b.bits)
		case token.AND_NOT:
			return c15NumOf(x.Type(), a.bits&^b.bits)
		case token.SHL:
			if b.bits >= 64 {
				return c15NumOf(x.Type(), 0)
			}
			return c15NumOf(x.Type(), a.bits<<b.bits)
		case token.SHR:
			sh := b.bits
			if sh > 63 {
				sh = 63
				if !a.signed {
					return c15NumOf(x.Type(), 0)
				}
			}
			if a.signed {
				return c15NumOf(x.Type(), uint64(a.int64()>>sh))
			}
			return c15NumOf(x.Type(), a.bits>>sh)
		}
		return ev.fail(v, "binary operator "+x.Op.String()+" not modelled")
	case *ssa.Call:
		switch ev.counterIdx(x) {
		case 1:
			return c15NumOf(x.Type(), ev.ci)
		case 2:
			return c15NumOf(x.Type(), ev.cj)
		}
		if n, ok, tried := ev.inline(x, depth); tried {
			return n, ok
		}
		cc := x.Common()
		if k := calleeKey(cc); (k == "cmp.Compare" || k == "cmp.Less") && len(cc.Args) == 2 {
			a, ok := ev.val(cc.Args[0], depth+1)
			if !ok {
				return a, false
			}
			b, ok := ev.val(cc.Args[1], depth+1)
			if !ok {
				return b, false
			}
			if k == "cmp.Less" {
				return c15Bool(a.less(b)), true
			}
			r := uint64(0)
			if a.less(b) {
				r = ^uint64(0)
			} else if b.less(a) {
				r = 1
			}
			return c15NumOf(x.Type(), r)
		}
		return ev.fail(v, "call other than items[i].Counter() / items[j].Counter(), cmp.Compare/Less or a module helper with a body")
	}
	return ev.fail(v, fmt.Sprintf("%T not modelled", v))
}

// run interprets the function; returns the boolean result.
func (ev *c15LessEval) run() (bool, bool) {
	n, ok := ev.runNum()
	return n.bits != 0, ok && n.width == 1
}

// runNum interprets the function (loop-free up to the step budget) and returns its result.
func (ev *c15LessEval) runNum() (c15Num, bool) {
	if ev.env == nil {
		ev.env = map[ssa.Value]c15Num{}
	}
	b, prev := ev.fn.Blocks[0], (*ssa.BasicBlock)(nil)
	for steps := 0; steps < 64; steps++ {
		// phis of the block, from the edge taken
		if prev != nil {
			idx := -1
			for i, pr := range b.Preds {
				if pr == prev {
					idx = i
				}
			}
			vals := map[ssa.Value]c15Num{}
			for _, in := range b.Instrs {
				ph, ok := in.(*ssa.Phi)
				if !ok {
					break
				}
				if idx < 0 {
					return c15Num{}, false
				}
				n, ok := ev.val(ph.Edges[idx], 0)
				if !ok {
					return c15Num{}, false
				}
				vals[ph] = n
			}
			for k, n := range vals {
				ev.env[k] = n
			}
		}
		last := b.Instrs[len(b.Instrs)-1]
		switch t := last.(type) {
		case *ssa.Return:
			if len(t.Results) != 1 {
				return c15Num{}, false
			}
			return ev.val(t.Results[0], 0)
		case *ssa.If:
			n, ok := ev.val(t.Cond, 0)
			if !ok {
				return c15Num{}, false
			}
			prev = b
			if n.bits != 0 {
				b = b.Succs[0]
			} else {
				b = b.Succs[1]
			}
		case *ssa.Jump:
			prev, b = b, b.Succs[0]
		default:
			ev.fail(nil, "control flow not modelled")
			ev.at = last
			return c15Num{}, false
		}
	}
	ev.fail(nil, "evaluation did not terminate")
	return c15Num{}, false
}

// D6 Less: evaluate the function on a small domain of counter pairs that includes values far
// apart (counters are uint64 taken from a remote peer's headers).
func (p *c15Prio) ruleLess() {
	c := p.e.c
	fn := p.heapM["Less"]
	construct := fnName(fn) + "+order by counter"
	if len(fn.Params) != 3 || len(fn.Blocks) == 0 {
		c.undecided("D6", construct, fn.Pos(), "unexpected signature")
		return
	}
	dom := []uint64{0, 1, 2, 1<<63 - 1, 1 << 63, 1<<63 + 1, 1<<64 - 2, 1<<64 - 1}
	var wrongLT, wrongGT, nLT, nGT, nearBad int
	first := ""
	eqTrue := false
	for _, a := range dom {
		for _, b := range dom {
			ev := &c15LessEval{p: p, fn: fn, ci: a, cj: b}
			res, ok := ev.run()
			if !ok {
				at := fn.Pos()
				if ev.at != nil {
					at = posOf(ev.at)
				}
				why := ev.why
				if why == "" {
					why = "result is not a boolean the rule can evaluate"
				}
				c.undecided("D6", construct, at, "Less could not be evaluated on concrete counters: %s", why)
				return
			}
			bad := false
			switch {
			case a < b:
				nLT++
				if !res {
					wrongLT++
					bad = true
				}
			case a > b:
				nGT++
				if res {
					wrongGT++
					bad = true
				}
			default:
				eqTrue = eqTrue || res
			}
			if bad {
				d := a - b
				if a < b {
					d = b - a
				}
				if d < 1<<62 {
					nearBad++
				}
				if first == "" {
					first = fmt.Sprintf("Less(i,j) with counter(i)=%d, counter(j)=%d is %v", a, b, res)
				}
			}
		}
	}
	switch {
	case wrongLT == 0 && wrongGT == 0:
		c.ok("D6", construct, fn.Pos(), "Less evaluated on %d pairs of counters (including values 2^63 and more apart): true for every counter(i)<counter(j), false for every counter(i)>counter(j) (equal counters: %v)", len(dom)*len(dom), eqTrue)
	case nearBad == 0:
		c.fail("D6", construct, fn.Pos(), "Less agrees with '<' on counters that are close but not on counters 2^63 or more apart (%d of %d ordered pairs wrong, e.g. %s): the comparison is not a total order on uint64 counters (a signed-difference/wrapping comparison), so with a far-away counter from a peer the heap no longer yields the smallest counter", wrongLT+wrongGT, nLT+nGT, first)
	default:
		c.fail("D6", construct, fn.Pos(), "Less is not 'counter(i) < counter(j)': wrong on %d of %d pairs with counter(i)<counter(j) and %d of %d pairs with counter(i)>counter(j) (e.g. %s); a min-heap by counter needs true for '<' and false for '>': Next would not yield the pending item with the smallest counter", wrongLT, nLT, wrongGT, nGT, first)
	}
}

// D6 Swap
func (p *c15Prio) ruleSwap() {
	c := p.e.c
	fn := p.heapM["Swap"]
	construct := fnName(fn) + "+exchange"
	pairs := map[[2]int]bool{}
	firstStore := -1
	lateLoad := false
	n := 0
	for _, b := range fn.Blocks {
		for _, in := range b.Instrs {
			n++
			switch x := in.(type) {
			case *ssa.Store:
				idx, ok := p.elemAddr(x.Addr)
				if !ok {
					continue
				}
				if firstStore < 0 {
					firstStore = n
				}
				src := -1
				if ld, ok := x.Val.(*ssa.UnOp); ok && ld.Op == token.MUL {
					if sidx, ok := p.elemAddr(ld.X); ok {
						src = c15ParamIndex(fn, sidx)
					}
				}
				pairs[[2]int{c15ParamIndex(fn, idx), src}] = true
			case *ssa.UnOp:
				if x.Op == token.MUL {
					if _, ok := p.elemAddr(x.X); ok && firstStore >= 0 {
						lateLoad = true
					}
				}
			}
		}
	}
	if len(fn.Blocks) == 1 && len(pairs) == 2 && pairs[[2]int{1, 2}] && pairs[[2]int{2, 1}] && !lateLoad {
		c.ok("D6", construct, fn.Pos(), "items[i] and items[j] are exchanged (both read before either is written)")
	} else {
		c.fail("D6", construct, fn.Pos(), "Swap does not exchange items[i] and items[j] (both old values read first, each written to the other index): container/heap then loses or duplicates items while sifting")
	}
}

// D6 Push appends its argument
func (p *c15Prio) rulePush() {
	c := p.e.c
	fn := p.heapM["Push"]
	construct := fnName(fn) + "+append"
	good, stores := false, 0
	for _, b := range fn.Blocks {
		for _, in := range b.Instrs {
			st, ok := in.(*ssa.Store)
			if !ok || !p.isItems(st.Addr) {
				continue
			}
			if _, isFA := st.Addr.(*ssa.FieldAddr); !isFA {
				continue
			}
			stores++
			call, ok := st.Val.(*ssa.Call)
			if !ok || calleeKey(call.Common()) != "builtin.append" || len(call.Common().Args) != 2 {
				continue
			}
			if !p.itemsLoad(call.Common().Args[0]) {
				continue // not appended at the end of the existing items
			}
			// the appended slice holds exactly the argument
			sl, ok := call.Common().Args[1].(*ssa.Slice)
			if !ok {
				continue
			}
			al, ok := sl.X.(*ssa.Alloc)
			if !ok || al.Referrers() == nil {
				continue
			}
			if arr, ok := al.Type().Underlying().(*types.Pointer).Elem().Underlying().(*types.Array); !ok || arr.Len() != 1 {
				continue
			}
			for _, r := range *al.Referrers() {
				ia, ok := r.(*ssa.IndexAddr)
				if !ok || ia.Referrers() == nil {
					continue
				}
				for _, rr := range *ia.Referrers() {
					if s2, ok := rr.(*ssa.Store); ok && s2.Addr == ssa.Value(ia) {
						leaves, _ := c15Leaves(s2.Val)
						if len(leaves) == 1 && len(fn.Params) == 2 && leaves[0] == ssa.Value(fn.Params[1]) {
							good = true
						}
					}
				}
			}
		}
	}
	if good && stores == 1 {
		c.ok("D6", construct, fn.Pos(), "Push stores append(items, x) back into the backing slice")
	} else {
		c.fail("D6", construct, fn.Pos(), "Push does not (only) store append(items, x): container/heap.Push expects the new element at index Len()-1 and sifts it up from there; anything else breaks the heap order or loses the item")
	}
}

// lastIndex: v is len(items)-1
func (p *c15Prio) lastIndex(v ssa.Value) bool {
	bo, ok := v.(*ssa.BinOp)
	if !ok || bo.Op != token.SUB {
		return false
	}
	if k, ok := constInt(bo.Y); !ok || k != 1 {
		return false
	}
	leaves, _ := c15Leaves(bo.X)
	if len(leaves) != 1 {
		return false
	}
	call, ok := leaves[0].(*ssa.Call)
	return ok && calleeKey(call.Common()) == "builtin.len" && len(call.Common().Args) == 1 && p.itemsLoad(call.Common().Args[0])
}

// D6 Pop returns and removes the last element
func (p *c15Prio) rulePop() {
	c := p.e.c
	fn := p.heapM["Pop"]
	construct := fnName(fn) + "+remove last"
	// returned value
	retOK, nret := true, 0
	for _, r := range returnsOf(fn) {
		if len(r.Results) != 1 {
			continue
		}
		leaves, _ := c15Leaves(retResults(r)[0])
		for _, lf := range leaves {
			if c15IsZeroConst(lf) {
				continue // empty queue
			}
			nret++
			ld, ok := lf.(*ssa.UnOp)
			if !ok || ld.Op != token.MUL {
				retOK = false
				continue
			}
			idx, ok := p.elemAddr(ld.X)
			if !ok || !p.lastIndex(idx) {
				retOK = false
			}
		}
	}
	// truncation
	truncOK, nst := true, 0
	for _, b := range fn.Blocks {
		for _, in := range b.Instrs {
			st, ok := in.(*ssa.Store)
			if !ok {
				continue
			}
			if _, isFA := st.Addr.(*ssa.FieldAddr); !isFA || !p.isItems(st.Addr) {
				continue
			}
			nst++
			sl, ok := st.Val.(*ssa.Slice)
			if !ok || !p.itemsLoad(sl.X) || sl.Max != nil || sl.High == nil || !p.lastIndex(sl.High) {
				truncOK = false
				continue
			}
			if sl.Low != nil {
				if k, ok := constInt(sl.Low); !ok || k != 0 {
					truncOK = false
				}
			}
		}
	}
	switch {
	case nret == 0 || !retOK:
		c.fail("D6", construct, fn.Pos(), "Pop does not return items[len(items)-1]: container/heap.Pop moves the minimum to the last index before calling Pop, so any other element returned is not the item with the smallest counter")
	case nst != 1 || !truncOK:
		c.fail("D6", construct, fn.Pos(), "Pop does not shorten the backing slice to items[:len(items)-1]: the returned item stays queued (duplicate) or another item is dropped")
	default:
		c.ok("D6", construct, fn.Pos(), "Pop returns items[len-1] and stores items[:len-1]")
	}
}

// heapCallOn: in is a call of container/heap.<name> whose heap argument is a priority queue.
func (p *c15Prio) heapCallOn(in ssa.Instruction) (string, ssa.Value) {
	ci, ok := in.(ssa.CallInstruction)
	if !ok {
		return "", nil
	}
	cc := ci.Common()
	key := calleeKey(cc)
	if !strings.HasPrefix(key, c15HeapPkg+".") || len(cc.Args) == 0 {
		return "", nil
	}
	leaves, _ := c15Leaves(cc.Args[0])
	for _, lf := range leaves {
		if n := c15Named(lf.Type()); n != nil && n.Obj() == p.named.Obj() {
			return strings.TrimPrefix(key, c15HeapPkg+"."), lf
		}
	}
	return "", nil
}

// D6 container/heap operations run under the write lock
func (p *c15Prio) ruleHeapCalls() {
	c := p.e.c
	n := 0
	for _, fn := range p.e.fns {
		for _, b := range fn.Blocks {
			for _, in := range b.Instrs {
				name, q := p.heapCallOn(in)
				if name == "" {
					continue
				}
				n++
				c.analysed(fn)
				construct := fnName(fn) + "+heap." + name
				if _, fresh := q.(*ssa.Alloc); fresh {
					c.ok("D6", construct, posOf(in), "heap.%s on a queue allocated in this function (not yet shared)", name)
				} else if p.e.holds(in, p.locks, 'W') {
					c.ok("D6", construct, posOf(in), "heap.%s with %s write-held", name, strings.Join(p.locks, "/"))
				} else {
					c.fail("D6", construct, posOf(in), "heap.%s re-arranges the backing slice without the write lock %s held: concurrent Add/Next lose or duplicate items and break the heap order", name, strings.Join(p.locks, "/"))
				}
			}
		}
	}
	c.count("PriorityQueue container/heap call sites", n)
}

// module call sites of a heap.Interface method of the queue (generic body or instantiation)
func (p *c15Prio) moduleCallsOf(m *ssa.Function) []callSite {
	var out []callSite
	key := funcKey(m)
	all := append([]*ssa.Function{}, p.e.fns...)
	for _, fn := range p.e.w.ModFuncs {
		if pk := fnPkg(fn); pk != nil && pk.Path() == c15PkgQueue {
			continue // generic bodies of the package are in e.fns; instantiations repeat them
		}
		all = append(all, fn)
	}
	for _, fn := range all {
		for _, b := range fn.Blocks {
			for _, in := range b.Instrs {
				ci, ok := in.(ssa.CallInstruction)
				if !ok {
					continue
				}
				if f := staticCallee(ci.Common()); f != nil && funcKey(f) == key {
					out = append(out, callSite{fn, ci})
				}
			}
		}
	}
	return out
}

// D6 the mutating heap.Interface methods are only called through container/heap
func (p *c15Prio) ruleDirectCalls() {
	c := p.e.c
	for _, name := range []string{"Push", "Pop", "Swap"} {
		m := p.heapM[name]
		if m == nil {
			continue
		}
		construct := fnName(m) + "+called only through container/heap"
		sites := p.moduleCallsOf(m)
		if len(sites) == 0 {
			c.ok("D6", construct, m.Pos(), "no module code calls %s directly", name)
			continue
		}
		cs := sites[0]
		c.fail("D6", construct, posOf(cs.Instr), "%s calls the heap.Interface method %s directly instead of container/heap.%s: the element is appended/taken at the end of the slice without sifting, so the queue no longer yields the smallest counter", fnName(cs.Caller), name, name)
	}
}

// D6 backing slice: written only by the heap.Interface methods, read under the lock
func (p *c15Prio) ruleItems() {
	c := p.e.c
	for _, fn := range p.e.fns {
		if p.isHeapMethod(fn) {
			continue
		}
		var refs []*ssa.FieldAddr
		fresh := true
		for _, b := range fn.Blocks {
			for _, in := range b.Instrs {
				if fa, ok := in.(*ssa.FieldAddr); ok && p.isItems(fa) {
					refs = append(refs, fa)
					if _, isAlloc := fa.X.(*ssa.Alloc); !isAlloc {
						fresh = false
					}
				}
			}
		}
		if len(refs) == 0 || fresh {
			continue // constructor initialising a new queue
		}
		c.analysed(fn)
		construct := fnName(fn) + "+backing slice access"
		msg := ""
		var at ssa.Instruction
		for _, fa := range refs {
			if fa.Referrers() == nil {
				continue
			}
			for _, r := range *fa.Referrers() {
				switch u := r.(type) {
				case *ssa.Store:
					if u.Addr == ssa.Value(fa) {
						msg, at = "the backing slice is replaced outside the heap.Interface methods: pending items are lost or the heap order is broken", u
					}
				case *ssa.UnOp:
					if !p.e.holds(u, p.locks, 'R') {
						msg, at = "the backing slice is read without the queue lock held", u
					}
					if u.Referrers() != nil {
						for _, rr := range *u.Referrers() {
							if ia, ok := rr.(*ssa.IndexAddr); ok && ia.Referrers() != nil {
								for _, r3 := range *ia.Referrers() {
									if s3, ok := r3.(*ssa.Store); ok && s3.Addr == ssa.Value(ia) {
										msg, at = "an element of the backing slice is overwritten outside the heap.Interface methods: the heap order is broken or an item is lost", s3
									}
								}
							}
						}
					}
				}
			}
		}
		if msg != "" {
			c.fail("D6", construct, posOf(at), "%s", msg)
		} else {
			c.ok("D6", construct, fn.Pos(), "reads the backing slice under the lock, never writes it")
		}
	}
	// read-only heap.Interface methods called by module code need the lock
	for _, name := range []string{"Len", "Less"} {
		m := p.heapM[name]
		for _, cs := range p.moduleCallsOf(m) {
			if p.isHeapMethod(cs.Caller) {
				continue
			}
			construct := fnName(cs.Caller) + "+call of " + name
			c.check(p.e.holds(cs.Instr, p.locks, 'R'), "D6", construct, posOf(cs.Instr),
				name+" is called with the queue lock held",
				name+" reads the backing slice but is called without the queue lock held: races with Add/Next")
		}
	}
}

// D6 exported API: Add pushes through heap.Push on every path; items handed out come from heap.Pop
func (p *c15Prio) ruleAPI() {
	c := p.e.c
	tn := p.named.Obj().Name()
	if add := p.e.w.lookupMethod(c15PkgQueue, tn, "Add"); add == nil || add.Blocks == nil || len(add.Params) != 2 {
		c.undecided("D6", "internal/queue."+tn+".Add", token.NoPos, "exported method Add(item) not found")
	} else {
		c.analysed(add)
		construct := fnName(add) + "+item pushed through container/heap"
		pushes := map[ssa.Instruction]bool{}
		for _, b := range add.Blocks {
			for _, in := range b.Instrs {
				if name, _ := p.heapCallOn(in); name == "Push" {
					args := in.(ssa.CallInstruction).Common().Args
					if len(args) == 2 {
						if lv, _ := c15Leaves(args[1]); len(lv) == 1 && lv[0] == ssa.Value(add.Params[1]) {
							pushes[in] = true
						}
					}
				}
			}
		}
		for _, b := range add.Blocks {
			for _, in := range b.Instrs {
				for _, cl := range p.e.closuresRunAt(in) {
					// the closure is run on every path of the helper: it must push on every path
					inner := map[ssa.Instruction]bool{}
					for _, cb := range cl.Blocks {
						for _, x := range cb.Instrs {
							if name, _ := p.heapCallOn(x); name == "Push" {
								args := x.(ssa.CallInstruction).Common().Args
								if len(args) == 2 {
									if lv, _ := c15Leaves(args[1]); len(lv) == 1 && c15CapturedParam(lv[0]) == add.Params[1] {
										inner[x] = true
									}
								}
							}
						}
					}
					if len(cl.Blocks) > 0 && len(inner) > 0 && c15Search(cl.Blocks[0], 0, c15Returns(cl), inner, nil) == nil {
						pushes[in] = true
					}
				}
			}
		}
		if esc := c15Search(add.Blocks[0], 0, c15Returns(add), pushes, nil); esc != nil {
			c.fail("D6", construct, posOf(esc), "Add can return without container/heap.Push(queue, item): the item is lost or is stored without being sifted into heap order")
		} else {
			c.ok("D6", construct, add.Pos(), "every path of Add passes heap.Push(queue, item)")
		}
	}
	isPop := func(v ssa.Value) bool {
		in, ok := v.(ssa.Instruction)
		if !ok {
			return false
		}
		name, _ := p.heapCallOn(in)
		return name == "Pop"
	}
	for _, name := range []string{"Next", "NextAll"} {
		fn := p.e.w.lookupMethod(c15PkgQueue, tn, name)
		if fn == nil || fn.Blocks == nil {
			c.undecided("D6", "internal/queue."+tn+"."+name, token.NoPos, "exported method %s not found", name)
			continue
		}
		c.analysed(fn)
		construct := fnName(fn) + "+items handed out come from container/heap.Pop"
		var outs []ssa.Value
		var at ssa.Instruction
		isItem := func(t types.Type) bool { _, ok := t.(*types.TypeParam); return ok }
		for _, r := range returnsOf(fn) {
			for _, v := range retResults(r) {
				if isItem(v.Type()) {
					outs, at = append(outs, v), r
				}
			}
		}
		for _, b := range fn.Blocks {
			for _, in := range b.Instrs {
				if call, ok := in.(*ssa.Call); ok && !call.Common().IsInvoke() && c15ParamIndex(fn, call.Common().Value) > 0 {
					for _, a := range call.Common().Args {
						if isItem(a.Type()) {
							outs, at = append(outs, a), call
						}
					}
				}
			}
		}
		if len(outs) == 0 {
			c.undecided("D6", construct, fn.Pos(), "no item-typed result or callback argument found")
			continue
		}
		bad := ""
		pops := 0
		for _, v := range outs {
			leaves, _ := c15Leaves(v)
			for _, lf := range leaves {
				switch {
				case c15IsZeroConst(lf):
				case isPop(lf):
					pops++
				default:
					bad = lf.String()
				}
			}
		}
		switch {
		case bad != "":
			c.fail("D6", construct, posOf(at), "an item handed out by %s is not the result of container/heap.Pop (it is %s): it is not the pending item with the smallest counter, or it is not removed from the queue", name, bad)
		case pops == 0:
			c.fail("D6", construct, posOf(at), "%s never hands out the result of container/heap.Pop: pending items are never yielded", name)
		default:
			c.ok("D6", construct, fn.Pos(), "every item handed out is the result of heap.Pop")
		}
	}
}

// D6 Len returns the length of the backing slice
func (p *c15Prio) ruleLen() {
	c := p.e.c
	fn := p.heapM["Len"]
	construct := fnName(fn) + "+length of the backing slice"
	good, n := true, 0
	for _, r := range returnsOf(fn) {
		for _, v := range retResults(r) {
			leaves, zero := c15Leaves(v)
			if zero {
				good = false
			}
			for _, lf := range leaves {
				n++
				call, ok := lf.(*ssa.Call)
				if !ok || calleeKey(call.Common()) != "builtin.len" || len(call.Common().Args) != 1 || !p.itemsLoad(call.Common().Args[0]) {
					good = false
				}
			}
		}
	}
	if good && n > 0 {
		c.ok("D6", construct, fn.Pos(), "Len returns len(items)")
	} else {
		c.fail("D6", construct, fn.Pos(), "Len does not return len(items): container/heap sifts over the wrong range (items beyond it are never ordered or yielded) and drain loops bounded by Len stop early")
	}
}

// D6 NextAll drains the queue: concrete interpretation for small queue sizes.
func (p *c15Prio) ruleDrain() {
	c := p.e.c
	tn := p.named.Obj().Name()
	fn := p.e.w.lookupMethod(c15PkgQueue, tn, "NextAll")
	if fn == nil || fn.Blocks == nil {
		return // reported by the API rule
	}
	construct := fnName(fn) + "+drains the queue"
	lenKey := funcKey(p.heapM["Len"])
	for n := 0; n <= 5; n++ {
		ev := &c15LessEval{p: p, fn: fn, env: map[ssa.Value]c15Num{}}
		mem := map[*ssa.Alloc]c15Num{}
		count, handed, popped := n, 0, 0
		try := func(v ssa.Value) (c15Num, bool) {
			w, a := ev.why, ev.at
			r, ok := ev.val(v, 0)
			if !ok {
				ev.why, ev.at = w, a
			}
			return r, ok
		}
		b, prev := fn.Blocks[0], (*ssa.BasicBlock)(nil)
		done := false
		for steps := 0; steps < 400 && !done; steps++ {
			if prev != nil {
				idx := -1
				for i, pr := range b.Preds {
					if pr == prev {
						idx = i
					}
				}
				vals := map[ssa.Value]c15Num{}
				var unknown []ssa.Value
				for _, in := range b.Instrs {
					ph, ok := in.(*ssa.Phi)
					if !ok {
						break
					}
					if r, ok := try(ph.Edges[idx]); ok && idx >= 0 {
						vals[ph] = r
					} else {
						unknown = append(unknown, ph)
					}
				}
				for _, u := range unknown {
					delete(ev.env, u)
				}
				for k, r := range vals {
					ev.env[k] = r
				}
			}
			var next *ssa.BasicBlock
			for _, in := range b.Instrs {
				switch x := in.(type) {
				case *ssa.Phi:
				case *ssa.Alloc:
					mem[x] = c15Num{0, 64, false}
				case *ssa.Store:
					if al, ok := x.Addr.(*ssa.Alloc); ok {
						if r, ok := try(x.Val); ok {
							mem[al] = r
						} else {
							delete(mem, al)
						}
					}
				case *ssa.UnOp:
					delete(ev.env, x)
					if al, ok := x.X.(*ssa.Alloc); ok && x.Op == token.MUL {
						if r, ok := mem[al]; ok {
							ev.env[x] = r
						}
					}
				case *ssa.Call:
					delete(ev.env, x)
					cc := x.Common()
					key := calleeKey(cc)
					hname, _ := p.heapCallOn(x)
					switch {
					case key == "builtin.len" && len(cc.Args) == 1 && p.itemsLoad(cc.Args[0]):
						ev.env[x], _ = c15NumOf(x.Type(), uint64(count))
					case !cc.IsInvoke() && staticCallee(cc) != nil && funcKey(staticCallee(cc)) == lenKey:
						ev.env[x], _ = c15NumOf(x.Type(), uint64(count))
					case hname == "Pop" || hname == "Remove":
						if count == 0 {
							c.fail("D6", construct, posOf(x), "with %d queued item(s) NextAll calls heap.%s on an empty queue (Swap(0,-1) panics): the loop does not pop exactly one item per emptiness test", n, hname)
							return
						}
						count--
						popped++
					case hname == "Push":
						count++
					case !cc.IsInvoke() && c15ParamIndex(fn, cc.Value) > 0:
						handed++
						ev.env[x] = c15Num{0, 64, false} // the callback reports no error
					}
				case *ssa.BinOp, *ssa.Convert, *ssa.ChangeType:
					v := in.(ssa.Value)
					delete(ev.env, v)
					if r, ok := try(v); ok {
						ev.env[v] = r
					}
				case *ssa.If:
					r, ok := ev.val(x.Cond, 0)
					if !ok {
						c.undecided("D6", construct, posOf(x), "NextAll could not be interpreted: a branch condition does not depend only on the queue length, loop counters and the callback's result (%s)", ev.why)
						return
					}
					if r.bits != 0 {
						next = b.Succs[0]
					} else {
						next = b.Succs[1]
					}
				case *ssa.Jump:
					next = b.Succs[0]
				case *ssa.Return:
					done = true
					if len(x.Results) != 1 {
						c.undecided("D6", construct, posOf(x), "NextAll does not return a single error")
						return
					}
					r, ok := ev.val(x.Results[0], 0)
					if !ok {
						c.undecided("D6", construct, posOf(x), "NextAll could not be interpreted: the returned error is not determined by the callback's result (%s)", ev.why)
						return
					}
					if r.bits != 0 {
						c.undecided("D6", construct, posOf(x), "NextAll returns a non-nil error although the callback reported none")
						return
					}
					if count != 0 {
						c.fail("D6", construct, posOf(x), "NextAll returns nil with %d of %d queued item(s) still in the queue (the callback never failed): the drain loop stops early - e.g. a bound compared with a length that shrinks while the index grows - so parked messages above the lowest counters are never handed over, while callers treat a nil return as 'queue drained'", count, n)
						return
					}
					if handed != popped {
						c.fail("D6", construct, posOf(x), "NextAll pops %d item(s) of %d but hands only %d to the callback: popped items are lost", popped, n, handed)
						return
					}
				case *ssa.Panic:
					c.undecided("D6", construct, posOf(x), "NextAll panics in the interpreted run")
					return
				}
			}
			if !done {
				if next == nil {
					c.undecided("D6", construct, fn.Pos(), "control flow of NextAll not modelled")
					return
				}
				prev, b = b, next
			}
		}
		if !done {
			c.fail("D6", construct, fn.Pos(), "with %d queued item(s) and a callback that never fails NextAll does not return within the interpretation budget: the drain loop does not make progress", n)
			return
		}
	}
	c.ok("D6", construct, fn.Pos(), "interpreted for 0..5 queued items with a callback that never fails: returns nil only with the queue empty, one heap.Pop per emptiness test, every popped item handed to the callback")
}

// ---------------------------------------------------------------------------
// D2 (token accounting): a consumed token is re-checked before the consumer blocks again.

// lockedTests: emptiness observations of fn made with the queue mutex held.
func (s *c15Simple) lockedTests(fn *ssa.Function) map[ssa.Instruction]bool {
	out := map[ssa.Instruction]bool{}
	for in := range s.emptinessTests(fn) {
		if s.e.holds(in, s.locks, 'W') {
			out[in] = true
		}
	}
	return out
}

// blockTargets: the instructions of fn at which the consumer can block on the wake-up channel
// without a fresh emptiness test: blocking receives, and calls of package functions that
// reach one from their entry without such a test.
func (s *c15Simple) blockTargets(fn *ssa.Function, depth int) map[ssa.Instruction]bool {
	out := map[ssa.Instruction]bool{}
	for _, r := range s.recvs {
		if r.fn == fn && r.blocking {
			out[r.in] = true
		}
	}
	if depth > 3 {
		return out
	}
	for _, b := range fn.Blocks {
		for _, in := range b.Instrs {
			if g := s.pkgCallee(in); g != nil && g != fn && s.mayBlockUntested(g, depth+1) {
				out[in] = true
			}
		}
	}
	return out
}

func (s *c15Simple) mayBlockUntested(g *ssa.Function, depth int) bool {
	if s.blockUnt == nil {
		s.blockUnt = map[*ssa.Function]int{}
	}
	if v := s.blockUnt[g]; v != 0 {
		return v == 1
	}
	s.blockUnt[g] = 2
	res := len(g.Blocks) > 0 && c15Search(g.Blocks[0], 0, s.blockTargets(g, depth), s.lockedTests(g), nil) != nil
	if res {
		s.blockUnt[g] = 1
	}
	return res
}

// blocksBeforeRecheck: from instruction at (a receive, or the call of the helper containing
// it) the consumer can block on the channel again without a fresh emptiness test under the mutex.
func (s *c15Simple) blocksBeforeRecheck(at ssa.Instruction, depth int) ssa.Instruction {
	fn := at.Parent()
	stops := s.lockedTests(fn)
	if hit := c15After(at, s.blockTargets(fn, 0), stops); hit != nil {
		return hit
	}
	if obj := fn.Object(); depth < 2 && fn.Parent() == nil && (obj == nil || !obj.Exported()) {
		if c15After(at, c15Returns(fn), stops) != nil {
			for _, cs := range s.e.callSitesOf(fn) {
				if hit := s.blocksBeforeRecheck(cs, depth+1); hit != nil {
					return hit
				}
			}
		}
	}
	return nil
}

// emptyEdges: the CFG edges of fn taken exactly when the list was observed empty.
func (s *c15Simple) emptyEdges(fn *ssa.Function) map[ssa.Instruction][]edge {
	out := map[ssa.Instruction][]edge{}
	for _, op := range s.byFn[fn] {
		v := op.in.Value()
		if v == nil || v.Referrers() == nil {
			continue
		}
		for _, r := range *v.Referrers() {
			bo, ok := r.(*ssa.BinOp)
			if !ok || bo.Referrers() == nil {
				continue
			}
			// truth of the comparison for list lengths 0,1,2
			var truth [3]bool
			decided := true
			switch op.method {
			case "Len":
				var k int64
				var kok, lenLeft bool
				if bo.X == v {
					k, kok = constInt(bo.Y)
					lenLeft = true
				} else {
					k, kok = constInt(bo.X)
				}
				if !kok {
					continue
				}
				for n := int64(0); n < 3; n++ {
					a, b := n, k
					if !lenLeft {
						a, b = k, n
					}
					switch bo.Op {
					case token.EQL:
						truth[n] = a == b
					case token.NEQ:
						truth[n] = a != b
					case token.LSS:
						truth[n] = a < b
					case token.LEQ:
						truth[n] = a <= b
					case token.GTR:
						truth[n] = a > b
					case token.GEQ:
						truth[n] = a >= b
					default:
						decided = false
					}
				}
			case "Front", "Back":
				if !(isNilConst(bo.X) || isNilConst(bo.Y)) || (bo.Op != token.EQL && bo.Op != token.NEQ) {
					continue
				}
				truth = [3]bool{bo.Op == token.EQL, bo.Op != token.EQL, bo.Op != token.EQL}
			default:
				continue
			}
			if !decided {
				continue
			}
			for _, rr := range *bo.Referrers() {
				f, ok := rr.(*ssa.If)
				if !ok {
					continue
				}
				switch {
				case truth[0] && !truth[1] && !truth[2]:
					out[op.in] = append(out[op.in], edge{f.Block(), f.Block().Succs[0]})
				case !truth[0] && truth[1] && truth[2]:
					out[op.in] = append(out[op.in], edge{f.Block(), f.Block().Succs[1]})
				}
			}
		}
	}
	return out
}

// provablyStale: the receive is made with the mutex held, on the empty side of an emptiness
// test made in the same uninterrupted critical section: the token it takes belongs to an item
// that is already gone.
func (s *c15Simple) provablyStale(r c15ChanOp) bool {
	return s.staleAt(r.in, 0)
}

// staleAt: instruction at (the receive, or the call of the unexported helper that performs it
// with the mutex still held) runs with the mutex held on the empty side of an emptiness test
// of the same uninterrupted critical section.
func (s *c15Simple) staleAt(at ssa.Instruction, depth int) bool {
	if !s.e.holds(at, s.locks, 'W') {
		return false
	}
	fn := at.Parent()
	for test, eds := range s.emptyEdges(fn) {
		if !s.e.holds(test, s.locks, 'W') {
			continue
		}
		for _, ed := range eds {
			if !edgeDominates(ed, at.Block()) {
				continue
			}
			cont := true
			for _, in := range c15Between(test, at) {
				if !s.e.holds(in, s.locks, 'W') {
					cont = false
				}
				if ci, ok := in.(ssa.CallInstruction); ok && strings.HasPrefix(calleeKey(ci.Common()), c15ListPrefix+"Push") {
					cont = false
				}
			}
			if cont {
				return true
			}
		}
	}
	if obj := fn.Object(); depth < 2 && fn.Parent() == nil && (obj == nil || !obj.Exported()) {
		sites := s.e.callSitesOf(fn)
		for _, cs := range sites {
			if _, isCall := cs.(*ssa.Call); !isCall || !s.staleAt(cs, depth+1) {
				return false
			}
		}
		return len(sites) > 0
	}
	return false
}

// waiterSide: fn runs only as part of the consumer's wait: every exported function through
// which it is reached can itself block on the wake-up channel. Code elsewhere (Pop, Add) can
// run concurrently with a consumer that is about to block.
func (s *c15Simple) waiterSide(fn *ssa.Function) bool {
	roots := s.e.rootsOf(fn)
	for _, r := range roots {
		if len(s.blockTargets(r, 0)) == 0 {
			return false
		}
	}
	return len(roots) > 0
}

func (s *c15Simple) ruleTokenRecheck() {
	c := s.e.c
	for _, r := range s.recvs {
		kind := "non-blocking receive"
		if r.blocking {
			kind = "blocking receive"
		}
		construct := fnName(r.fn) + "+token taken off the wake-up channel by " + kind
		if s.provablyStale(r) {
			c.ok("D2", construct, posOf(r.in), "the token is taken with the mutex held on the empty side of an emptiness test of the same critical section: it is stale")
			continue
		}
		if !r.blocking && !s.waiterSide(r.fn) {
			where := "with the queue mutex held, but at a point where the list may be non-empty"
			if !s.e.holds(r.in, s.locks, 'W') {
				where = "without the queue mutex held"
			}
			c.fail("D2", construct, posOf(r.in), "lost wake-up: %s takes a token off the wake-up channel with a non-blocking receive %s. It is not the consumer's wait, so it can run while a consumer has seen the queue empty, released the mutex and is about to block; the one-slot channel coalesces the signals of several Adds into one token, so the token removed here can be the only thing that would wake that consumer while items remain queued. A token may be taken only by the blocking wait, or under the mutex on the empty side of an emptiness test (nothing to wake for)", fnName(r.fn), where)
			continue
		}
		if hit := s.blocksBeforeRecheck(r.in, 0); hit != nil {
			where := "after the queue mutex was released"
			if s.e.holds(r.in, s.locks, 'W') {
				where = "with the mutex held but not on the empty side of an emptiness test"
			}
			c.fail("D2", construct, posOf(hit), "lost wake-up: this %s takes a token off the wake-up channel %s, and the consumer can then block on the channel (here) without a fresh emptiness test under the mutex; an Add that ran completely between the consumer's unlock and this receive has its signal discarded, and the consumer sleeps although the queue is non-empty", kind, where)
		} else {
			c.ok("D2", construct, posOf(r.in), "every way from this receive to a blocking wait passes an emptiness test made with the mutex held")
		}
	}
	// exported functions do not reach the blocking wait from their entry without a test
	for _, fn := range s.e.fns {
		obj := fn.Object()
		if obj == nil || !obj.Exported() || fn.Parent() != nil || len(fn.Blocks) == 0 {
			continue
		}
		targets := s.blockTargets(fn, 0)
		if len(targets) == 0 {
			continue
		}
		construct := fnName(fn) + "+emptiness observed before blocking"
		if hit := c15Search(fn.Blocks[0], 0, targets, s.lockedTests(fn), nil); hit != nil {
			c.fail("D2", construct, posOf(hit), "the function can block on the wake-up channel without having observed the queue empty under the mutex: tokens are not counted per item (one token may stand for several items), so it can sleep although items are pending")
		} else {
			c.ok("D2", construct, fn.Pos(), "the blocking wait is reached only after an emptiness test made with the mutex held")
		}
	}
}

// ---------------------------------------------------------------------------
// closures run by a package helper (the withLock(func()) idiom)

// c15ClosureSites: for closure cl, the places where it runs: the calls of the func parameter
// inside package helpers to which the closure is handed (and used for nothing else), together
// with the function that creates the closure. nil when the closure is used in any other way.
type c15RunSite struct {
	at      ssa.Instruction // call of the func parameter inside the helper
	creator *ssa.Function   // function containing the MakeClosure
	call    ssa.Instruction // the call of the helper in the creator
}

func (e *c15Env) closureSites(cl *ssa.Function) []c15RunSite {
	par := cl.Parent()
	if par == nil {
		return nil
	}
	var out []c15RunSite
	for _, b := range par.Blocks {
		for _, in := range b.Instrs {
			mc, ok := in.(*ssa.MakeClosure)
			if !ok || mc.Fn != ssa.Value(cl) || mc.Referrers() == nil {
				continue
			}
			for _, r := range *mc.Referrers() {
				if _, isDbg := r.(*ssa.DebugRef); isDbg {
					continue
				}
				call, ok := r.(*ssa.Call)
				if !ok {
					return nil
				}
				h := staticCallee(call.Common())
				if h == nil {
					return nil
				}
				if o := h.Origin(); o != nil {
					h = o
				}
				inPkg := false
				for _, g := range e.fns {
					if g == h {
						inPkg = true
					}
				}
				if !inPkg {
					return nil
				}
				for pi, a := range call.Common().Args {
					if a != ssa.Value(mc) || pi >= len(h.Params) {
						continue
					}
					prm := h.Params[pi]
					if prm.Referrers() == nil {
						return nil
					}
					for _, pr := range *prm.Referrers() {
						if _, isDbg := pr.(*ssa.DebugRef); isDbg {
							continue
						}
						pc, ok := pr.(*ssa.Call)
						if !ok || pc.Common().Value != ssa.Value(prm) {
							return nil // stored, passed on, started with go: unknown context
						}
						out = append(out, c15RunSite{pc, par, call})
					}
				}
			}
		}
	}
	return out
}

// closuresRunAt: the closures that the call instruction in (a call of a package helper) runs
// on every path of the helper.
func (e *c15Env) closuresRunAt(in ssa.Instruction) []*ssa.Function {
	call, ok := in.(*ssa.Call)
	if !ok {
		return nil
	}
	var out []*ssa.Function
	for _, a := range call.Common().Args {
		mc, ok := a.(*ssa.MakeClosure)
		if !ok {
			continue
		}
		cl, _ := mc.Fn.(*ssa.Function)
		if cl == nil {
			continue
		}
		sites := e.closureSites(cl)
		if len(sites) == 0 {
			continue
		}
		runs := map[ssa.Instruction]bool{}
		var h *ssa.Function
		for _, st := range sites {
			if st.call == in {
				runs[st.at] = true
				h = st.at.Parent()
			}
		}
		if h != nil && len(h.Blocks) > 0 && c15Search(h.Blocks[0], 0, c15Returns(h), runs, nil) == nil {
			out = append(out, cl)
		}
	}
	return out
}

// c15FreeBinding: the cell of the enclosing function that free variable fv is bound to.
func c15FreeBinding(fv *ssa.FreeVar) ssa.Value {
	cl := fv.Parent()
	par := cl.Parent()
	if par == nil {
		return nil
	}
	idx := -1
	for i, f := range cl.FreeVars {
		if f == fv {
			idx = i
		}
	}
	for _, b := range par.Blocks {
		for _, in := range b.Instrs {
			if mc, ok := in.(*ssa.MakeClosure); ok && mc.Fn == ssa.Value(cl) && idx >= 0 && idx < len(mc.Bindings) {
				return mc.Bindings[idx]
			}
		}
	}
	return nil
}

// c15CapturedParam: v is a load of a captured variable that holds, unchanged, a parameter of
// the enclosing function; returns that parameter.
func c15CapturedParam(v ssa.Value) *ssa.Parameter {
	ld, ok := v.(*ssa.UnOp)
	if !ok || ld.Op != token.MUL {
		return nil
	}
	fv, ok := ld.X.(*ssa.FreeVar)
	if !ok {
		return nil
	}
	al, ok := c15FreeBinding(fv).(*ssa.Alloc)
	if !ok || al.Referrers() == nil {
		return nil
	}
	var par *ssa.Parameter
	n := 0
	for _, r := range *al.Referrers() {
		if st, ok := r.(*ssa.Store); ok && st.Addr == ssa.Value(al) {
			n++
			par, _ = st.Val.(*ssa.Parameter)
		}
	}
	// no store inside the closures that capture it
	for _, f := range fv.Parent().FreeVars {
		if f == fv && f.Referrers() != nil {
			for _, r := range *f.Referrers() {
				if st, ok := r.(*ssa.Store); ok && st.Addr == ssa.Value(f) {
					return nil
				}
			}
		}
	}
	if n != 1 {
		return nil
	}
	return par
}

// c15CapturedStores: every value stored into cell al, by its function or by the closures that
// capture it (flow-insensitive); ok=false when the cell escapes in another way.
func c15CapturedStores(al *ssa.Alloc) ([]ssa.Value, bool) {
	var out []ssa.Value
	if al.Referrers() == nil {
		return nil, false
	}
	for _, r := range *al.Referrers() {
		switch u := r.(type) {
		case *ssa.Store:
			if u.Addr != ssa.Value(al) {
				return nil, false
			}
			out = append(out, u.Val)
		case *ssa.UnOp, *ssa.DebugRef:
		case *ssa.MakeClosure:
			cl, ok := u.Fn.(*ssa.Function)
			if !ok {
				return nil, false
			}
			for i, b := range u.Bindings {
				if b != ssa.Value(al) || i >= len(cl.FreeVars) || cl.FreeVars[i].Referrers() == nil {
					continue
				}
				for _, fr := range *cl.FreeVars[i].Referrers() {
					switch x := fr.(type) {
					case *ssa.Store:
						if x.Addr != ssa.Value(cl.FreeVars[i]) {
							return nil, false
						}
						out = append(out, x.Val)
					case *ssa.UnOp, *ssa.DebugRef:
					default:
						return nil, false
					}
				}
			}
		default:
			return nil, false
		}
	}
	return out, true
}

// chanCap: the constant capacity of channel value v: a make(chan, k), or the result of a
// package function (constructor of a named channel type) all of whose returns are such.
func (s *c15Simple) chanCap(v ssa.Value, depth int) (int64, bool) {
	for i := 0; i < 3; i++ {
		if ct, ok := v.(*ssa.ChangeType); ok {
			v = ct.X
		}
	}
	switch x := v.(type) {
	case *ssa.MakeChan:
		return constInt(x.Size)
	case *ssa.Call:
		g := s.pkgCallee(x)
		if g == nil || depth > 2 || g.Signature.Results().Len() != 1 {
			return 0, false
		}
		res, n := int64(0), 0
		for _, r := range returnsOf(g) {
			leaves, zero := c15Leaves(retResults(r)[0])
			if zero {
				return 0, false
			}
			for _, lf := range leaves {
				k, ok := s.chanCap(lf, depth+1)
				if !ok || (n > 0 && k != res) {
					return 0, false
				}
				res = k
				n++
			}
		}
		return res, n > 0
	}
	return 0, false
}
