package main

// C03.D3: the functions that open group envelopes, robust to helper extraction.
//
// An "event producer" is a root-package function that hands out a *GroupMetadata together with
// the decoded payload (proto.Message) and an error, and from which the group secretbox.Open is
// reached (through static module callees). For every producer the rule requires, on every
// success return and through callee summaries (a callee counts when all its own success returns
// pass the check and the caller accepts its error):
//   box     secretbox.Open accepted, key from the group's secret
//   lookup  event-type table hit (comma-ok lookup accepted)
//   checker the signature checker of the table entry returned nil
// and that the values checked are the values handed out, decoded from the checked bytes.
// A producer that does not call the checker itself (decode-only helper) is allowed only if it is
// unexported and every caller applies the checker to the values it received from it.

import (
	"go/ast"
	"go/token"
	"go/types"
	"sort"

	"golang.org/x/tools/go/ssa"
)

type c03Producer struct {
	fn     *ssa.Function
	im, ip int // result indices of the metadata and the payload
	gi     int // parameter index of the *Group, -1 when none
}

func c03SameVal(a, b ssa.Value) bool {
	a, b = stripConv(a), stripConv(b)
	if a == b {
		return true
	}
	ea, ok1 := a.(*ssa.Extract)
	eb, ok2 := b.(*ssa.Extract)
	return ok1 && ok2 && ea.Tuple == eb.Tuple && ea.Index == eb.Index
}

// c03ResultOf: the value of result idx of call (the call itself for single-result callees).
func c03ResultOf(call *ssa.Call, idx int) ssa.Value {
	if call.Common().Signature().Results().Len() == 1 {
		return call
	}
	for _, ex := range extractsOf(call, idx) {
		return ex
	}
	return nil
}

func c03GroupParam(fn *ssa.Function) int {
	for i, p := range fn.Params {
		if isNamed(p.Type(), pkgTypes, "Group") {
			return i
		}
	}
	return -1
}

func c03Openers(c *Ctx, global *types.Var) (openers, decoderSet map[*ssa.Function]bool, ok bool) {
	w := c.W
	openers, decoderSet = map[*ssa.Function]bool{}, map[*ssa.Function]bool{}
	var checkerSig *types.Signature
	if mt, isMap := global.Type().Underlying().(*types.Map); isMap {
		if st, isSt := mt.Elem().Underlying().(*types.Struct); isSt {
			for fi := 0; fi < st.NumFields(); fi++ {
				if sg := c03CheckerSigOf(st.Field(fi).Type()); sg != nil {
					checkerSig = sg
				}
			}
		}
	}
	if checkerSig == nil || checkerSig.Params().Len() != 3 {
		c.undecided("D3", "checker type", token.NoPos, "the table entry's checker field is not a func(group, metadata, payload) error")
		return nil, nil, false
	}
	payloadType := checkerSig.Params().At(2).Type()
	isCheckerCall := func(x *ssa.Call) bool {
		if staticCallee(x.Common()) != nil || x.Common().IsInvoke() {
			return false
		}
		if types.Identical(x.Common().Value.Type().Underlying(), checkerSig) {
			return true
		}
		return rootsOf(provCfg{W: w}, x.Common().Value)["global:"+globalName(w, global)]
	}
	checkerCallsIn := func(fn *ssa.Function) []*ssa.Call {
		var out []*ssa.Call
		for _, b := range fn.Blocks {
			for _, in := range b.Instrs {
				if x, isCall := in.(*ssa.Call); isCall && isCheckerCall(x) {
					out = append(out, x)
				}
			}
		}
		return out
	}
	lookupsIn := func(fn *ssa.Function) []*ssa.Lookup {
		var out []*ssa.Lookup
		for _, b := range fn.Blocks {
			for _, in := range b.Instrs {
				if x, isL := in.(*ssa.Lookup); isL && isGlobalLoad(x.X, global) {
					out = append(out, x)
				}
			}
		}
		return out
	}
	isBoxCall := func(ci ssa.CallInstruction) bool { return calleeKey(ci.Common()) == keySBOpen }
	vcBox := newVerifierCache(w, checkRole{Name: "group box", Match: func(fn *ssa.Function, ci ssa.CallInstruction) []ssa.Value {
		if isBoxCall(ci) {
			if v := boolVerdict(ci); v != nil {
				return []ssa.Value{v}
			}
		}
		return nil
	}})
	vcChk := newVerifierCache(w, checkRole{Name: "signature checker", Match: func(fn *ssa.Function, ci ssa.CallInstruction) []ssa.Value {
		if x, isCall := ci.(*ssa.Call); isCall && isCheckerCall(x) {
			if v := errVerdict(ci); v != nil {
				return []ssa.Value{v}
			}
		}
		return nil
	}})
	// A list of checkers is applied in a loop: leaving that loop normally means every checker
	// of the (non-empty, see D1) list returned nil, provided a failing checker leaves the
	// function with an error (judged separately by reject-on-failure on the call). The edges
	// that leave the loop of a checker call are therefore accepting edges too.
	vcChk.Extra = func(fn *ssa.Function) []edge {
		var acc []edge
		for _, cc := range checkerCallsIn(fn) {
			b := cc.Block()
			if !inLoop(cc) {
				continue
			}
			from := reach(b, nil)
			inLoop := map[*ssa.BasicBlock]bool{}
			for x := range from {
				if reach(x, nil)[b] {
					inLoop[x] = true
				}
			}
			for x := range inLoop {
				for _, s := range x.Succs {
					if !inLoop[s] {
						acc = append(acc, edge{x, s})
					}
				}
			}
		}
		return acc
	}
	vcLookup := newVerifierCache(w, checkRole{Name: "table lookup", Match: func(*ssa.Function, ssa.CallInstruction) []ssa.Value { return nil }})
	vcLookup.Extra = func(fn *ssa.Function) []edge {
		var acc []edge
		for _, l := range lookupsIn(fn) {
			if !l.CommaOk {
				continue
			}
			for _, ex := range extractsOf(l, 1) {
				acc = append(acc, edgesOfVerdict(ex).Accept...)
			}
		}
		return acc
	}

	// producers
	var prods []c03Producer
	for _, fn := range w.ModFuncs {
		if fnPkg(fn) == nil || fnPkg(fn).Path() != pkgRoot || fn.Blocks == nil {
			continue
		}
		res := fn.Signature.Results()
		n := res.Len()
		if n < 3 || !isErrorType(res.At(n-1).Type()) {
			continue
		}
		im, ip := -1, -1
		for i := 0; i < n-1; i++ {
			t := res.At(i).Type()
			if im < 0 && isNamed(t, pkgTypes, "GroupMetadata") {
				im = i
			} else if ip < 0 && types.Identical(t, payloadType) {
				ip = i
			}
		}
		if im < 0 || ip < 0 {
			continue
		}
		reaches := false
		for f := range w.reachableFuncs([]*ssa.Function{fn}, 3) {
			if f.Blocks != nil && len(callsIn(f, keyIs(keySBOpen))) > 0 {
				reaches = true
			}
		}
		if reaches {
			prods = append(prods, c03Producer{fn: fn, im: im, ip: ip, gi: c03GroupParam(fn)})
		}
	}
	sort.Slice(prods, func(i, j int) bool { return prods[i].fn.String() < prods[j].fn.String() })
	if len(prods) == 0 {
		c.undecided("D3", "open function", token.NoPos, "no function in %s hands out (*GroupMetadata, payload, error) from a secretbox.Open", pkgRoot)
		return nil, nil, false
	}
	if len(prods) > 1 {
		c.note("%d functions hand out decoded group envelopes", len(prods))
	}

	// the functions behind a producer that decode: they may unmarshal a GroupMetadata
	for _, p := range prods {
		for f := range w.reachableFuncs([]*ssa.Function{p.fn}, 3) {
			if fnPkg(f) != nil && fnPkg(f).Path() == pkgRoot {
				decoderSet[f] = true
			}
		}
	}

	var payloadSource func(f *ssa.Function, m, pl ssa.Value, depth int) bool
	payloadSource = func(f *ssa.Function, m, pl ssa.Value, depth int) bool {
		for _, u := range callsIn(f, keyIs(keyProtoU)) {
			ua := u.Common().Args
			if len(ua) == 2 && c03SameVal(ua[1], pl) {
				if ap, okp := accessPathLocal(ua[0]); okp && c03SameVal(ap.Base, m) && ap.Path == ".Payload" {
					return true
				}
			}
		}
		if depth <= 0 {
			return false
		}
		// both values are results of one call of a module function: look at what it returns
		em, ok1 := stripConv(m).(*ssa.Extract)
		ep, ok2 := stripConv(pl).(*ssa.Extract)
		if !ok1 || !ok2 || em.Tuple != ep.Tuple {
			return false
		}
		call, isCall := em.Tuple.(*ssa.Call)
		if !isCall {
			return false
		}
		h := staticCallee(call.Common())
		if h == nil || h.Blocks == nil || !inModule(h) {
			return false
		}
		n := 0
		for _, r := range returnsOf(h) {
			if !isSuccessReturn(r) {
				continue
			}
			n++
			rr := retResults(r)
			if em.Index >= len(rr) || ep.Index >= len(rr) || !payloadSource(h, rr[em.Index], rr[ep.Index], depth-1) {
				return false
			}
		}
		return n > 0
	}

	// box + lookup obligations of a producer (through callee summaries)
	boxAndLookup := func(p c03Producer) {
		on := fnName(p.fn)
		bi := vcBox.info(p.fn)
		c.check(bi.IsVerifier, "D3", on+"+secretbox.Open", p.fn.Pos(), "box open accepted on every success path; failure rejects", "secretbox.Open verdict not enforced: a success return is reachable without the group box having opened: "+describeReturns(c, bi.Bypass))
		nBox := 0
		for f := range w.reachableFuncs([]*ssa.Function{p.fn}, 3) {
			if f.Blocks == nil {
				continue
			}
			for _, ci := range callsIn(f, keyIs(keySBOpen)) {
				nBox++
				okv := boolVerdict(ci)
				r := rejectOnFailure(f, okv)
				if !r.OK {
					c.fail("D3", fnName(f)+"+secretbox.Open.reject", posOf(ci), "secretbox.Open verdict not enforced: %s", r.Why)
				}
				if len(ci.Common().Args) == 4 {
					rs := rootsOf(provCfg{W: w, InlineResults: true}, ci.Common().Args[3])
					pr := paramRoots(rs, f)
					gi := c03GroupParam(f)
					okKey := false
					if gi >= 0 {
						pfx := "p" + string(rune('0'+gi))
						okKey = hasPrefixIn(pr, pfx+".Secret") || has(pr, pfx)
					}
					c.check(okKey, "D3", fnName(f)+"+secretbox.Open.key", posOf(ci), "box key derives from the group parameter", "box key does not derive from the group's secret: "+rs.String())
				}
			}
		}
		if nBox == 0 {
			c.undecided("D3", on+"+secretbox.Open", p.fn.Pos(), "no secretbox.Open found behind the producer")
		}
		nLook := 0
		for f := range w.reachableFuncs([]*ssa.Function{p.fn}, 3) {
			if f.Blocks == nil {
				continue
			}
			for _, l := range lookupsIn(f) {
				nLook++
				if !l.CommaOk {
					c.fail("D3", fnName(f)+"+lookup", l.Pos(), "table lookup without presence test: an unknown type yields a zero entry")
					continue
				}
				okl := false
				for _, ex := range extractsOf(l, 1) {
					if r := rejectOnFailure(f, ex); r.OK {
						okl = true
					}
				}
				if !okl {
					c.fail("D3", fnName(f)+"+lookup", l.Pos(), "the presence result of the table lookup is not enforced (unknown type accepted)")
				}
			}
		}
		if nLook == 0 {
			c.undecided("D3", on+"+lookup", p.fn.Pos(), "the open path does not look the event type up in the table %s", global.Name())
		} else {
			li := vcLookup.info(p.fn)
			c.check(li.IsVerifier, "D3", on+"+lookup", p.fn.Pos(), "unknown event types are rejected", "a success return is reachable without a table hit (unknown type accepted): "+describeReturns(c, li.Bypass))
		}
	}

	// checkedValues: for function k containing checker call cc, express the checked group,
	// metadata and payload as seen by a caller f at call site cs (k == f: as they are).
	type seen struct{ g, m, pl ssa.Value }
	mapToCaller := func(k *ssa.Function, cc *ssa.Call, cs *ssa.Call) (seen, bool) {
		a := cc.Common().Args
		if len(a) != 3 {
			return seen{}, false
		}
		if cs == nil {
			return seen{a[0], a[1], a[2]}, true
		}
		conv := func(v ssa.Value) ssa.Value {
			v = stripConv(v)
			for i, prm := range k.Params {
				if ssa.Value(prm) == v && i < len(cs.Common().Args) {
					return cs.Common().Args[i]
				}
			}
			// returned by k on every success return at one result index?
			idx := -1
			for _, r := range returnsOf(k) {
				if !isSuccessReturn(r) {
					continue
				}
				found := -1
				for i, rv := range retResults(r) {
					if c03SameVal(rv, v) {
						found = i
					}
				}
				if found < 0 || (idx >= 0 && idx != found) {
					return nil
				}
				idx = found
			}
			if idx < 0 {
				return nil
			}
			return c03ResultOf(cs, idx)
		}
		s := seen{conv(a[0]), conv(a[1]), conv(a[2])}
		return s, s.g != nil && s.m != nil && s.pl != nil
	}

	for _, p := range prods {
		c.analysed(p.fn)
		on := fnName(p.fn)
		boxAndLookup(p)
		ci := vcChk.info(p.fn)
		if ci.IsVerifier {
			// locate the checker call: in the producer, or in a direct callee that is a verifier
			var k *ssa.Function
			var cc, cs *ssa.Call
			if own := checkerCallsIn(p.fn); len(own) > 0 {
				k, cc = p.fn, own[0]
				for _, extra := range own[1:] {
					c.note("%s calls the checker more than once (%s)", on, c.pos(posOf(extra)))
				}
			} else {
				for _, site := range ci.Sites {
					call, isCall := site.(*ssa.Call)
					if !isCall {
						continue
					}
					callee := staticCallee(call.Common())
					if callee == nil {
						continue
					}
					if in := checkerCallsIn(callee); len(in) > 0 {
						k, cc, cs = callee, in[0], call
					}
				}
			}
			c.ok("D3", on+"+checker-call", p.fn.Pos(), "checker returned nil on every success path")
			if k == nil {
				c.undecided("D3", on+"+returned=checked", p.fn.Pos(), "the checker call sits more than one helper below the producer: the identity of checked and returned values is not traced that deep")
				openers[p.fn] = true
				continue
			}
			if v := errVerdict(cc); v != nil {
				if r := rejectOnFailure(k, v); !r.OK {
					c.fail("D3", fnName(k)+"+checker-call.reject", posOf(cc), "checker verdict not enforced: %s", r.Why)
				}
			}
			sv, okMap := mapToCaller(k, cc, cs)
			same := okMap
			if okMap {
				for _, r := range returnsOf(p.fn) {
					if !isSuccessReturn(r) {
						continue
					}
					rr := retResults(r)
					if !c03SameVal(rr[p.im], sv.m) || !c03SameVal(rr[p.ip], sv.pl) {
						same = false
					}
				}
			}
			c.check(same, "D3", on+"+returned=checked", posOf(cc), "the returned metadata and payload are the checked ones", "a success return hands out values other than those given to the checker")
			a := cc.Common().Args
			if len(a) == 3 {
				c.check(payloadSource(k, a[1], a[2], 2), "D3", on+"+payload-source", posOf(cc), "payload decoded from the very bytes the checker verifies (metadata.Payload)", "the payload given to the checker is not decoded from metadata.Payload of the checked metadata")
			}
			gOK := okMap && p.gi >= 0 && c03SameVal(sv.g, p.fn.Params[p.gi])
			c.check(gOK, "D3", on+"+group-arg", posOf(cc), "checker receives the group being opened", "checker is called with a different group than the one being opened")
			if same {
				openers[p.fn] = true
			}
			continue
		}
		if len(ci.Sites) > 0 {
			c.fail("D3", on+"+checker-call", p.fn.Pos(), "checker verdict not enforced: a success return is reachable without the checker having returned nil: %s", describeReturns(c, ci.Bypass))
			continue
		}
		// decode-only producer: the signature check is left to its callers
		c.note("%s decodes group envelopes without calling the checker itself: every caller is required to", on)
		if ast.IsExported(p.fn.Name()) {
			c.fail("D3", on+"+checker-call", p.fn.Pos(), "an exported function hands out decoded metadata events without applying the signature checker of the table entry")
		}
		srcOK, nSucc := true, 0
		for _, r := range returnsOf(p.fn) {
			if !isSuccessReturn(r) {
				continue
			}
			nSucc++
			rr := retResults(r)
			if !payloadSource(p.fn, rr[p.im], rr[p.ip], 2) {
				srcOK = false
			}
		}
		c.check(srcOK && nSucc > 0, "D3", on+"+payload-source", p.fn.Pos(), "the returned payload is decoded from the returned metadata's Payload bytes", "the payload handed out is not decoded from metadata.Payload of the metadata handed out")
		callers := w.callGraph().callers[p.fn]
		if len(callers) == 0 {
			c.fail("D3", on+"+checker-call", p.fn.Pos(), "the open function never calls the checker stored in the table entry, and nothing in the module calls it")
		}
		for _, cs := range callers {
			g := cs.Caller
			c.analysed(g)
			gon := fnName(g) + "->" + on
			fcall, _ := cs.Instr.(*ssa.Call)
			var mine []*ssa.Call
			if fcall != nil {
				for _, cc := range checkerCallsIn(g) {
					a := cc.Common().Args
					if len(a) == 3 && c03SameVal(a[1], c03ResultOf(fcall, p.im)) && c03SameVal(a[2], c03ResultOf(fcall, p.ip)) {
						mine = append(mine, cc)
					}
				}
			}
			if len(mine) == 0 {
				c.fail("D3", gon+"+checker-call", posOf(cs.Instr), "%s obtains a decoded metadata event from %s and never applies the signature checker of its table entry to it: an event with a missing or foreign signature is handed on", fnName(g), on)
				continue
			}
			verified := true
			for _, cc := range mine {
				v := errVerdict(cc)
				okc := v != nil
				why := "checker result discarded"
				if okc {
					by := bypassReturns(g, edgesOfVerdict(v).Accept, []ssa.Value{v})
					r := rejectOnFailure(g, v)
					okc = r.OK && len(by) == 0
					why = r.Why + " bypass=" + describeReturns(c, by)
				}
				c.check(okc, "D3", gon+"+checker-call", posOf(cc), "checker returned nil on every success path", "checker verdict not enforced: "+why)
				gArg := fcall.Common().Args
				gi := p.gi
				c.check(gi >= 0 && gi < len(gArg) && c03SameVal(cc.Common().Args[0], gArg[gi]), "D3", gon+"+group-arg", posOf(cc), "checker receives the group being opened", "checker is called with a different group than the one being opened")
				if !okc {
					verified = false
				}
				// when the caller is itself a producer its returned values must be the checked ones
				for _, q := range prods {
					if q.fn != g {
						continue
					}
					same := true
					for _, r := range returnsOf(g) {
						if !isSuccessReturn(r) {
							continue
						}
						rr := retResults(r)
						if !c03SameVal(rr[q.im], cc.Common().Args[1]) || !c03SameVal(rr[q.ip], cc.Common().Args[2]) {
							same = false
						}
					}
					c.check(same, "D3", gon+"+returned=checked", posOf(cc), "the returned metadata and payload are the checked ones", "a success return hands out values other than those given to the checker")
					if !same {
						verified = false
					}
				}
			}
			if verified {
				openers[g] = true
			}
		}
	}
	if len(openers) == 0 {
		c.fail("D3", "open function+verified", token.NoPos, "no function opens group envelopes with the signature checker enforced")
		return openers, decoderSet, false
	}
	return openers, decoderSet, true
}
