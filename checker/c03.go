package main

import (
	"fmt"
	"go/ast"
	"go/constant"
	"go/token"
	"go/types"
	"sort"
	"strings"

	"golang.org/x/tools/go/ssa"
)

const (
	pkgRoot   = modulePath
	pkgTypes  = modulePath + "/pkg/protocoltypes"
	pkgSecret = modulePath + "/pkg/secretstore"
	keyVerify = "(github.com/libp2p/go-libp2p/core/crypto.PubKey).Verify"
	keySign   = "(github.com/libp2p/go-libp2p/core/crypto.PrivKey).Sign"
	keySBOpen = "golang.org/x/crypto/nacl/secretbox.Open"
	keySBSeal = "golang.org/x/crypto/nacl/secretbox.Seal"
	keyUnmEd  = "github.com/libp2p/go-libp2p/core/crypto.UnmarshalEd25519PublicKey"
	keyProtoU = "google.golang.org/protobuf/proto.Unmarshal"
)

func init() {
	register(&PropertyDef{
		ID:          "C03",
		Title:       "Only correctly signed metadata events reach group state and subscribers",
		Explanation: "Decides structural necessary conditions from the type-checked SSA of /repo: (D1) the event-type table has an entry for every EventType value except Undefined and each entry's checker is of the kind the reference table (DESIGN.md B.1) requires, the kind being derived from the checker's body, and every prototype given to the device checker implements GetDevicePk; (D2) each checker's success returns are dominated by the accepting side of a Verify on the right key, data and signature (a Verify inside a module helper whose success returns all pass it counts, with the helper's parameters mapped to the call's arguments; a checker may also return the result of a helper that is handed some of its three arguments together with function values - check(resolveSigner, g, metadata, message) - the helper is then classified for that call, at most two levels deep, with each func-typed parameter bound to the function passed, so that the kind of key is derived per checker, and inside such a helper every Verify verdict must reject on failure); (D3) every root-package function that hands out a decoded (*GroupMetadata, payload, error) from the group secretbox.Open has all its success returns pass - directly or through callees whose own success returns all pass it and whose error it accepts - secretbox.Open accepted with the group's secret, the event-type table hit, and the table entry's checker returned nil; the checked metadata and payload are the ones handed out, the payload is unmarshalled from the checked metadata's Payload bytes, and the checker gets the group being opened; a decode-only helper (no checker call) must be unexported and every caller must apply the checker to the values it received from it; (D4) every use of an opened event (index handlers, emitters, listings) is dominated by the nil-error side of the open call, and GroupMetadataEvent values are only built by the opener chain. It does not decide Ed25519 unforgeability nor that a dropped event leaves the state unchanged beyond 'handler not invoked'.",
		Trusted:     []string{"golang.org/x/tools go/packages+go/ssa (v0.29.0)", "libp2p crypto.PubKey.Verify and nacl/secretbox semantics", "go/types"},
		Assumptions: []string{"dependencies behave as documented; only module code is analysed"},
		Floors:      map[string]int{"D1": 21, "D2": 3, "D3": 4, "D4": 3},
		Run:         runC03,
	})
}

// verifyShape describes one Verify call by the parameter-rooted provenance of key, data, sig.
type verifyShape struct {
	Site           ssa.CallInstruction
	Key, Data, Sig RootSet
	Verdict        ssa.Value     // the value whose acceptance means "verified" (bool ok, or a helper's error)
	Verdicts       []ssa.Value   // every verdict of the site (direct Verify: ok and err; nil = discarded)
	Via            *ssa.Function // helper that performs the Verify, nil when direct
}

func paramRoots(rs RootSet, fn *ssa.Function) []string {
	// rename parameters to p0,p1.. so that names do not matter
	var out []string
	for k := range rs {
		if !strings.HasPrefix(k, "param:") {
			continue
		}
		name := strings.TrimPrefix(k, "param:")
		base, rest := name, ""
		if i := strings.Index(name, "."); i >= 0 {
			base, rest = name[:i], name[i:]
		}
		for i, p := range fn.Params {
			if p.Name() == base {
				out = append(out, fmt.Sprintf("p%d%s", i, rest))
			}
		}
	}
	sort.Strings(out)
	return out
}

func has(list []string, s string) bool {
	for _, x := range list {
		if x == s {
			return true
		}
	}
	return false
}

func hasPrefixIn(list []string, s string) bool {
	for _, x := range list {
		if strings.HasPrefix(x, s) {
			return true
		}
	}
	return false
}

// c03Spec says how a function takes part in a signature check: Roles[i] is the checker
// argument that parameter i carries (0 group, 1 metadata, 2 message; -1 none of them) and
// Binds[i] the function passed for the func-typed parameter i at the call site the function
// is analysed for. A table checker itself has Roles {0,1,2} and no bindings.
type c03Spec struct {
	Roles []int
	Binds map[int]*ssa.Function
}

var c03TopSpec = c03Spec{Roles: []int{0, 1, 2}}

func (s c03Spec) key(fn *ssa.Function) string {
	k := fn.String() + fmt.Sprint(s.Roles)
	idx := make([]int, 0, len(s.Binds))
	for i := range s.Binds {
		idx = append(idx, i)
	}
	sort.Ints(idx)
	for _, i := range idx {
		k += fmt.Sprintf("|%d=%s", i, s.Binds[i].String())
	}
	return k
}

func (s c03Spec) bindFunc(fn *ssa.Function) func(*ssa.Parameter) *ssa.Function {
	if len(s.Binds) == 0 {
		return nil
	}
	return func(p *ssa.Parameter) *ssa.Function {
		for i, q := range fn.Params {
			if q == p {
				return s.Binds[i]
			}
		}
		return nil
	}
}

// c03RoleRoots renames the parameter roots of rs by the checker argument they carry: p0 group,
// p1 metadata, p2 message (so that names and positions do not matter); a parameter that carries
// none of them is x<index>.
func c03RoleRoots(rs RootSet, fn *ssa.Function, spec c03Spec) []string {
	var out []string
	for k := range rs {
		if !strings.HasPrefix(k, "param:") {
			continue
		}
		name := strings.TrimPrefix(k, "param:")
		base, rest := name, ""
		if i := strings.Index(name, "."); i >= 0 {
			base, rest = name[:i], name[i:]
		}
		for i, p := range fn.Params {
			if p.Name() != base {
				continue
			}
			if i < len(spec.Roles) && spec.Roles[i] >= 0 {
				out = append(out, fmt.Sprintf("p%d%s", spec.Roles[i], rest))
			} else {
				out = append(out, fmt.Sprintf("x%d%s", i, rest))
			}
		}
	}
	sort.Strings(out)
	return out
}

func verifyShapes(w *World, fn *ssa.Function, spec c03Spec) []verifyShape {
	var out []verifyShape
	cfg := provCfg{W: w, InlineResults: true, BindFunc: spec.bindFunc(fn)}
	for _, s := range verifySitesIn(fn, 2) {
		vs := verifyShape{Site: s.Call, Key: rootsOf(cfg, s.Key), Data: rootsOf(cfg, s.Data), Sig: rootsOf(cfg, s.Sig), Via: s.Via}
		if len(s.Verdicts) > 0 && (s.Via != nil || boolVerdict(s.Call) != nil) {
			vs.Verdict = s.Verdicts[0]
		}
		vs.Verdicts = s.Verdicts
		if s.Via == nil {
			vs.Verdicts = []ssa.Value{boolVerdict(s.Call), errVerdict(s.Call)}
		}
		out = append(out, vs)
	}
	return out
}

// checkerKinds classifies a sig checker function (signature: group, metadata, message) by
// the verifications that dominate its success returns. Kinds: group, device, member.
func checkerKinds(w *World, fn *ssa.Function, memo map[string]map[string]bool, why *[]string) map[string]bool {
	if fn == nil || fn.Blocks == nil || len(fn.Params) != 3 {
		return map[string]bool{}
	}
	return c03KindsOf(w, fn, c03TopSpec, 0, memo, why)
}

// c03DelegateSpec: the call hands the checker arguments of fn (as described by spec) on to the
// callee: every argument is one of fn's role-carrying parameters, a function value (bound to
// the callee's func-typed parameter: `check(resolver, g, metadata, message)`), or something the
// callee's verification must then not depend on (role -1).
func c03DelegateSpec(fn *ssa.Function, spec c03Spec, call *ssa.Call, callee *ssa.Function) (c03Spec, bool) {
	args := call.Common().Args
	if len(args) != len(callee.Params) {
		return c03Spec{}, false
	}
	out := c03Spec{Roles: make([]int, len(args)), Binds: map[int]*ssa.Function{}}
	nRoles := 0
	for i, a := range args {
		out.Roles[i] = -1
		a = stripConv(a)
		for j, p := range fn.Params {
			if ssa.Value(p) != a {
				continue
			}
			if j < len(spec.Roles) && spec.Roles[j] >= 0 {
				out.Roles[i] = spec.Roles[j]
				nRoles++
			}
			if f := spec.Binds[j]; f != nil {
				out.Binds[i] = f
			}
		}
		if _, isSig := callee.Params[i].Type().Underlying().(*types.Signature); isSig {
			switch fv := a.(type) {
			case *ssa.Function:
				out.Binds[i] = fv
			case *ssa.MakeClosure:
				// a closure literal that captures nothing is a plain function
				if f, ok := fv.Fn.(*ssa.Function); ok && len(fv.Bindings) == 0 {
					out.Binds[i] = f
				}
			}
		}
	}
	return out, nRoles > 0
}

// c03KindsOf: the kinds of signature check that fn, used as described by spec, enforces on every
// success return. depth > 0: fn is a helper a checker delegates to; its Verify verdicts are then
// required to reject on failure here (for the table checkers themselves rule D2 reports that).
func c03KindsOf(w *World, fn *ssa.Function, spec c03Spec, depth int, memo map[string]map[string]bool, why *[]string) map[string]bool {
	mk := spec.key(fn) + fmt.Sprint(depth > 0)
	if k, ok := memo[mk]; ok {
		return k
	}
	memo[mk] = map[string]bool{}
	kinds := map[string]bool{}
	if fn == nil || fn.Blocks == nil {
		return kinds
	}
	for _, vs := range verifyShapes(w, fn, spec) {
		key, data, sig := c03RoleRoots(vs.Key, fn, spec), c03RoleRoots(vs.Data, fn, spec), c03RoleRoots(vs.Sig, fn, spec)
		if hasPrefixIn(key, "x") || hasPrefixIn(data, "x") || hasPrefixIn(sig, "x") {
			*why = append(*why, fmt.Sprintf("%s: Verify with key<-%v data<-%v sig<-%v depends on a parameter that is none of the checker's arguments", fnName(fn), key, data, sig))
			continue
		}
		kind := ""
		switch {
		case has(data, "p1.Payload") && has(sig, "p1.Sig") && has(key, "p0.PublicKey") && !hasPrefixIn(key, "p2") && !hasPrefixIn(key, "p1"):
			kind = "group"
		case has(data, "p1.Payload") && has(sig, "p1.Sig") && (has(key, "p2.DevicePk") || has(key, "p2") && vs.Key.hasPrefix("call:(") && strings.Contains(vs.Key.String(), ").GetDevicePk")) && !hasPrefixIn(key, "p0") && !hasPrefixIn(key, "p1"):
			kind = "device"
		case has(data, "p2.DevicePk") && has(sig, "p2.MemberSig") && has(key, "p2.MemberPk") && !hasPrefixIn(key, "p0") && !hasPrefixIn(key, "p1"):
			kind = "member"
		}
		if kind == "" {
			*why = append(*why, fmt.Sprintf("%s: Verify with key<-%v data<-%v sig<-%v matches no required shape", fnName(fn), key, data, sig))
			continue
		}
		// the ok verdict must dominate the success returns and its failure must reject
		okv := vs.Verdict
		if okv == nil {
			*why = append(*why, fnName(fn)+": Verify result discarded")
			continue
		}
		var tail []ssa.Value
		if isErrorType(okv.Type()) {
			tail = []ssa.Value{okv} // returning a verify helper's error as one's own is acceptance-or-reject too
		}
		if by := bypassReturns(fn, edgesOfVerdict(okv).Accept, tail); len(by) > 0 {
			*why = append(*why, fmt.Sprintf("%s: a success return bypasses the %s Verify", fnName(fn), kind))
			continue
		}
		if depth > 0 {
			rejects := true
			for _, v := range vs.Verdicts {
				if r := rejectOnFailure(fn, v); !r.OK {
					rejects = false
					*why = append(*why, fmt.Sprintf("%s: %s Verify verdict: %s", fnName(fn), kind, r.Why))
				}
			}
			if !rejects {
				continue
			}
		}
		kinds[kind] = true
	}
	// delegation: the success value is the result of another function that is handed (some of)
	// the checker's arguments, possibly together with function values that tell it what to do
	// (check(resolveSigner, g, metadata, message)): the callee is classified for that call.
	if depth < 2 {
		for _, b := range fn.Blocks {
			for _, in := range b.Instrs {
				call, ok := in.(*ssa.Call)
				if !ok {
					continue
				}
				callee := staticCallee(call.Common())
				if callee == nil || callee == fn || !inModule(callee) || callee.Blocks == nil {
					continue
				}
				sub, ok := c03DelegateSpec(fn, spec, call, callee)
				if !ok {
					continue
				}
				v := errVerdict(call)
				if v == nil {
					continue
				}
				if by := bypassReturns(fn, edgesOfVerdict(v).Accept, []ssa.Value{v}); len(by) > 0 {
					continue
				}
				if r := rejectOnFailure(fn, v); !r.OK {
					continue
				}
				for k := range c03KindsOf(w, callee, sub, depth+1, memo, why) {
					kinds[k] = true
				}
			}
		}
	}
	memo[mk] = kinds
	return kinds
}

func kindsString(k map[string]bool) string {
	var s []string
	for x := range k {
		s = append(s, x)
	}
	sort.Strings(s)
	return strings.Join(s, "+")
}

type tableEntry struct {
	Key      *types.Const
	KeyVal   int64
	Checker  *types.Func   // the (first) checker
	Checkers []*types.Func // all checkers of the entry (one, or the elements of a checker list)
	Multi    bool          // the entry holds a list of checkers
	Proto    types.Type
	Pos      token.Pos
}

// c03CheckerSigOf: the checker signature when t is a func type or a slice of a func type.
func c03CheckerSigOf(t types.Type) *types.Signature {
	switch u := t.Underlying().(type) {
	case *types.Signature:
		return u
	case *types.Slice:
		if sg, ok := u.Elem().Underlying().(*types.Signature); ok {
			return sg
		}
	}
	return nil
}

// findEventTable locates the package-level map keyed by EventType whose values carry a
// checker function and a message prototype, and reads its composite literal.
func findEventTable(c *Ctx) (global *types.Var, entries []tableEntry, pos token.Pos) {
	var root *types.Package
	for _, p := range c.W.Pkgs {
		if p.PkgPath != pkgRoot {
			continue
		}
		root = p.Types
		for _, f := range p.Syntax {
			for _, d := range f.Decls {
				gd, ok := d.(*ast.GenDecl)
				if !ok || gd.Tok != token.VAR {
					continue
				}
				for _, sp := range gd.Specs {
					vs := sp.(*ast.ValueSpec)
					for i, name := range vs.Names {
						obj, _ := p.TypesInfo.Defs[name].(*types.Var)
						if obj == nil {
							continue
						}
						mt, ok := obj.Type().Underlying().(*types.Map)
						if !ok || !isNamed(mt.Key(), pkgTypes, "EventType") {
							continue
						}
						st, ok := mt.Elem().Underlying().(*types.Struct)
						if !ok {
							continue
						}
						hasFunc := false
						for fi := 0; fi < st.NumFields(); fi++ {
							if c03CheckerSigOf(st.Field(fi).Type()) != nil {
								hasFunc = true
							}
						}
						if !hasFunc || i >= len(vs.Values) {
							continue
						}
						cl, ok := vs.Values[i].(*ast.CompositeLit)
						if !ok {
							continue
						}
						global, pos = obj, name.Pos()
						for _, el := range cl.Elts {
							kv, ok := el.(*ast.KeyValueExpr)
							if !ok {
								continue
							}
							te := tableEntry{Pos: kv.Pos()}
							if tv, ok := p.TypesInfo.Types[kv.Key]; ok && tv.Value != nil {
								te.KeyVal, _ = constant.Int64Val(tv.Value)
								switch k := kv.Key.(type) {
								case *ast.SelectorExpr:
									te.Key, _ = p.TypesInfo.Uses[k.Sel].(*types.Const)
								case *ast.Ident:
									te.Key, _ = p.TypesInfo.Uses[k].(*types.Const)
								}
							}
							if vcl, ok := kv.Value.(*ast.CompositeLit); ok {
								for fi, fe := range vcl.Elts {
									var val ast.Expr = fe
									var ftype types.Type
									if fkv, ok := fe.(*ast.KeyValueExpr); ok {
										val = fkv.Value
										if id, ok := fkv.Key.(*ast.Ident); ok {
											if fo, ok := p.TypesInfo.Uses[id].(*types.Var); ok {
												ftype = fo.Type()
											}
										}
									} else if fi < st.NumFields() {
										ftype = st.Field(fi).Type()
									}
									if ftype == nil {
										continue
									}
									funcOf := func(e ast.Expr) *types.Func {
										switch v := ast.Unparen(e).(type) {
										case *ast.Ident:
											f, _ := p.TypesInfo.Uses[v].(*types.Func)
											return f
										case *ast.SelectorExpr:
											f, _ := p.TypesInfo.Uses[v.Sel].(*types.Func)
											return f
										}
										return nil
									}
									if _, isSig := ftype.Underlying().(*types.Signature); isSig {
										te.Checker = funcOf(val)
										te.Checkers = append(te.Checkers, te.Checker)
									} else if _, isSl := ftype.Underlying().(*types.Slice); isSl && c03CheckerSigOf(ftype) != nil {
										// a list of checkers, all of which must accept
										te.Multi = true
										if lit, isLit := ast.Unparen(val).(*ast.CompositeLit); isLit {
											for _, ce := range lit.Elts {
												f := funcOf(ce)
												te.Checkers = append(te.Checkers, f)
												if te.Checker == nil {
													te.Checker = f
												}
											}
										}
									} else if _, isI := ftype.Underlying().(*types.Interface); isI {
										if tv, ok := p.TypesInfo.Types[val]; ok {
											te.Proto = tv.Type
										}
									}
								}
							}
							entries = append(entries, te)
						}
					}
				}
			}
		}
	}
	_ = root
	return
}

func isNamed(t types.Type, pkg, name string) bool {
	t = types.Unalias(t)
	n, ok := t.(*types.Named)
	if !ok {
		if p, isP := t.(*types.Pointer); isP {
			n, ok = types.Unalias(p.Elem()).(*types.Named)
		}
		if !ok {
			return false
		}
	}
	return n.Obj().Name() == name && n.Obj().Pkg() != nil && n.Obj().Pkg().Path() == pkg
}

func namedType(w *World, pkg, name string) *types.Named {
	p := w.typesPkg(pkg)
	if p == nil {
		return nil
	}
	o := p.Scope().Lookup(name)
	if o == nil {
		return nil
	}
	n, _ := o.Type().(*types.Named)
	return n
}

func runC03(c *Ctx) {
	w := c.W
	evType := namedType(w, pkgTypes, "EventType")
	if evType == nil {
		c.undecided("D1", "EventType", token.NoPos, "enum protocoltypes.EventType not found")
		return
	}
	global, entries, tpos := findEventTable(c)
	if global == nil {
		c.undecided("D1", "event table", token.NoPos, "no package-level map[EventType]struct{message, checker} found in %s", pkgRoot)
		return
	}
	// ---- D1: table exhaustive, right checker kind per type
	byVal := map[int64]tableEntry{}
	for _, e := range entries {
		byVal[e.KeyVal] = e
	}
	memo := map[string]map[string]bool{}
	var whys []string
	getDevicePk := func(t types.Type) bool {
		ms := types.NewMethodSet(t)
		for i := 0; i < ms.Len(); i++ {
			if ms.At(i).Obj().Name() == "GetDevicePk" {
				sig := ms.At(i).Obj().Type().(*types.Signature)
				if sig.Params().Len() == 0 && sig.Results().Len() == 1 {
					if sl, ok := sig.Results().At(0).Type().(*types.Slice); ok {
						if b, ok := sl.Elem().(*types.Basic); ok && b.Kind() == types.Byte {
							return true
						}
					}
				}
			}
		}
		return false
	}
	checkerFns := map[*ssa.Function]bool{}
	for _, k := range enumValues(evType) {
		v, _ := constant.Int64Val(k.Val())
		construct := "table[" + k.Name() + "]"
		e, ok := byVal[v]
		if strings.HasSuffix(k.Name(), "Undefined") || v == 0 {
			c.check(!ok, "D1", construct, tpos, "no entry for the undefined type", "the undefined event type has a table entry")
			continue
		}
		if !ok {
			c.fail("D1", construct, tpos, "event type has no table entry: events of this type can never be opened, or are handled outside the checked path")
			continue
		}
		if e.Checker == nil || len(e.Checkers) == 0 {
			c.fail("D1", construct, e.Pos, "entry has no statically resolvable checker function")
			continue
		}
		union := map[string]bool{}
		unresolved := false
		for _, cf := range e.Checkers {
			if cf == nil {
				unresolved = true
				continue
			}
			fn := w.Prog.FuncValue(cf)
			checkerFns[fn] = true
			c.analysed(fn)
			for k := range checkerKinds(w, fn, memo, &whys) {
				union[k] = true
			}
		}
		if unresolved {
			c.fail("D1", construct, e.Pos, "entry lists a checker that is not a statically resolvable function")
			continue
		}
		kinds := kindsString(union)
		want := "device"
		switch {
		case strings.HasSuffix(k.Name(), "GroupMemberDeviceAdded"):
			want = "device+member"
		case strings.HasSuffix(k.Name(), "MultiMemberGroupInitialMemberAnnounced"):
			want = "group"
		}
		okKinds := kinds == want
		msg := fmt.Sprintf("checker %s enforces {%s}, reference requires {%s}", e.Checker.Name(), kinds, want)
		if okKinds && strings.Contains(want, "device") {
			if e.Proto == nil || !getDevicePk(e.Proto) {
				okKinds = false
				msg = fmt.Sprintf("prototype %v given to a device checker does not implement GetDevicePk() []byte", e.Proto)
			}
		}
		c.check(okKinds, "D1", construct, e.Pos, msg, msg)
	}
	for _, e := range entries {
		if e.Key == nil {
			c.fail("D1", fmt.Sprintf("table[#%d]", e.KeyVal), e.Pos, "table key is not a declared EventType constant")
		}
	}
	// ---- D2: checker bodies
	fns := make([]*ssa.Function, 0, len(checkerFns))
	for f := range checkerFns {
		fns = append(fns, f)
	}
	sort.Slice(fns, func(i, j int) bool { return fns[i].String() < fns[j].String() })
	for _, fn := range fns {
		kinds := checkerKinds(w, fn, memo, &whys)
		construct := fnName(fn)
		if len(kinds) == 0 {
			c.fail("D2", construct, fn.Pos(), "no Verify on a required (key, data, signature) shape dominates the success returns: %s", strings.Join(whys, "; "))
			continue
		}
		// A3 on every Verify in the function: ok and err
		allOK := true
		for _, site := range verifySitesIn(fn, 2) {
			vds := site.Verdicts
			if site.Via == nil {
				vds = []ssa.Value{boolVerdict(site.Call), errVerdict(site.Call)}
			}
			for _, v := range vds {
				r := rejectOnFailure(fn, v)
				if !r.OK {
					allOK = false
					c.fail("D2", construct+"+Verify", posOf(site.Call), "Verify verdict: %s", r.Why)
				}
			}
		}
		if allOK {
			c.ok("D2", construct, fn.Pos(), "success returns dominated by accepting Verify of kind {%s}; failures reject", kindsString(kinds))
		}
	}
	// ---- D3: the open function(s) (c03_open.go)
	openers, decoderSet, okOpen := c03Openers(c, global)
	if !okOpen {
		return
	}
	// ---- D4: consumers use opened events only on the nil-error side
	// wrappers: functions whose error result is the opener's and which return derived values
	changed := true
	for changed {
		changed = false
		for _, fn := range w.ModFuncs {
			if openers[fn] || errResultIndex(fn.Signature) < 0 {
				continue
			}
			for _, b := range fn.Blocks {
				for _, in := range b.Instrs {
					call, ok := in.(*ssa.Call)
					if !ok {
						continue
					}
					cal := staticCallee(call.Common())
					if cal == nil || !openers[cal] {
						continue
					}
					// wrapper if it returns a value of the callee's non-error results
					for _, r := range returnsOf(fn) {
						for _, res := range retResults(r) {
							if ex, ok := stripConv(res).(*ssa.Extract); ok && ex.Tuple == ssa.Value(call) {
								if !openers[fn] {
									openers[fn] = true
									changed = true
								}
							}
						}
					}
				}
			}
		}
	}
	nUses := 0
	for _, fn := range w.ModFuncs {
		for _, b := range fn.Blocks {
			for _, in := range b.Instrs {
				call, ok := in.(*ssa.Call)
				if !ok {
					continue
				}
				cal := staticCallee(call.Common())
				if cal == nil || !openers[cal] {
					continue
				}
				c.analysed(fn)
				construct := fnName(fn) + "->" + fnName(cal)
				ev := errVerdict(call)
				if ev == nil {
					c.fail("D4", construct, posOf(call), "error of the open call is discarded; its results are used unchecked")
					continue
				}
				ve := edgesOfVerdict(ev)
				bad := ""
				n := 0
				for i := 0; i < call.Common().Signature().Results().Len(); i++ {
					if i == errResultIndex(call.Common().Signature()) {
						continue
					}
					for _, ex := range extractsOf(call, i) {
						if ex.Referrers() == nil {
							continue
						}
						for _, use := range *ex.Referrers() {
							n++
							if ret, isRet := use.(*ssa.Return); isRet {
								// returning results together with the error is fine if the error is returned too
								idx := errResultIndex(fn.Signature)
								if idx >= 0 && idx < len(retResults(ret)) && retResults(ret)[idx] == ev {
									continue
								}
							}
							dom := false
							for _, e := range ve.Accept {
								if edgeDominates(e, use.Block()) {
									dom = true
								}
							}
							if !dom {
								bad = c.pos(posOf(use))
							}
						}
					}
				}
				nUses += n
				c.check(bad == "", "D4", construct, posOf(call), fmt.Sprintf("%d uses of the opened event, all on the nil-error side", n), "opened event used at "+bad+" without the open call having succeeded")
			}
		}
	}
	c.count("uses_of_opened_events", nUses)
	// who builds GroupMetadataEvent / EventMetadataReceived
	for _, fn := range w.ModFuncs {
		if fnPkg(fn).Path() != pkgRoot {
			continue
		}
		for _, b := range fn.Blocks {
			for _, in := range b.Instrs {
				al, ok := in.(*ssa.Alloc)
				if !ok {
					continue
				}
				el := al.Type().(*types.Pointer).Elem()
				if _, isPtr := el.(*types.Pointer); isPtr || !isNamed(el, pkgTypes, "GroupMetadataEvent") {
					continue
				}
				// only allocations that carry content matter (an empty sentinel is no event)
				carries := false
				if al.Referrers() != nil {
					for _, r := range *al.Referrers() {
						if fa, ok := r.(*ssa.FieldAddr); ok && fa.Referrers() != nil {
							fname := el.Underlying().(*types.Struct).Field(fa.Field).Name()
							if fname != "Metadata" && fname != "Event" {
								continue
							}
							for _, r2 := range *fa.Referrers() {
								if st, ok := r2.(*ssa.Store); ok && !isNilConst(st.Val) {
									carries = true
								}
							}
						}
					}
				}
				if !carries {
					continue
				}
				// allowed: inside opener chain, or in a function only called by openers
				okb := openers[fn]
				if !okb {
					callers := w.callGraph().callers[fn]
					okb = len(callers) > 0
					for _, cs := range callers {
						if openers[cs.Caller] {
							continue
						}
						// otherwise the call must sit on the nil-error side of an open call in the caller
						dom := false
						for _, b2 := range cs.Caller.Blocks {
							for _, in2 := range b2.Instrs {
								oc, ok := in2.(*ssa.Call)
								if !ok {
									continue
								}
								if cal := staticCallee(oc.Common()); cal == nil || !openers[cal] {
									continue
								}
								if v := errVerdict(oc); v != nil {
									for _, e := range edgesOfVerdict(v).Accept {
										if edgeDominates(e, cs.Instr.Block()) {
											dom = true
										}
									}
								}
							}
						}
						if !dom {
							okb = false
							c.note("%s is called from %s outside the nil-error side of an open call", fnName(fn), fnName(cs.Caller))
						}
					}
				}
				c.check(okb, "D4", fnName(fn)+"+new(GroupMetadataEvent)", al.Pos(), "metadata events are built only by the checked open path", "a GroupMetadataEvent is built outside the checked open path")
			}
		}
	}
	// nobody else decodes a GroupMetadata from bytes
	for _, fn := range w.ModFuncs {
		if p := fnPkg(fn).Path(); p != pkgRoot {
			continue
		}
		for _, u := range callsIn(fn, keyIs(keyProtoU)) {
			ua := u.Common().Args
			if len(ua) == 2 {
				if mi, ok := ua[1].(*ssa.MakeInterface); ok && isNamed(mi.X.Type(), pkgTypes, "GroupMetadata") {
					c.check(decoderSet[fn], "D4", fnName(fn)+"+Unmarshal(GroupMetadata)", posOf(u), "GroupMetadata decoded only inside the open function", "GroupMetadata decoded from bytes outside the checked open function")
				}
			}
		}
	}
}

func stripConv(v ssa.Value) ssa.Value {
	for {
		switch x := v.(type) {
		case *ssa.MakeInterface:
			v = x.X
		case *ssa.ChangeInterface:
			v = x.X
		case *ssa.ChangeType:
			v = x.X
		default:
			return v
		}
	}
}

type localPath struct {
	Base ssa.Value
	Path string
}

// accessPathLocal: v is a load of a field chain from a local base value (alloc or call result).
func accessPathLocal(v ssa.Value) (localPath, bool) {
	path := ""
	for {
		switch x := v.(type) {
		case *ssa.UnOp:
			if x.Op != token.MUL {
				return localPath{}, false
			}
			v = x.X
		case *ssa.FieldAddr:
			st := x.X.Type().Underlying().(*types.Pointer).Elem().Underlying().(*types.Struct)
			path = "." + st.Field(x.Field).Name() + path
			v = x.X
		case *ssa.Call:
			if f := staticCallee(x.Common()); f != nil && strings.HasPrefix(f.Name(), "Get") && len(x.Common().Args) == 1 && f.Signature.Recv() != nil {
				path = "." + strings.TrimPrefix(f.Name(), "Get") + path
				v = x.Common().Args[0]
				continue
			}
			return localPath{v, path}, path != ""
		default:
			return localPath{v, path}, path != ""
		}
	}
}

func isGlobalLoad(v ssa.Value, g *types.Var) bool {
	u, ok := v.(*ssa.UnOp)
	if !ok || u.Op != token.MUL {
		return false
	}
	gl, ok := u.X.(*ssa.Global)
	return ok && gl.Object() == g
}

func globalName(w *World, g *types.Var) string {
	return g.Pkg().Path() + "." + g.Name()
}
