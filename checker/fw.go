package main

// Framework: obligations, evidence, known findings, violations.

import (
	"encoding/json"
	"fmt"
	"go/token"
	"os"
	"path/filepath"
	"sort"
	"strings"
	"time"

	"golang.org/x/tools/go/packages"
	"golang.org/x/tools/go/ssa"
)

const modulePath = "berty.tech/weshnet/v2"

// verifDir is /verif unless WV_VERIF_DIR is set (scratch copies used while developing rules).
var verifDir = func() string {
	if d := os.Getenv("WV_VERIF_DIR"); d != "" {
		return d
	}
	return "/verif"
}()

type Verdict string

const (
	VOK        Verdict = "ok"
	VViolation Verdict = "violation"
	VUndecided Verdict = "analysis-failure"
)

// Obligation is one (rule, instance, construct) proof obligation with its verdict.
type Obligation struct {
	Rule      string  `json:"rule"`      // e.g. C01.D1
	Construct string  `json:"construct"` // identity: package.func[+callee/field/key]; never a line number
	Pos       string  `json:"pos"`       // file:line (reported, not identity)
	Verdict   Verdict `json:"verdict"`
	Msg       string  `json:"msg"`
	Known     bool    `json:"known_finding,omitempty"`
}

type KnownFinding struct {
	Property  string `json:"property"`
	Rule      string `json:"rule"`
	Construct string `json:"construct"`
	WhatFails string `json:"what_fails"`
	Status    string `json:"status"` // open | fixed
	Commit    string `json:"commit,omitempty"`
}

type PropertyDef struct {
	ID          string
	Title       string
	Explanation string
	Trusted     []string
	Assumptions []string
	// Floors: rule -> minimum number of obligations that must have been produced
	Floors map[string]int
	Run    func(c *Ctx)
	// Borrows: rules of other properties that are necessary conditions of this one as well;
	// their obligations are recomputed here and reported under <ID>.<From>.<Rule>.
	Borrows []Borrow
}

// Borrow names rules of another property (From) that this property also depends on.
type Borrow struct {
	From  string
	Rules []string // e.g. "D1"
	Why   string
}

var registry = map[string]*PropertyDef{}

func register(p *PropertyDef) {
	if len(p.Borrows) > 0 {
		var parts []string
		for _, b := range p.Borrows {
			parts = append(parts, fmt.Sprintf("%s.{%s}: %s", b.From, strings.Join(b.Rules, ","), b.Why))
		}
		p.Explanation += " Also decided here on every run, because they are necessary conditions of this property too (rules owned by another property, reported as " + p.ID + ".<owner>.<rule>; see that property's evidence for their definition): " + strings.Join(parts, "; ") + "."
	}
	registry[p.ID] = p
}

// Ctx is the per-run analysis context for one property.
type Ctx struct {
	W     *World
	Prop  *PropertyDef
	Obs   []Obligation
	Notes []string
	stats map[string]int
	funcs map[string]bool // functions analysed
}

func (c *Ctx) pos(p token.Pos) string {
	if !p.IsValid() {
		return "-"
	}
	pp := c.W.Fset.Position(p)
	f := pp.Filename
	if rel, err := filepath.Rel(c.W.RepoDir, f); err == nil && !strings.HasPrefix(rel, "..") {
		f = rel
	}
	return fmt.Sprintf("%s:%d", f, pp.Line)
}

func (c *Ctx) add(rule, construct string, p token.Pos, v Verdict, format string, a ...any) {
	c.Obs = append(c.Obs, Obligation{Rule: c.Prop.ID + "." + rule, Construct: construct, Pos: c.pos(p), Verdict: v, Msg: fmt.Sprintf(format, a...)})
}
func (c *Ctx) ok(rule, construct string, p token.Pos, format string, a ...any) {
	c.add(rule, construct, p, VOK, format, a...)
}
func (c *Ctx) fail(rule, construct string, p token.Pos, format string, a ...any) {
	c.add(rule, construct, p, VViolation, format, a...)
}
func (c *Ctx) undecided(rule, construct string, p token.Pos, format string, a ...any) {
	c.add(rule, construct, p, VUndecided, format, a...)
}

// check adds ok or fail depending on cond.
func (c *Ctx) check(cond bool, rule, construct string, p token.Pos, okMsg, failMsg string) bool {
	if cond {
		c.ok(rule, construct, p, "%s", okMsg)
	} else {
		c.fail(rule, construct, p, "%s", failMsg)
	}
	return cond
}

func (c *Ctx) note(format string, a ...any) { c.Notes = append(c.Notes, fmt.Sprintf(format, a...)) }
func (c *Ctx) count(k string, n int) {
	if c.stats == nil {
		c.stats = map[string]int{}
	}
	c.stats[k] += n
}
func (c *Ctx) analysed(fn *ssa.Function) {
	if fn == nil {
		return
	}
	if c.funcs == nil {
		c.funcs = map[string]bool{}
	}
	c.funcs[fn.String()] = true
}

// ---------------------------------------------------------------------------

type runResult struct {
	Obs        []Obligation
	Notes      []string
	Stats      map[string]int
	Funcs      []string
	Violations []Obligation // not known
	Known      []Obligation
	Failures   []Obligation // analysis failures
}

func runProperty(w *World, p *PropertyDef, known []KnownFinding) (res runResult) {
	c := &Ctx{W: w, Prop: p}
	// complete the module call graph with calls made through local tables of closures / function
	// values (steps run by a loop): done once per program, for every property alike, so that a
	// verdict does not depend on which other property ran before in the same process
	func() {
		defer func() { _ = recover() }()
		c09Tables(w)
		helperClosureEdges(w)
	}()
	func() {
		defer func() {
			if r := recover(); r != nil {
				c.undecided("PANIC", "checker", token.NoPos, "analyser panic: %v", r)
				if os.Getenv("WV_DEBUG") != "" {
					panic(r)
				}
			}
		}()
		p.Run(c)
	}()
	// borrowed rules: run the owning property's rules on the same program and take over the
	// obligations of the named rules (with that property's floors)
	for _, b := range p.Borrows {
		src := registry[b.From]
		if src == nil {
			c.undecided(b.From, "borrow", token.NoPos, "property %s (borrowed rules %v) is not registered", b.From, b.Rules)
			continue
		}
		sc := &Ctx{W: w, Prop: src}
		func() {
			defer func() {
				if r := recover(); r != nil {
					c.undecided(b.From+".PANIC", "checker", token.NoPos, "analyser panic in borrowed rules: %v", r)
				}
			}()
			src.Run(sc)
		}()
		for _, r := range b.Rules {
			n := 0
			for _, o := range sc.Obs {
				if o.Rule == b.From+"."+r {
					o.Rule = p.ID + "." + b.From + "." + r
					c.Obs = append(c.Obs, o)
					n++
				}
			}
			if min := src.Floors[r]; n < min {
				c.undecided(b.From+"."+r, "floor", token.NoPos, "borrowed rule produced %d obligations, fewer than the %d confirmed by hand on the reference tree: anchors not found", n, min)
			}
		}
		for f := range sc.funcs {
			if c.funcs == nil {
				c.funcs = map[string]bool{}
			}
			c.funcs[f] = true
		}
	}
	// floors
	perRule := map[string]int{}
	for _, o := range c.Obs {
		perRule[o.Rule]++
	}
	rules := make([]string, 0, len(p.Floors))
	for r := range p.Floors {
		rules = append(rules, r)
	}
	sort.Strings(rules)
	for _, r := range rules {
		min := p.Floors[r]
		if got := perRule[p.ID+"."+r]; got < min {
			c.undecided(r, "floor", token.NoPos, "rule produced %d obligations, fewer than the %d confirmed by hand on the reference tree: anchors not found", got, min)
		}
	}
	for i := range c.Obs {
		o := &c.Obs[i]
		switch o.Verdict {
		case VViolation:
			for _, k := range known {
				if k.Status == "open" && k.Property == p.ID && k.Rule == o.Rule && k.Construct == o.Construct {
					o.Known = true
				}
			}
			if o.Known {
				res.Known = append(res.Known, *o)
			} else {
				res.Violations = append(res.Violations, *o)
			}
		case VUndecided:
			res.Failures = append(res.Failures, *o)
		}
	}
	res.Obs = c.Obs
	res.Notes = c.Notes
	res.Stats = c.stats
	for f := range c.funcs {
		res.Funcs = append(res.Funcs, f)
	}
	sort.Strings(res.Funcs)
	return
}

func loadKnown() []KnownFinding {
	var out struct {
		Findings []KnownFinding `json:"findings"`
	}
	b, err := os.ReadFile(filepath.Join(verifDir, "KNOWN_FINDINGS.json"))
	if err != nil {
		return nil
	}
	if err := json.Unmarshal(b, &out); err != nil {
		fmt.Fprintf(os.Stderr, "KNOWN_FINDINGS.json unreadable: %v\n", err)
		return nil
	}
	return out.Findings
}

type selfTestSummary struct {
	FixturesFired   int      `json:"fixtures_fired"`
	FixturesTotal   int      `json:"fixtures_total"`
	MutantsKilled   int      `json:"mutants_killed"`
	MutantsTotal    int      `json:"mutants_total"`
	MutantsSkipped  []string `json:"mutants_skipped,omitempty"`
	MutantsSurvived []string `json:"mutants_survived,omitempty"`
	ControlsSilent  int      `json:"negative_controls_silent"`
	ControlsTotal   int      `json:"negative_controls_total"`
	ControlsNoisy   []string `json:"negative_controls_noisy,omitempty"`
	Details         []string `json:"details,omitempty"`
}

func writeEvidence(p *PropertyDef, tier string, res runResult, w *World, st *selfTestSummary, wall time.Duration, cmd string) error {
	perRule := map[string]int{}
	discharged := 0
	for _, o := range res.Obs {
		perRule[o.Rule]++
		if o.Verdict == VOK {
			discharged++
		}
	}
	samples := []any{}
	// at most 60 samples: all non-ok first, then ok ones spread over rules
	for _, o := range res.Obs {
		if o.Verdict != VOK {
			samples = append(samples, o)
		}
	}
	seen := map[string]int{}
	for _, o := range res.Obs {
		if o.Verdict == VOK && seen[o.Rule] < 4 && len(samples) < 80 {
			seen[o.Rule]++
			samples = append(samples, o)
		}
	}
	seed := 0
	fmt.Sscanf(os.Getenv("VERIF_SEED"), "%d", &seed)
	cov := map[string]any{
		"explanation":        p.Explanation,
		"obligations":        len(res.Obs),
		"discharged":         discharged,
		"known_findings":     len(res.Known),
		"rule_instances":     perRule,
		"functions_analysed": len(res.Funcs),
		"functions":          res.Funcs,
		"packages":           w.PkgCount,
		"module_functions":   len(w.ModFuncs),
		"counters":           res.Stats,
		"samples":            samples,
		"exhaustive":         true,
		"checker_cmd":        cmd,
		"trusted_base":       p.Trusted,
		"notes":              res.Notes,
		"evaluations":        len(res.Obs),
		"distinct_nontrivial": func() int {
			m := map[string]bool{}
			for _, o := range res.Obs {
				m[o.Rule+"|"+o.Construct] = true
			}
			return len(m)
		}(),
		"rule": "every rule instance found in the type-checked SSA of /repo is one obligation; distinct = distinct (rule, construct) pairs",
	}
	if st != nil {
		cov["self_test"] = st
	}
	ev := map[string]any{
		"property_id": p.ID,
		"tier":        tier,
		"seed":        seed,
		"level":       "other",
		"coverage":    cov,
		"assumptions": p.Assumptions,
		"wall_s":      wall.Seconds(),
		"violations":  len(res.Violations) + len(res.Failures),
	}
	b, err := json.MarshalIndent(ev, "", " ")
	if err != nil {
		return err
	}
	dir := filepath.Join(verifDir, "evidence")
	os.MkdirAll(dir, 0o755)
	return os.WriteFile(filepath.Join(dir, p.ID+".json"), b, 0o644)
}

func writeViolations(p *PropertyDef, res runResult) (string, error) {
	dir := filepath.Join(verifDir, "out", p.ID)
	os.MkdirAll(dir, 0o755)
	path := filepath.Join(dir, "violations.json")
	type rec struct {
		Kind string `json:"kind"`
		Obligation
	}
	var out []rec
	for _, o := range res.Violations {
		out = append(out, rec{"violation", o})
	}
	for _, o := range res.Failures {
		out = append(out, rec{"analysis-failure", o})
	}
	b, _ := json.MarshalIndent(map[string]any{"property": p.ID, "reports": out}, "", " ")
	return path, os.WriteFile(path, b, 0o644)
}

// World is the loaded program.
type World struct {
	RepoDir  string
	Fset     *token.FileSet
	Pkgs     []*packages.Package
	Prog     *ssa.Program
	SPkgs    []*ssa.Package
	PkgCount int
	ModFuncs []*ssa.Function // every function with a body in module packages (incl. anonymous, generic origins)
	byPkg    map[string]*ssa.Package
	cg       *modCallGraph
	memo     map[string]any
}
