package main

import "os"

func debugOn() bool { return os.Getenv("WV_TRACE") != "" }
