package main

// C18 — length-delimited framing (pkg/protoio): bound before allocation, full-width
// comparison, errors surfaced, chunk-agnostic reads, prefix codec agreement.
//
// Subjects are found by role: the exported constructors protoio.New*Delimited{Reader,Writer},
// the concrete types they return, the ReadMsg / WriteMsg methods of those types (interface
// methods of the exported protoio.Reader / protoio.Writer) and the module functions these
// call statically. Library callees are matched by resolved package and name
// (encoding/binary, io, bufio, google.golang.org/protobuf/proto).

import (
	"fmt"
	"go/constant"
	"go/token"
	"go/types"
	"sort"
	"strings"

	"golang.org/x/tools/go/ssa"
)

const c18Pkg = modulePath + "/pkg/protoio"

// Word sizes of `int` the module is built for. weshnet ships for 32-bit mobile targets
// (android/arm, 386) as well as 64-bit ones; pkg/protoio has no build-tagged file, so its
// typed program is the same under both and the width of int/uint/uintptr is the only
// difference. Rules D1 and D2 are evaluated once per entry.
var c18WordSizes = []int{64, 32}

func init() {
	register(&PropertyDef{
		ID:    "C18",
		Title: "Length-delimited framing round-trips any message sequence and enforces its bound",
		Explanation: "Decides, on the type-checked SSA of the ReadMsg/WriteMsg methods of the types returned by protoio.NewDelimitedReader/Writer and NewUint32DelimitedReader/Writer (and the module functions they call statically): " +
			"(D1) the reader's limit is the constructor's size parameter stored unchanged; every success return that follows the decoding of a length prefix passes the within-limit side of a comparison `prefix <= limit` made on an image of the prefix (exact operator: a frame of exactly the limit is accepted, limit+1 rejected; the exceeding side reaches only error returns); every make/slice/size-taking call whose operand derives from the prefix is dominated by the within side of an upper-bound comparison and the operand is provably non-negative (unsigned type, widening from unsigned, or a dominating sign test) — evaluated for int=64 and int=32; " +
			"(D2) no integer conversion between the decoded prefix (or the limit) and a comparison/use narrows the value before it has been bounded, for int=64 and int=32; when the prefix is decoded by a module function of the uvarint shape (ReadByte in a loop, byte masked with 0x7f, shift growing by 7) instead of binary.ReadUvarint, a call to it counts as the prefix decode for D1/D5 and the function is evaluated over a finite domain of byte classes and positions (absint.go; nothing is executed): more than 10 bytes, a 10th byte above 1, an endless run of continuation bytes and a ReadByte error must all end in an error return, as in binary.ReadUvarint — otherwise bits are shifted out and the length compared is a truncation of the wire prefix; " +
			"(D3) the error of every decode/read/write/marshal call in the reader and writer paths is tested with a failing side that reaches only error returns, or is returned; the bytes given to proto.Unmarshal are exactly the bytes of a preceding full read whose success dominates the decode; every success return of ReadMsg passes the nil-error side of that decode; " +
			"(D4) the reader obtains bytes only through chunk-agnostic calls (io.ReadFull, io.ReadAtLeast with min=len(buf), binary.ReadUvarint/ReadByte on the buffered reader), never a bare Read (a Read inside a loop that uses the count is accepted with a note); the object those calls read from is resolved from what the constructors store in the reader's field: a library type (bufio.Reader, ...) or the caller's reader as given is accepted (a caller-supplied io.ByteReader picked up by a type assertion is noted), while for a module type the ReadByte/Read method the library call will invoke must itself honour the io.Reader contract — every bare Read in it uses the byte count and no return on the error side is reached before the count has been examined (bytes delivered together with io.EOF must not be lost); " +
			"(D5) writer and reader of one pair use the same prefix codec family and width, the same byte-order source, the reader reads exactly the prefix width, and on the writer's marshal-then-write path the value encoded is len(body) of the very slice written after the prefix (prefix first); functions handed on as VALUES (a plain function, closure or bound method passed to a helper's func-typed parameter) belong to the analysed set, a call through such a parameter is bound to the values passed at the call sites of the writer being analysed, and the frame assembly (len(body), the two writes, their order, the prefix buffer's length) is judged in the function that takes len(body), once per writer. " +
			"Not decided: byte-identical round trip of message contents (protobuf is trusted), that the grow-if-needed test makes the slice fit its buffer, the length arithmetic of the marshaler fast path (Size()+MarshalTo into one buffer; noted), overflow of the writer's uint32 prefix for bodies of 4 GiB and more (noted), stores to the reused buffer between the read and the decode, behaviour of NewFullReader/NewFullWriter (not length-delimited), anything executed.",
		Trusted:     []string{"golang.org/x/tools go/packages+go/ssa (v0.29.0), go/types", "encoding/binary, io.ReadFull/ReadAtLeast, bufio.Reader and google.golang.org/protobuf/proto behave as documented (proto.Unmarshal copies what it keeps)", "package-level error variables (io.ErrShortBuffer, io.EOF, ...) are non-nil"},
		Assumptions: []string{"the configured limit is non-negative and representable in every integer type the length passes through", "int is 32 or 64 bits wide; pkg/protoio has no architecture-specific files", "only module code is analysed; dependencies by their typed API"},
		Floors:      map[string]int{"D1": 8, "D2": 4, "D3": 17, "D4": 5, "D5": 7},
		Run:         runC18,
	})
}

// ---------------------------------------------------------------------------
// small helpers

type c18Field struct {
	S *types.Struct
	I int
}

func (f c18Field) name() string {
	if f.S == nil || f.I >= f.S.NumFields() {
		return "?"
	}
	return f.S.Field(f.I).Name()
}

// c18CallInfo resolves the package path, receiver type name and name of the called function.
func c18CallInfo(cc *ssa.CallCommon) (pkg, recv, name string) {
	if cc.IsInvoke() {
		name = cc.Method.Name()
		t := cc.Value.Type()
		if n, ok := t.(*types.Named); ok && n.Obj() != nil {
			recv = n.Obj().Name()
			if n.Obj().Pkg() != nil {
				pkg = n.Obj().Pkg().Path()
			}
		}
		return
	}
	if b, ok := cc.Value.(*ssa.Builtin); ok {
		return "builtin", "", b.Name()
	}
	f := staticCallee(cc)
	if f == nil {
		return "", "", ""
	}
	if o := f.Origin(); o != nil {
		f = o
	}
	name = f.Name()
	if obj := f.Object(); obj != nil && obj.Pkg() != nil {
		pkg = obj.Pkg().Path()
	} else if p := fnPkg(f); p != nil {
		pkg = p.Path()
	}
	if r := f.Signature.Recv(); r != nil {
		t := r.Type()
		if p, ok := t.(*types.Pointer); ok {
			t = p.Elem()
		}
		if n, ok := t.(*types.Named); ok {
			recv = n.Obj().Name()
		}
	}
	return
}

// c18Args returns the arguments of a call without the receiver.
func c18Args(cc *ssa.CallCommon) []ssa.Value {
	if cc.IsInvoke() {
		return cc.Args
	}
	if f := staticCallee(cc); f != nil && f.Signature.Recv() != nil && len(cc.Args) > 0 {
		return cc.Args[1:]
	}
	return cc.Args
}

func c18Recv(cc *ssa.CallCommon) ssa.Value {
	if cc.IsInvoke() {
		return cc.Value
	}
	if f := staticCallee(cc); f != nil && f.Signature.Recv() != nil && len(cc.Args) > 0 {
		return cc.Args[0]
	}
	return nil
}

func c18IntType(t types.Type) (*types.Basic, bool) {
	b, ok := t.Underlying().(*types.Basic)
	if !ok || b.Info()&types.IsInteger == 0 {
		return nil, false
	}
	return b, true
}

func c18Width(t types.Type, word int) int {
	b, ok := c18IntType(t)
	if !ok {
		return 0
	}
	switch b.Kind() {
	case types.Int8, types.Uint8:
		return 8
	case types.Int16, types.Uint16:
		return 16
	case types.Int32, types.Uint32:
		return 32
	case types.Int64, types.Uint64:
		return 64
	case types.Int, types.Uint, types.Uintptr:
		return word
	}
	return 64 // untyped constants
}

func c18Unsigned(t types.Type) bool {
	b, ok := c18IntType(t)
	return ok && b.Info()&types.IsUnsigned != 0
}

func c18Narrowing(cv *ssa.Convert, word int) bool {
	if _, ok := c18IntType(cv.X.Type()); !ok {
		return false
	}
	if _, ok := c18IntType(cv.Type()); !ok {
		return false
	}
	return c18Width(cv.Type(), word) < c18Width(cv.X.Type(), word)
}

func c18ConvString(cv *ssa.Convert) string {
	return fmt.Sprintf("%s(%s)", types.TypeString(cv.Type(), nil), types.TypeString(cv.X.Type(), nil))
}

func c18ShortFn(fn *ssa.Function) string { return fnName(fn) }

// c18StaticClosure: fn plus the module functions it reaches through static calls (and its
// closures), depth-limited. Interface calls are not followed: the stream, the byte order and
// the message are foreign objects.
func c18StaticClosure(root *ssa.Function, depth int) []*ssa.Function {
	seen := map[*ssa.Function]int{root: 0}
	q := []*ssa.Function{root}
	for len(q) > 0 {
		f := q[0]
		q = q[1:]
		if seen[f] >= depth {
			continue
		}
		var next []*ssa.Function
		for _, b := range f.Blocks {
			for _, in := range b.Instrs {
				if ci, ok := in.(ssa.CallInstruction); ok {
					if cal := staticCallee(ci.Common()); cal != nil {
						if o := cal.Origin(); o != nil && cal.Blocks == nil {
							cal = o
						}
						next = append(next, cal)
					}
				}
				// functions used as values (a function or bound method handed to a helper
				// that calls it through a func-typed parameter)
				var ops [8]*ssa.Value
				for _, op := range in.Operands(ops[:0]) {
					if op == nil || *op == nil {
						continue
					}
					switch v := (*op).(type) {
					case *ssa.Function:
						next = append(next, v)
					case *ssa.MakeClosure:
						if fv, ok := v.Fn.(*ssa.Function); ok {
							next = append(next, fv)
						}
					}
				}
			}
		}
		next = append(next, f.AnonFuncs...)
		for _, n := range next {
			if _, ok := seen[n]; !ok && n.Blocks != nil && inModule(n) {
				seen[n] = seen[f] + 1
				q = append(q, n)
			}
		}
	}
	out := make([]*ssa.Function, 0, len(seen))
	for f := range seen {
		out = append(out, f)
	}
	sort.Slice(out, func(i, j int) bool {
		if seen[out[i]] != seen[out[j]] {
			return seen[out[i]] < seen[out[j]]
		}
		return out[i].String() < out[j].String()
	})
	return out
}

// c18ConcreteTypes: the dynamic types of the first result of constructor fn.
func c18ConcreteTypes(fn *ssa.Function, depth int) []types.Type {
	var out []types.Type
	if fn == nil || fn.Blocks == nil || depth > 3 {
		return nil
	}
	add := func(t types.Type) {
		for _, x := range out {
			if types.Identical(x, t) {
				return
			}
		}
		out = append(out, t)
	}
	var visit func(v ssa.Value, d int)
	visit = func(v ssa.Value, d int) {
		if d > 6 {
			return
		}
		switch x := v.(type) {
		case *ssa.MakeInterface:
			add(x.X.Type())
		case *ssa.ChangeInterface:
			visit(x.X, d+1)
		case *ssa.Phi:
			for _, e := range x.Edges {
				visit(e, d+1)
			}
		case *ssa.Call:
			if cal := staticCallee(x.Common()); cal != nil && inModule(cal) {
				for _, t := range c18ConcreteTypes(cal, depth+1) {
					add(t)
				}
			}
		default:
			if _, isI := v.Type().Underlying().(*types.Interface); !isI {
				add(v.Type())
			}
		}
	}
	for _, r := range returnsOf(fn) {
		if res := retResults(r); len(res) > 0 {
			visit(res[0], 0)
		}
	}
	return out
}

// ---------------------------------------------------------------------------
// error-return classification (local: also knows package-level error sentinels)

func c18NonNilErr(v ssa.Value, at *ssa.BasicBlock, depth int) bool {
	if v == nil || depth > 6 {
		return false
	}
	if definitelyNonNilErr(v, at, 0) {
		return true
	}
	switch x := v.(type) {
	case *ssa.UnOp:
		if x.Op == token.MUL {
			if g, ok := x.X.(*ssa.Global); ok && g.Pkg != nil {
				if p, ok := g.Type().(*types.Pointer); ok && isErrorType(p.Elem()) {
					return true // sentinel error variable
				}
			}
		}
	case *ssa.Phi:
		for _, e := range x.Edges {
			if !c18NonNilErr(e, at, depth+1) {
				return false
			}
		}
		return len(x.Edges) > 0
	}
	return false
}

// c18FlowsTo: v reaches res through phis only.
func c18FlowsTo(v, res ssa.Value, depth int) bool {
	if v == res {
		return true
	}
	if depth > 4 {
		return false
	}
	if p, ok := res.(*ssa.Phi); ok {
		for _, e := range p.Edges {
			if c18FlowsTo(v, e, depth+1) {
				return true
			}
		}
	}
	return false
}

// c18TailOf: res is nil only if v is nil (res is v, or a phi of v and definitely non-nil errors).
func c18TailOf(v, res ssa.Value, at *ssa.BasicBlock, depth int) bool {
	if v == res {
		return true
	}
	if p, ok := res.(*ssa.Phi); ok && depth < 4 {
		for _, e := range p.Edges {
			if !c18TailOf(v, e, at, depth+1) && !c18NonNilErr(e, nil, 0) {
				return false
			}
		}
		return len(p.Edges) > 0
	}
	return false
}

// c18SuccessReturn: r may return a nil error. verdicts are error values whose return counts
// as an error return (the failing call's own error handed to the caller).
func c18SuccessReturn(r *ssa.Return, verdicts ...ssa.Value) bool {
	fn := r.Parent()
	idx := errResultIndex(fn.Signature)
	res := retResults(r)
	if idx < 0 || idx >= len(res) {
		return true
	}
	for _, v := range verdicts {
		if v != nil && c18TailOf(v, res[idx], r.Block(), 0) {
			return false
		}
	}
	return !c18NonNilErr(res[idx], r.Block(), 0)
}

// c18Reject (A3): error verdict v is tested with a failing side that reaches only error
// returns, or v is handed to the caller as the function's error.
func c18Reject(fn *ssa.Function, v ssa.Value) (bool, string) {
	if v == nil {
		return false, "error result is discarded"
	}
	idx := errResultIndex(fn.Signature)
	ve := edgesOfVerdict(v)
	if len(ve.Ifs) == 0 {
		if idx >= 0 {
			for _, r := range returnsOf(fn) {
				if res := retResults(r); idx < len(res) && c18FlowsTo(v, res[idx], 0) {
					return true, "error returned to the caller"
				}
			}
		}
		return false, "error is neither tested nor returned"
	}
	region := reachFromEdges(ve.Reject, nil)
	for _, r := range returnsOf(fn) {
		if !region[r.Block()] {
			continue
		}
		res := retResults(r)
		if idx >= 0 && idx < len(res) && c18FlowsTo(v, res[idx], 0) {
			continue
		}
		if c18SuccessReturn(r) {
			return false, "a success return is reachable after the call failed"
		}
	}
	return true, "failing side reaches only error returns"
}

// ---------------------------------------------------------------------------
// the per-side analysis

type c18Point struct {
	Blk *ssa.BasicBlock
	At  ssa.Instruction // nil = end of block
	Via *edge           // the point is on this edge (phi operands)
}

func c18At(in ssa.Instruction) c18Point { return c18Point{Blk: in.Block(), At: in} }

type c18Trace struct {
	Wire   []ssa.Value // decoded-prefix sources
	Limit  bool        // load of the reader's limit field
	Fields []c18Field
	Consts []*ssa.Const
	Lens   []*ssa.Call // len()/cap()
	Params []*ssa.Parameter
	Other  []ssa.Value
	Convs  []*ssa.Convert
	Arith  []ssa.Instruction
}

func (t *c18Trace) isWire() bool { return len(t.Wire) > 0 }

// pureLimit: the value is the limit and nothing else (conversions allowed).
func (t *c18Trace) pureLimit() bool {
	return t.Limit && len(t.Wire) == 0 && len(t.Fields) == 0 && len(t.Lens) == 0 && len(t.Params) == 0 && len(t.Other) == 0 && len(t.Arith) == 0 && len(t.Consts) == 0
}

type c18Guard struct {
	If             *ssa.If
	A, B           ssa.Value // A derives from the wire, B does not
	Within, Exceed edge
	Exact          bool // within side is exactly A <= B
	Fn             *ssa.Function
}

type c18Sign struct {
	If          *ssa.If
	A           ssa.Value
	NonNeg, Neg edge
}

type c18Side struct {
	c      *Ctx
	w      *World
	root   *ssa.Function
	set    []*ssa.Function
	inSet  map[*ssa.Function]bool
	limit  map[c18Field]bool
	traces map[ssa.Value]*c18Trace
	upper  map[ssa.Value][]*c18Guard
	signs  map[ssa.Value][]*c18Sign
	guards []*c18Guard
	// module functions of the set recognised as hand-written uvarint decoders: a call to one
	// is a prefix decode, like binary.ReadUvarint
	decoders map[*ssa.Function]bool
	dyn      map[ssa.CallInstruction][]*ssa.Function
	dynBusy  map[ssa.CallInstruction]bool
}

func newC18Side(c *Ctx, root *ssa.Function, limit map[c18Field]bool) *c18Side {
	s := &c18Side{c: c, w: c.W, root: root, limit: limit, inSet: map[*ssa.Function]bool{}, traces: map[ssa.Value]*c18Trace{},
		upper: map[ssa.Value][]*c18Guard{}, signs: map[ssa.Value][]*c18Sign{}, decoders: map[*ssa.Function]bool{}}
	s.set = c18StaticClosure(root, 4)
	for _, f := range s.set {
		s.inSet[f] = true
		c.analysed(f)
	}
	for _, f := range s.set {
		if f != root && c18UvarintDecoderShape(f) {
			s.decoders[f] = true
		}
	}
	return s
}

// isSource: the call decodes a length prefix (library decoder or recognised module decoder).
func (s *c18Side) isSource(cc *ssa.CallCommon) bool {
	if _, _, ok := c18Source(cc); ok {
		return true
	}
	cal := staticCallee(cc)
	return cal != nil && s.decoders[cal]
}

// c18Source: call decodes an integer from wire bytes; idx is the result carrying it.
func c18Source(cc *ssa.CallCommon) (label string, idx int, ok bool) {
	pkg, recv, name := c18CallInfo(cc)
	switch {
	case pkg == "encoding/binary" && recv == "" && (name == "ReadUvarint" || name == "ReadVarint" || name == "Uvarint" || name == "Varint"):
		return "binary." + name, 0, true
	case pkg == "encoding/binary" && recv != "" && (name == "Uint16" || name == "Uint32" || name == "Uint64"):
		return "ByteOrder." + name, 0, true
	case name == "ReadByte" && (pkg == "bufio" || pkg == "io" || pkg == "bytes"):
		return recv + ".ReadByte", 0, true
	}
	return "", 0, false
}

func c18FieldOfAddr(v ssa.Value) (c18Field, bool) {
	fa, ok := v.(*ssa.FieldAddr)
	if !ok {
		return c18Field{}, false
	}
	p, ok := fa.X.Type().Underlying().(*types.Pointer)
	if !ok {
		return c18Field{}, false
	}
	st, ok := p.Elem().Underlying().(*types.Struct)
	if !ok {
		return c18Field{}, false
	}
	return c18Field{st, fa.Field}, true
}

func (s *c18Side) callSites(fn *ssa.Function) []ssa.CallInstruction {
	var out []ssa.CallInstruction
	for _, f := range s.set {
		for _, b := range f.Blocks {
			for _, in := range b.Instrs {
				ci, ok := in.(ssa.CallInstruction)
				if !ok {
					continue
				}
				if staticCallee(ci.Common()) == fn {
					out = append(out, ci)
					continue
				}
				for _, t := range s.dynTargets(ci) {
					if t == fn {
						out = append(out, ci)
						break
					}
				}
			}
		}
	}
	return out
}

// dynTargets: the module functions a call through a function VALUE reaches, resolved inside this
// side only: the value is a func-typed parameter bound to the function, closure or bound method
// passed at the call sites of the enclosing function (so a helper shared by two writers is
// seen, per writer, with that writer's argument), a local, a phi or a conversion of those.
// Arguments and parameters line up: a closure's bindings are free variables, not parameters.
func (s *c18Side) dynTargets(ci ssa.CallInstruction) []*ssa.Function {
	cc := ci.Common()
	if cc.IsInvoke() || staticCallee(cc) != nil {
		return nil
	}
	if _, isB := cc.Value.(*ssa.Builtin); isB {
		return nil
	}
	if s.dyn == nil {
		s.dyn = map[ssa.CallInstruction][]*ssa.Function{}
		s.dynBusy = map[ssa.CallInstruction]bool{}
	}
	if t, ok := s.dyn[ci]; ok {
		return t
	}
	if s.dynBusy[ci] {
		return nil
	}
	s.dynBusy[ci] = true
	var out []*ssa.Function
	s.funcValues(cc.Value, &out, map[ssa.Value]bool{}, 0)
	delete(s.dynBusy, ci)
	s.dyn[ci] = out
	return out
}

func (s *c18Side) funcValues(v ssa.Value, out *[]*ssa.Function, seen map[ssa.Value]bool, depth int) {
	if v == nil || seen[v] || depth > 8 {
		return
	}
	seen[v] = true
	add := func(f *ssa.Function) {
		if f == nil || !s.inSet[f] {
			return
		}
		for _, x := range *out {
			if x == f {
				return
			}
		}
		*out = append(*out, f)
	}
	switch x := v.(type) {
	case *ssa.Function:
		add(x)
	case *ssa.MakeClosure:
		if f, ok := x.Fn.(*ssa.Function); ok {
			add(f)
		}
	case *ssa.ChangeType:
		s.funcValues(x.X, out, seen, depth+1)
	case *ssa.Phi:
		for _, e := range x.Edges {
			s.funcValues(e, out, seen, depth+1)
		}
	case *ssa.Parameter:
		idx := -1
		for i, p := range x.Parent().Params {
			if p == x {
				idx = i
			}
		}
		for _, cs := range s.callSites(x.Parent()) {
			if args := cs.Common().Args; idx >= 0 && idx < len(args) {
				s.funcValues(args[idx], out, seen, depth+1)
			}
		}
	case *ssa.FreeVar:
		fn := x.Parent()
		idx := -1
		for i, fv := range fn.FreeVars {
			if fv == x {
				idx = i
			}
		}
		if par := fn.Parent(); par != nil && idx >= 0 {
			for _, b := range par.Blocks {
				for _, in := range b.Instrs {
					if mc, ok := in.(*ssa.MakeClosure); ok && mc.Fn == ssa.Value(fn) && idx < len(mc.Bindings) {
						s.funcValues(mc.Bindings[idx], out, seen, depth+1)
					}
				}
			}
		}
	case *ssa.UnOp:
		if al, ok := x.X.(*ssa.Alloc); ok && x.Op == token.MUL && al.Referrers() != nil {
			for _, r := range *al.Referrers() {
				if st, ok := r.(*ssa.Store); ok && st.Addr == ssa.Value(al) {
					s.funcValues(st.Val, out, seen, depth+1)
				}
			}
		}
	}
}

// calleesOf: the functions of the set a call reaches, statically or through a function value.
func (s *c18Side) calleesOf(ci ssa.CallInstruction) []*ssa.Function {
	if cal := staticCallee(ci.Common()); cal != nil {
		if s.inSet[cal] {
			return []*ssa.Function{cal}
		}
		return nil
	}
	return s.dynTargets(ci)
}

// leadsTo: the call reaches fn through at most depth calls inside the set.
func (s *c18Side) leadsTo(ci ssa.CallInstruction, fn *ssa.Function, depth int) bool {
	for _, cal := range s.calleesOf(ci) {
		if cal == fn {
			return true
		}
		if depth <= 0 {
			continue
		}
		for _, b := range cal.Blocks {
			for _, in := range b.Instrs {
				if c2, ok := in.(ssa.CallInstruction); ok && s.leadsTo(c2, fn, depth-1) {
					return true
				}
			}
		}
	}
	return false
}

// originsIn: the values in function f that v stands for, following parameters to the arguments
// at the call sites of this side (v itself when it already lives in f).
func (s *c18Side) originsIn(v ssa.Value, f *ssa.Function, depth int) []ssa.Value {
	if v == nil || depth > 6 {
		return nil
	}
	if p, ok := v.(*ssa.Parameter); ok && p.Parent() != f {
		idx := -1
		for i, q := range p.Parent().Params {
			if q == p {
				idx = i
			}
		}
		var out []ssa.Value
		for _, cs := range s.callSites(p.Parent()) {
			if args := cs.Common().Args; idx >= 0 && idx < len(args) {
				out = append(out, s.originsIn(args[idx], f, depth+1)...)
			}
		}
		return out
	}
	if in, ok := v.(ssa.Instruction); ok && in.Parent() != f {
		return nil
	}
	if p, ok := v.(*ssa.Parameter); ok && p.Parent() != f {
		return nil
	}
	return []ssa.Value{v}
}

func (s *c18Side) trace(v ssa.Value) *c18Trace {
	if t, ok := s.traces[v]; ok {
		return t
	}
	t := &c18Trace{}
	s.walk(v, t, map[ssa.Value]bool{}, 0)
	s.traces[v] = t
	return t
}

func (s *c18Side) walk(v ssa.Value, t *c18Trace, seen map[ssa.Value]bool, depth int) {
	if v == nil || seen[v] {
		return
	}
	seen[v] = true
	if depth > 40 {
		t.Other = append(t.Other, v)
		return
	}
	callResult := func(call *ssa.Call, idx int) {
		cc := call.Common()
		if _, i, ok := c18Source(cc); ok && i == idx {
			t.Wire = append(t.Wire, call)
			return
		}
		if cal := staticCallee(cc); cal != nil && s.decoders[cal] && idx == 0 {
			t.Wire = append(t.Wire, call) // the value a hand-written uvarint decoder returns is the prefix
			return
		}
		pkg, _, name := c18CallInfo(cc)
		if pkg == "builtin" {
			switch name {
			case "len", "cap":
				t.Lens = append(t.Lens, call)
				return
			case "min", "max":
				t.Arith = append(t.Arith, call)
				for _, a := range cc.Args {
					s.walk(a, t, seen, depth+1)
				}
				return
			}
		}
		if cals := s.calleesOf(call); len(cals) > 0 {
			for _, cal := range cals {
				for _, r := range returnsOf(cal) {
					if res := retResults(r); idx < len(res) {
						s.walk(res[idx], t, seen, depth+1)
					}
				}
			}
			return
		}
		t.Other = append(t.Other, call)
	}
	switch x := v.(type) {
	case *ssa.Const:
		t.Consts = append(t.Consts, x)
	case *ssa.Convert:
		_, a := c18IntType(x.Type())
		_, b := c18IntType(x.X.Type())
		if a && b {
			t.Convs = append(t.Convs, x)
			s.walk(x.X, t, seen, depth+1)
		} else {
			t.Other = append(t.Other, x)
		}
	case *ssa.ChangeType:
		s.walk(x.X, t, seen, depth+1)
	case *ssa.Phi:
		for _, e := range x.Edges {
			s.walk(e, t, seen, depth+1)
		}
	case *ssa.BinOp:
		switch x.Op {
		case token.ADD, token.SUB, token.MUL, token.QUO, token.REM, token.AND, token.OR, token.XOR, token.SHL, token.SHR, token.AND_NOT:
			t.Arith = append(t.Arith, x)
			s.walk(x.X, t, seen, depth+1)
			s.walk(x.Y, t, seen, depth+1)
		default:
			t.Other = append(t.Other, x)
		}
	case *ssa.UnOp:
		switch x.Op {
		case token.SUB, token.XOR:
			t.Arith = append(t.Arith, x)
			s.walk(x.X, t, seen, depth+1)
		case token.MUL:
			switch a := x.X.(type) {
			case *ssa.FieldAddr:
				if f, ok := c18FieldOfAddr(a); ok {
					if s.limit[f] {
						t.Limit = true
					} else {
						t.Fields = append(t.Fields, f)
					}
					return
				}
				t.Other = append(t.Other, x)
			case *ssa.Alloc:
				n := 0
				if a.Referrers() != nil {
					for _, r := range *a.Referrers() {
						if st, ok := r.(*ssa.Store); ok && st.Addr == ssa.Value(a) {
							n++
							s.walk(st.Val, t, seen, depth+1)
						}
					}
				}
				if n == 0 {
					t.Other = append(t.Other, x)
				}
			case *ssa.IndexAddr:
				// a byte taken out of a buffer inside the reader is wire data
				if b, ok := x.Type().Underlying().(*types.Basic); ok && (b.Kind() == types.Uint8 || b.Kind() == types.Byte) {
					t.Wire = append(t.Wire, x)
				} else {
					t.Other = append(t.Other, x)
				}
			default:
				t.Other = append(t.Other, x)
			}
		default:
			t.Other = append(t.Other, x)
		}
	case *ssa.Extract:
		if call, ok := x.Tuple.(*ssa.Call); ok {
			callResult(call, x.Index)
		} else {
			t.Other = append(t.Other, x)
		}
	case *ssa.Call:
		callResult(x, 0)
	case *ssa.Parameter:
		sites := s.callSites(x.Parent())
		idx := -1
		for i, p := range x.Parent().Params {
			if p == x {
				idx = i
			}
		}
		if len(sites) == 0 || idx < 0 {
			t.Params = append(t.Params, x)
			return
		}
		for _, cs := range sites {
			if args := cs.Common().Args; idx < len(args) {
				s.walk(args[idx], t, seen, depth+1)
			}
		}
	case *ssa.FreeVar:
		fn := x.Parent()
		idx := -1
		for i, fv := range fn.FreeVars {
			if fv == x {
				idx = i
			}
		}
		found := false
		if par := fn.Parent(); par != nil && idx >= 0 {
			for _, b := range par.Blocks {
				for _, in := range b.Instrs {
					if mc, ok := in.(*ssa.MakeClosure); ok && mc.Fn == ssa.Value(fn) && idx < len(mc.Bindings) {
						found = true
						// captured variables are cells: look at what is stored in them
						if al, ok := mc.Bindings[idx].(*ssa.Alloc); ok && al.Referrers() != nil {
							for _, r := range *al.Referrers() {
								if st, ok := r.(*ssa.Store); ok && st.Addr == ssa.Value(al) {
									s.walk(st.Val, t, seen, depth+1)
								}
							}
						} else {
							s.walk(mc.Bindings[idx], t, seen, depth+1)
						}
					}
				}
			}
		}
		if !found {
			t.Other = append(t.Other, x)
		}
	default:
		t.Other = append(t.Other, v)
	}
}

// collectGuards reads every ordering comparison between a wire-derived value and a
// non-wire value that decides a branch.
func (s *c18Side) collectGuards() {
	for _, fn := range s.set {
		for _, b := range fn.Blocks {
			if len(b.Instrs) == 0 {
				continue
			}
			iff, ok := b.Instrs[len(b.Instrs)-1].(*ssa.If)
			if !ok {
				continue
			}
			cond := iff.Cond
			tEdge, fEdge := edge{b, b.Succs[0]}, edge{b, b.Succs[1]}
			for {
				u, ok := cond.(*ssa.UnOp)
				if !ok || u.Op != token.NOT {
					break
				}
				cond = u.X
				tEdge, fEdge = fEdge, tEdge
			}
			bo, ok := cond.(*ssa.BinOp)
			if !ok {
				continue
			}
			op := bo.Op
			if op != token.LSS && op != token.LEQ && op != token.GTR && op != token.GEQ {
				continue
			}
			if _, isInt := c18IntType(bo.X.Type()); !isInt {
				continue
			}
			A, B := bo.X, bo.Y
			wa, wb := s.trace(A).isWire(), s.trace(B).isWire()
			if wa == wb {
				continue
			}
			if wb {
				A, B = B, A
				switch op {
				case token.LSS:
					op = token.GTR
				case token.LEQ:
					op = token.GEQ
				case token.GTR:
					op = token.LSS
				case token.GEQ:
					op = token.LEQ
				}
			}
			// sign tests
			if k, isC := constInt(B); isC && !c18Unsigned(A.Type()) {
				switch {
				case k == 0 && op == token.LSS: // A < 0
					s.signs[A] = append(s.signs[A], &c18Sign{iff, A, fEdge, tEdge})
					continue
				case k == 0 && op == token.GEQ: // A >= 0
					s.signs[A] = append(s.signs[A], &c18Sign{iff, A, tEdge, fEdge})
					continue
				case k == -1 && op == token.LEQ: // A <= -1
					s.signs[A] = append(s.signs[A], &c18Sign{iff, A, fEdge, tEdge})
					continue
				case k == -1 && op == token.GTR: // A > -1
					s.signs[A] = append(s.signs[A], &c18Sign{iff, A, tEdge, fEdge})
					continue
				}
			}
			g := &c18Guard{If: iff, A: A, B: B, Fn: fn}
			switch op {
			case token.GTR: // A > B: exceed on true
				g.Exceed, g.Within, g.Exact = tEdge, fEdge, true
			case token.GEQ: // A >= B: true also rejects A == B
				g.Exceed, g.Within, g.Exact = tEdge, fEdge, false
			case token.LSS: // A < B: within on true, A == B excluded
				g.Within, g.Exceed, g.Exact = tEdge, fEdge, false
			case token.LEQ:
				g.Within, g.Exceed, g.Exact = tEdge, fEdge, true
			}
			s.upper[A] = append(s.upper[A], g)
			s.guards = append(s.guards, g)
		}
	}
}

func (s *c18Side) dom(e edge, p c18Point) bool {
	if p.Via != nil && *p.Via == e {
		return true
	}
	if p.Blk == nil || e.From.Parent() != p.Blk.Parent() {
		return false
	}
	return edgeDominates(e, p.Blk)
}

// c18DefBefore: instruction def is executed before point p on every path.
func c18DefBefore(def ssa.Instruction, p c18Point) bool {
	if def.Block() == nil || p.Blk == nil || def.Parent() != p.Blk.Parent() {
		return false
	}
	if def.Block() == p.Blk {
		if p.At == nil {
			return true
		}
		return instrDominates(def, p.At)
	}
	return def.Block().Dominates(p.Blk)
}

type c18Key struct {
	V   ssa.Value
	Blk *ssa.BasicBlock
}

func (s *c18Side) nonNeg(v ssa.Value, p c18Point, word int, depth int) bool {
	if depth > 8 {
		return false
	}
	if c18Unsigned(v.Type()) {
		return true
	}
	if k, ok := constInt(v); ok {
		return k >= 0
	}
	for _, g := range s.signs[v] {
		if s.dom(g.NonNeg, p) {
			return true
		}
	}
	switch x := v.(type) {
	case *ssa.Convert:
		if _, ok := c18IntType(x.X.Type()); !ok {
			return false
		}
		wx, wv := c18Width(x.X.Type(), word), c18Width(x.Type(), word)
		if c18Unsigned(x.X.Type()) {
			return wv > wx
		}
		return wv >= wx && s.nonNeg(x.X, c18At(x), word, depth+1)
	case *ssa.ChangeType:
		return s.nonNeg(x.X, c18At(x), word, depth+1)
	case *ssa.Call:
		if pkg, _, name := c18CallInfo(x.Common()); pkg == "builtin" && (name == "len" || name == "cap") {
			return true
		}
	}
	return false
}

// inRange: at point p, v is proven to lie in [0, bound] for a bound that does not come from
// the wire (see the rule description in the property explanation).
func (s *c18Side) inRange(v ssa.Value, p c18Point, word int, seen map[c18Key]bool) bool {
	if !s.trace(v).isWire() {
		return true
	}
	k := c18Key{v, p.Blk}
	if seen[k] {
		return false
	}
	seen[k] = true
	// R1: a guard on v itself
	for _, g := range s.upper[v] {
		if s.dom(g.Within, p) && s.nonNeg(v, p, word, 0) {
			return true
		}
	}
	switch x := v.(type) {
	case *ssa.Convert: // R2: a value in range keeps its value through any conversion (SSA values are immutable: a bound proven at p holds for the operand wherever the conversion was made)
		if _, ok := c18IntType(x.X.Type()); ok && s.inRange(x.X, p, word, seen) {
			return true
		}
	case *ssa.ChangeType:
		if s.inRange(x.X, p, word, seen) {
			return true
		}
	case *ssa.Phi:
		all := len(x.Edges) > 0
		for i, e := range x.Edges {
			pred := x.Block().Preds[i]
			ed := edge{pred, x.Block()}
			if !s.inRange(e, c18Point{Blk: pred, Via: &ed}, word, seen) {
				all = false
				break
			}
		}
		if all {
			return true
		}
	case *ssa.Parameter:
		idx := -1
		for i, q := range x.Parent().Params {
			if q == x {
				idx = i
			}
		}
		sites := s.callSites(x.Parent())
		all := len(sites) > 0 && idx >= 0
		for _, cs := range sites {
			args := cs.Common().Args
			if !all || idx >= len(args) || !s.inRange(args[idx], c18At(cs), word, seen) {
				all = false
				break
			}
		}
		if all {
			return true
		}
	case *ssa.Extract:
		if call, ok := x.Tuple.(*ssa.Call); ok && s.calleeResultInRange(call, x.Index, word, seen) {
			return true
		}
	case *ssa.Call:
		if s.calleeResultInRange(x, 0, word, seen) {
			return true
		}
	case *ssa.BinOp:
		switch x.Op {
		case token.ADD, token.SUB, token.MUL, token.QUO, token.REM, token.SHR, token.AND:
			// bounded by an expression of local bounds; a difference may still be negative
			if s.inRange(x.X, c18At(x), word, seen) && s.inRange(x.Y, c18At(x), word, seen) && (x.Op != token.SUB || s.nonNeg(x, p, word, 0)) {
				return true
			}
		}
	case *ssa.UnOp:
		if al, ok := x.X.(*ssa.Alloc); ok && x.Op == token.MUL && al.Referrers() != nil {
			n, all := 0, true
			for _, r := range *al.Referrers() {
				if st, ok := r.(*ssa.Store); ok && st.Addr == ssa.Value(al) {
					n++
					if !s.inRange(st.Val, c18At(st), word, seen) {
						all = false
					}
				}
			}
			if n > 0 && all {
				return true
			}
		}
	}
	// R4: v was handed to a module function that returns an error unless its parameter is in
	// range, and the nil-error side of that call dominates p
	if refs := v.Referrers(); refs != nil {
		for _, r := range *refs {
			call, ok := r.(*ssa.Call)
			if !ok {
				continue
			}
			cal := staticCallee(call.Common())
			if cal == nil || !s.inSet[cal] || errResultIndex(cal.Signature) < 0 {
				continue
			}
			ev := errVerdict(call)
			if ev == nil {
				continue
			}
			dominated := false
			for _, e := range edgesOfVerdict(ev).Accept {
				if s.dom(e, p) {
					dominated = true
				}
			}
			if !dominated {
				continue
			}
			for i, a := range call.Common().Args {
				if a != v || i >= len(cal.Params) {
					continue
				}
				all, n := true, 0
				for _, ret := range returnsOf(cal) {
					if !c18SuccessReturn(ret) {
						continue
					}
					n++
					if !s.inRange(cal.Params[i], c18At(ret), word, seen) {
						all = false
					}
				}
				if all && n > 0 {
					return true
				}
			}
		}
	}
	// R3: a non-narrowing conversion of v that is in range pins v to the same value
	if refs := v.Referrers(); refs != nil {
		for _, r := range *refs {
			y, ok := r.(*ssa.Convert)
			if !ok || y.X != v || c18Narrowing(y, word) {
				continue
			}
			if _, isInt := c18IntType(y.Type()); !isInt || !c18DefBefore(y, p) {
				continue
			}
			if s.inRange(y, p, word, seen) {
				return true
			}
		}
	}
	return false
}

func (s *c18Side) calleeResultInRange(call *ssa.Call, idx int, word int, seen map[c18Key]bool) bool {
	cal := staticCallee(call.Common())
	if cal == nil || !s.inSet[cal] {
		return false
	}
	rets := returnsOf(cal)
	if len(rets) == 0 {
		return false
	}
	for _, r := range rets {
		res := retResults(r)
		if idx >= len(res) || !s.inRange(res[idx], c18At(r), word, seen) {
			return false
		}
	}
	return true
}

// ---------- D1(ii): the limit is enforced exactly on every success path ----------

type c18Enf struct {
	Dropped []string // calls whose error carries the limit verdict and is discarded
	Accept  []edge
	Tails   []ssa.Value
	Bypass  []*ssa.Return
	HasSrc  bool // contains (transitively) a prefix decode that it does not itself bound
	Enforce bool
}

func (s *c18Side) limitGuard(g *c18Guard) (isLimit, clean bool) {
	tb := s.trace(g.B)
	if !tb.Limit {
		return false, false
	}
	ta := s.trace(g.A)
	// arithmetic on either side changes the accepted set; byte assembly on the wire side is
	// arithmetic too, but of bytes only
	bytesOnly := true
	for _, wv := range ta.Wire {
		if _, isLoad := wv.(*ssa.UnOp); !isLoad {
			bytesOnly = false
		}
	}
	clean = tb.pureLimit() && (len(ta.Arith) == 0 || bytesOnly)
	return true, clean
}

func (s *c18Side) enforce(fn *ssa.Function, memo map[*ssa.Function]*c18Enf, busy map[*ssa.Function]bool) *c18Enf {
	if e, ok := memo[fn]; ok {
		return e
	}
	if busy[fn] {
		return &c18Enf{}
	}
	busy[fn] = true
	defer delete(busy, fn)
	e := &c18Enf{}
	var starts []*ssa.BasicBlock
	for _, g := range s.guards {
		if g.Fn != fn {
			continue
		}
		if isL, clean := s.limitGuard(g); isL && clean && g.Exact {
			e.Accept = append(e.Accept, g.Within)
		}
	}
	for _, b := range fn.Blocks {
		for _, in := range b.Instrs {
			call, ok := in.(*ssa.Call)
			if !ok {
				continue
			}
			if s.isSource(call.Common()) {
				e.HasSrc = true
				// paths of interest start where the decode has succeeded
				var acc []edge
				if v := errVerdict(call); v != nil {
					acc = edgesOfVerdict(v).Accept
				}
				if len(acc) > 0 {
					for _, a := range acc {
						starts = append(starts, a.To)
					}
				} else {
					starts = append(starts, b)
				}
				continue
			}
			cal := staticCallee(call.Common())
			if cal == nil || cal == fn || !s.inSet[cal] {
				continue
			}
			sub := s.enforce(cal, memo, busy)
			if sub.Enforce {
				v := errVerdict(call)
				var acc []edge
				handed := false
				if v != nil {
					acc = edgesOfVerdict(v).Accept
					if idx := errResultIndex(fn.Signature); idx >= 0 {
						for _, r := range returnsOf(fn) {
							if res := retResults(r); idx < len(res) && c18FlowsTo(v, res[idx], 0) {
								handed = true
							}
						}
					}
				}
				if len(acc) > 0 || handed {
					e.Accept = append(e.Accept, acc...)
					e.Tails = append(e.Tails, v)
					if len(acc) == 0 {
						starts = append(starts, b)
					}
				} else {
					e.Dropped = append(e.Dropped, c18ShortFn(cal))
					starts = append(starts, b)
				}
			} else if sub.HasSrc {
				starts = append(starts, b)
				e.HasSrc = true
			}
		}
	}
	if len(e.Accept) > 0 || len(e.Tails) > 0 || len(starts) > 0 {
		cut := map[edge]bool{}
		for _, a := range e.Accept {
			cut[a] = true
		}
		if len(starts) == 0 {
			starts = []*ssa.BasicBlock{fn.Blocks[0]}
		}
		reachable := map[*ssa.BasicBlock]bool{}
		for _, st := range starts {
			for b := range reach(st, cut) {
				reachable[b] = true
			}
		}
		for _, r := range returnsOf(fn) {
			if reachable[r.Block()] && c18SuccessReturn(r, e.Tails...) {
				e.Bypass = append(e.Bypass, r)
			}
		}
		e.Enforce = len(e.Bypass) == 0 && (len(e.Accept) > 0 || len(e.Tails) > 0)
		if e.Enforce {
			e.HasSrc = false
		}
	}
	memo[fn] = e
	return e
}

// ---------------------------------------------------------------------------

type c18Pair struct {
	Name      string
	ReaderCtr string
	WriterCtr []string
	Optional  map[string]bool
}

var c18Pairs = []c18Pair{
	{Name: "varint", ReaderCtr: "NewDelimitedReader", WriterCtr: []string{"NewDelimitedWriter"}},
	{Name: "uint32", ReaderCtr: "NewUint32DelimitedReader", WriterCtr: []string{"NewUint32DelimitedWriter", "NewSizeUint32DelimitedWriter"}, Optional: map[string]bool{"NewSizeUint32DelimitedWriter": true}},
}

func c18WordsString(bad []int) string {
	var s []string
	for _, w := range bad {
		s = append(s, fmt.Sprintf("int=%d", w))
	}
	return strings.Join(s, ", ")
}

func runC18(c *Ctx) {
	w := c.W
	if w.pkg(c18Pkg) == nil {
		c.undecided("D1", "pkg/protoio", token.NoPos, "package %s not loaded", c18Pkg)
		return
	}
	for _, pair := range c18Pairs {
		rc := w.lookupFunc(c18Pkg, pair.ReaderCtr)
		if rc == nil || rc.Blocks == nil {
			c.undecided("D1", "protoio."+pair.ReaderCtr, token.NoPos, "exported reader constructor not found")
			continue
		}
		c.analysed(rc)
		// ---- reader side
		limit, orderFieldsR := c18CtorFields(c, rc, true)
		var readRoots []*ssa.Function
		for _, t := range c18ConcreteTypes(rc, 0) {
			if m := w.methodOf(t, "ReadMsg"); m != nil && m.Blocks != nil && inModule(m) {
				readRoots = append(readRoots, m)
			}
		}
		if len(readRoots) == 0 {
			c.undecided("D1", "protoio."+pair.ReaderCtr, rc.Pos(), "no module type with a ReadMsg method is returned by the constructor")
		}
		var readers []*c18Side
		for _, root := range readRoots {
			s := newC18Side(c, root, limit)
			s.collectGuards()
			readers = append(readers, s)
			c18ReaderBounds(c, s, limit)
			c18Errors(c, s, true)
			c18Chunking(c, s)
			c18ByteSource(c, s)
			c18ModuleDecoders(c, s)
		}
		// ---- writer side
		var writers []*c18Side
		orderFieldsW := map[c18Field]bool{}
		for _, name := range pair.WriterCtr {
			wc := w.lookupFunc(c18Pkg, name)
			if wc == nil || wc.Blocks == nil {
				if !pair.Optional[name] {
					c.undecided("D5", "protoio."+name, token.NoPos, "exported writer constructor not found")
				}
				continue
			}
			c.analysed(wc)
			_, of := c18CtorFields(c, wc, false)
			for f := range of {
				orderFieldsW[f] = true
			}
			seenRoot := map[*ssa.Function]bool{}
			for _, ws := range writers {
				seenRoot[ws.root] = true
			}
			n := 0
			for _, t := range c18ConcreteTypes(wc, 0) {
				if m := w.methodOf(t, "WriteMsg"); m != nil && m.Blocks != nil && inModule(m) {
					n++
					if seenRoot[m] {
						continue
					}
					s := newC18Side(c, m, nil)
					writers = append(writers, s)
					c18Errors(c, s, false)
				}
			}
			if n == 0 {
				c.undecided("D5", "protoio."+name, wc.Pos(), "no module type with a WriteMsg method is returned by the constructor")
			}
		}
		c18CodecAgreement(c, pair, readers, writers, orderFieldsR, orderFieldsW)
	}
}

// c18CtorFields finds the struct fields in which a constructor keeps its integer parameter
// (the limit, reader only) and its binary.ByteOrder parameter.
func c18CtorFields(c *Ctx, ctor *ssa.Function, wantLimit bool) (limit, order map[c18Field]bool) {
	limit, order = map[c18Field]bool{}, map[c18Field]bool{}
	side := newC18Side(c, ctor, nil)
	type hit struct {
		F     c18Field
		Exact bool
		Pos   token.Pos
	}
	hits := map[*ssa.Parameter][]hit{}
	for _, fn := range side.set {
		for _, b := range fn.Blocks {
			for _, in := range b.Instrs {
				st, ok := in.(*ssa.Store)
				if !ok {
					continue
				}
				f, ok := c18FieldOfAddr(st.Addr)
				if !ok {
					continue
				}
				tr := side.trace(st.Val)
				for _, p := range tr.Params {
					if p.Parent() != ctor {
						continue
					}
					exact := len(tr.Arith) == 0 && len(tr.Other) == 0 && len(tr.Fields) == 0 && len(tr.Lens) == 0 && len(tr.Params) == 1
					for _, cv := range tr.Convs {
						for _, ws := range c18WordSizes {
							if c18Narrowing(cv, ws) {
								exact = false
							}
						}
					}
					hits[p] = append(hits[p], hit{f, exact, st.Pos()})
				}
			}
		}
	}
	for _, p := range ctor.Params {
		if isNamed(p.Type(), "encoding/binary", "ByteOrder") {
			for _, h := range hits[p] {
				order[h.F] = true
			}
			continue
		}
		if _, isInt := c18IntType(p.Type()); !isInt || !wantLimit {
			continue
		}
		construct := c18ShortFn(ctor) + "+limit(" + p.Name() + ")"
		hs := hits[p]
		switch {
		case len(hs) == 0:
			c.fail("D1", construct, ctor.Pos(), "the size parameter %s of the exported constructor is not kept in the reader: the reader's bound is not the caller's limit", p.Name())
		default:
			allExact := true
			var names []string
			for _, h := range hs {
				names = append(names, h.F.name())
				limit[h.F] = true // identifies the field even when the value stored is altered (reported here)
				if !h.Exact {
					allExact = false
				}
			}
			if allExact {
				c.ok("D1", construct, hs[0].Pos, "limit parameter stored unchanged in field %s", strings.Join(names, ","))
			} else {
				c.fail("D1", construct, hs[0].Pos, "the size parameter %s is altered (arithmetic or narrowing conversion) before it is stored in field %s: the bound enforced is not the caller's limit", p.Name(), strings.Join(names, ","))
			}
		}
	}
	return
}

type c18Sink struct {
	Kind string // make | slice | sized-call
	In   ssa.Instruction
	Op   ssa.Value
	What string
}

func (s *c18Side) sinks() []c18Sink {
	var out []c18Sink
	add := func(kind string, in ssa.Instruction, what string, ops ...ssa.Value) {
		for _, o := range ops {
			if o != nil && s.trace(o).isWire() {
				out = append(out, c18Sink{kind, in, o, what})
			}
		}
	}
	for _, fn := range s.set {
		for _, b := range fn.Blocks {
			for _, in := range b.Instrs {
				switch x := in.(type) {
				case *ssa.MakeSlice:
					if x.Cap == x.Len {
						add("make", x, "make("+types.TypeString(x.Type(), nil)+")", x.Len)
					} else {
						add("make", x, "make("+types.TypeString(x.Type(), nil)+")", x.Len, x.Cap)
					}
				case *ssa.MakeMap:
					add("make", x, "make(map)", x.Reserve)
				case *ssa.MakeChan:
					add("make", x, "make(chan)", x.Size)
				case *ssa.Slice:
					add("slice", x, "slice expression", x.Low, x.High, x.Max)
				case ssa.CallInstruction:
					pkg, recv, name := c18CallInfo(x.Common())
					args := c18Args(x.Common())
					key := pkg + "." + recv + "." + name
					var idx = -1
					switch key {
					case "bytes.Buffer.Grow", "strings.Builder.Grow", "bufio.Reader.Peek", "bufio.Reader.Discard":
						idx = 0
					case "io..LimitReader", "bufio..NewReaderSize", "slices..Grow":
						idx = 1
					case "io..CopyN":
						idx = 2
					}
					if idx >= 0 && idx < len(args) {
						add("sized-call", x, name, args[idx])
					}
				}
			}
		}
	}
	return out
}

// c18ReaderBounds: D1 (sinks, exact limit) and D2 (width) for one ReadMsg.
func c18ReaderBounds(c *Ctx, s *c18Side, limit map[c18Field]bool) {
	root := c18ShortFn(s.root)
	// ---- sinks
	byKind := map[string][]c18Sink{}
	for _, sk := range s.sinks() {
		byKind[sk.Kind] = append(byKind[sk.Kind], sk)
	}
	kinds := make([]string, 0, len(byKind))
	for k := range byKind {
		kinds = append(kinds, k)
	}
	sort.Strings(kinds)
	c.count("wire_sized_operations", len(s.sinks()))
	for _, k := range kinds {
		var bad []string
		for _, sk := range byKind[k] {
			var words []int
			for _, ws := range c18WordSizes {
				if !s.inRange(sk.Op, c18At(sk.In), ws, map[c18Key]bool{}) {
					words = append(words, ws)
				}
			}
			if len(words) > 0 {
				bad = append(bad, fmt.Sprintf("%s at %s [%s]", sk.What, c.pos(posOf(sk.In)), c18WordsString(words)))
			}
		}
		first := byKind[k][0].In
		if len(bad) == 0 {
			c.ok("D1", root+"+"+k, posOf(first), "%d %s operand(s) sized from the wire, each dominated by the within side of an upper-bound comparison and proven non-negative (int=64 and int=32)", len(byKind[k]), k)
		} else {
			c.fail("D1", root+"+"+k, posOf(first), "operand derived from the length prefix is used before it is bounded (no dominating `<= bound` comparison on an image of it, or it may be negative): %s", strings.Join(bad, "; "))
		}
	}
	// ---- the limit is enforced, exactly
	if len(limit) == 0 {
		c.fail("D1", root+"+limit", s.root.Pos(), "the constructor keeps no limit in the reader, so nothing the decoded length is compared with can be the caller's limit")
	} else {
		var anyLimit, strict, unclean []*c18Guard
		for _, g := range s.guards {
			isL, clean := s.limitGuard(g)
			if !isL {
				continue
			}
			anyLimit = append(anyLimit, g)
			if !clean {
				unclean = append(unclean, g)
			} else if !g.Exact {
				strict = append(strict, g)
			}
		}
		e := s.enforce(s.root, map[*ssa.Function]*c18Enf{}, map[*ssa.Function]bool{})
		nsrc := 0
		for _, fn := range s.set {
			nsrc += len(callsIn(fn, func(_ string, cc *ssa.CallCommon) bool { return s.isSource(cc) }))
		}
		c.count("prefix_decodes", nsrc)
		// the rejecting side must report, not crash
		var panics []string
		for _, g := range s.guards {
			if isL, _ := s.limitGuard(g); isL {
				if at := c18PanicAfter(g.Exceed, g.Within); at != nil {
					panics = append(panics, c.pos(posOf(at)))
				}
			}
		}
		for _, sg := range s.signs {
			for _, g := range sg {
				if at := c18PanicAfter(g.Neg, g.NonNeg); at != nil {
					panics = append(panics, c.pos(posOf(at)))
				}
			}
		}
		sort.Strings(panics)
		panics = c18Uniq(panics)
		switch {
		case len(panics) > 0:
			c.fail("D1", root+"+limit", s.root.Pos(), "the rejecting side of the length test panics (%s) instead of returning an error: a peer-chosen prefix crashes the reader", strings.Join(panics, ", "))
		case nsrc == 0:
			c.undecided("D1", root+"+limit", s.root.Pos(), "no length-prefix decode (binary.ReadUvarint / ByteOrder.UintNN / ReadByte) found in the reader: the framing is not the one this rule models")
		case e.Enforce:
			c.ok("D1", root+"+limit", posOf(e.firstIf(s)), "every success return after the prefix decode passes the `prefix <= limit` side of a comparison against the constructor's limit; the exceeding side reaches only error returns")
		case len(e.Dropped) > 0:
			c.fail("D1", root+"+limit", s.root.Pos(), "the limit comparison is made in %s but its error result is discarded by the caller: an over-long frame is not reported as an error", strings.Join(e.Dropped, ", "))
		case len(anyLimit) == 0:
			c.fail("D1", root+"+limit", s.root.Pos(), "the decoded length is never compared against the reader's limit: an over-long frame is not rejected")
		case len(unclean) > 0 && len(e.Accept) == 0:
			c.undecided("D1", root+"+limit", posOf(unclean[0].If), "the length is compared against an expression of the limit (arithmetic on one side); the accepted set {length <= limit} cannot be confirmed from this shape")
		case len(strict) > 0 && len(e.Accept) == 0:
			c.fail("D1", root+"+limit", posOf(strict[0].If), "off by one: the comparison at %s accepts only length < limit, a frame of exactly the limit is rejected", c.pos(posOf(strict[0].If)))
		default:
			c.fail("D1", root+"+limit", s.root.Pos(), "a success return (%s) is reachable after the prefix decode without passing the `length <= limit` side of the limit comparison: an over-long frame is not reported as an error", describeReturns(c, e.Bypass))
		}
	}
	// ---- D2: width
	convs := map[*ssa.Convert]bool{}
	addConvs := func(v ssa.Value) {
		for _, cv := range s.trace(v).Convs {
			convs[cv] = true
		}
	}
	for _, g := range s.guards {
		addConvs(g.A)
		addConvs(g.B)
	}
	for _, sg := range s.signs {
		for _, g := range sg {
			addConvs(g.A)
		}
	}
	for _, sk := range s.sinks() {
		addConvs(sk.Op)
	}
	var list []*ssa.Convert
	for cv := range convs {
		list = append(list, cv)
	}
	sort.Slice(list, func(i, j int) bool { return list[i].Pos() < list[j].Pos() })
	c.count("prefix_conversions", len(list))
	type use struct {
		V ssa.Value
		P c18Point
	}
	var uses []use
	for _, g := range s.guards {
		uses = append(uses, use{g.A, c18At(g.If)})
	}
	for _, sg := range s.signs {
		for _, g := range sg {
			uses = append(uses, use{g.A, c18At(g.If)})
		}
	}
	for _, sk := range s.sinks() {
		uses = append(uses, use{sk.Op, c18At(sk.In)})
	}
	for _, ws := range c18WordSizes {
		construct := fmt.Sprintf("%s+width[int=%d]", root, ws)
		var bad, all []string
		pos := s.root.Pos()
		badSet := map[*ssa.Convert]bool{}
		for _, u := range uses {
			s.unboundedNarrowing(u.V, u.P, ws, badSet, map[c18Key]bool{})
		}
		for _, cv := range list {
			all = append(all, c18ConvString(cv))
			if !c18Narrowing(cv, ws) {
				continue
			}
			switch {
			case badSet[cv]:
				bad = append(bad, fmt.Sprintf("%s at %s truncates the decoded length, and the result is compared or used where the untruncated value has not been bounded (a prefix of 2^%d+k is then treated as k)", c18ConvString(cv), c.pos(cv.Pos()), c18Width(cv.Type(), ws)))
				pos = cv.Pos()
			case s.trace(cv.X).Limit && !s.trace(cv.X).isWire():
				bad = append(bad, fmt.Sprintf("%s at %s truncates the limit before the comparison", c18ConvString(cv), c.pos(cv.Pos())))
				pos = cv.Pos()
			}
		}
		if len(bad) == 0 {
			c.ok("D2", construct, pos, "conversions between prefix/limit and comparison or use: [%s]; none narrows an unbounded value when int is %d bits", strings.Join(all, " "), ws)
		} else if ws != c18AnalysedWordSize(c) {
			// Width-dependent behaviour of a target other than the one being analysed cannot be
			// executed in this sandbox (32-bit binaries do not run), so it cannot be confirmed
			// against the real code: carried as an advisory note, never as a verdict.
			c.note("advisory (int=%d bits, not the analysed target): %s: %s", ws, construct, strings.Join(bad, "; "))
			c.ok("D2", construct, pos, "advisory only for int=%d (not the analysed target; see notes): %d narrowing conversion(s) would be unbounded there", ws, len(bad))
		} else {
			c.fail("D2", construct, pos, "on targets where int is %d bits: %s", ws, strings.Join(bad, "; "))
		}
	}
}

// unboundedNarrowing records in bad the narrowing conversions on the way from the wire to v
// whose operand is not proven in range at point p (where v is compared or used). SSA values do
// not change: a bound on the operand established anywhere before p holds at p.
func (s *c18Side) unboundedNarrowing(v ssa.Value, p c18Point, word int, bad map[*ssa.Convert]bool, seen map[c18Key]bool) {
	k := c18Key{v, p.Blk}
	if v == nil || seen[k] || !s.trace(v).isWire() {
		return
	}
	seen[k] = true
	switch x := v.(type) {
	case *ssa.Convert:
		if _, ok := c18IntType(x.X.Type()); !ok {
			return
		}
		if c18Narrowing(x, word) && !s.inRange(x.X, p, word, map[c18Key]bool{}) {
			bad[x] = true
		}
		s.unboundedNarrowing(x.X, p, word, bad, seen)
	case *ssa.ChangeType:
		s.unboundedNarrowing(x.X, p, word, bad, seen)
	case *ssa.BinOp:
		s.unboundedNarrowing(x.X, p, word, bad, seen)
		s.unboundedNarrowing(x.Y, p, word, bad, seen)
	case *ssa.Phi:
		for i, e := range x.Edges {
			pred := x.Block().Preds[i]
			ed := edge{pred, x.Block()}
			s.unboundedNarrowing(e, c18Point{Blk: pred, Via: &ed}, word, bad, seen)
		}
	case *ssa.Parameter:
		idx := -1
		for i, q := range x.Parent().Params {
			if q == x {
				idx = i
			}
		}
		for _, cs := range s.callSites(x.Parent()) {
			if args := cs.Common().Args; idx >= 0 && idx < len(args) {
				s.unboundedNarrowing(args[idx], c18At(cs), word, bad, seen)
			}
		}
	case *ssa.Extract:
		if call, ok := x.Tuple.(*ssa.Call); ok {
			s.calleeNarrowing(call, x.Index, word, bad, seen)
		}
	case *ssa.Call:
		s.calleeNarrowing(x, 0, word, bad, seen)
	case *ssa.UnOp:
		if al, ok := x.X.(*ssa.Alloc); ok && x.Op == token.MUL && al.Referrers() != nil {
			for _, r := range *al.Referrers() {
				if st, ok := r.(*ssa.Store); ok && st.Addr == ssa.Value(al) {
					s.unboundedNarrowing(st.Val, c18At(st), word, bad, seen)
				}
			}
		}
	}
}

func (s *c18Side) calleeNarrowing(call *ssa.Call, idx int, word int, bad map[*ssa.Convert]bool, seen map[c18Key]bool) {
	cal := staticCallee(call.Common())
	if cal == nil || !s.inSet[cal] {
		return
	}
	for _, r := range returnsOf(cal) {
		if res := retResults(r); idx < len(res) {
			s.unboundedNarrowing(res[idx], c18At(r), word, bad, seen)
		}
	}
}

func c18Uniq(in []string) []string {
	var out []string
	for i, x := range in {
		if i == 0 || x != in[i-1] {
			out = append(out, x)
		}
	}
	return out
}

// c18PanicAfter: an explicit panic is reachable from edge from without crossing edge avoid.
func c18PanicAfter(from, avoid edge) ssa.Instruction {
	for b := range reachFromEdges([]edge{from}, map[edge]bool{avoid: true}) {
		if len(b.Instrs) == 0 {
			continue
		}
		if p, ok := b.Instrs[len(b.Instrs)-1].(*ssa.Panic); ok {
			return p
		}
	}
	return nil
}

func (e *c18Enf) firstIf(s *c18Side) ssa.Instruction {
	for _, g := range s.guards {
		if isL, _ := s.limitGuard(g); isL {
			return g.If
		}
	}
	return nil
}

// ---------- D3 ----------

func c18ErrRole(s *c18Side, cc *ssa.CallCommon) (string, bool) {
	if errResultIndex(cc.Signature()) < 0 {
		return "", false
	}
	pkg, recv, name := c18CallInfo(cc)
	switch pkg {
	case "io", "bufio", "encoding/binary", "google.golang.org/protobuf/proto":
		if name == "Close" {
			return "", false
		}
		base := pkg[strings.LastIndex(pkg, "/")+1:]
		if recv != "" && cc.IsInvoke() {
			return recv + "." + name, true
		}
		if recv != "" {
			return base + "." + recv + "." + name, true
		}
		return base + "." + name, true
	}
	switch name {
	case "Read", "Write", "MarshalTo", "MarshalToSizedBuffer", "ReadByte", "Marshal", "Unmarshal", "Flush":
		return name, true
	}
	if cal := staticCallee(cc); cal != nil && s.inSet[cal] {
		return c18ShortFn(cal), true
	}
	return "", false
}

func c18Errors(c *Ctx, s *c18Side, reader bool) {
	type agg struct {
		n    int
		bad  []string
		pos  token.Pos
		fn   *ssa.Function
		role string
	}
	for _, fn := range s.set {
		m := map[string]*agg{}
		var order []string
		for _, b := range fn.Blocks {
			for _, in := range b.Instrs {
				ci, ok := in.(ssa.CallInstruction)
				if !ok {
					continue
				}
				role, ok := c18ErrRole(s, ci.Common())
				if !ok {
					continue
				}
				a := m[role]
				if a == nil {
					a = &agg{pos: posOf(ci), fn: fn, role: role}
					m[role] = a
					order = append(order, role)
				}
				a.n++
				if _, isCall := in.(*ssa.Call); !isCall {
					a.bad = append(a.bad, fmt.Sprintf("%s: called with go/defer, its error cannot be seen", c.pos(posOf(ci))))
					continue
				}
				if okk, why := c18Reject(fn, errVerdict(ci)); !okk {
					a.bad = append(a.bad, fmt.Sprintf("%s: %s", c.pos(posOf(ci)), why))
				}
			}
		}
		for _, role := range order {
			a := m[role]
			construct := c18ShortFn(fn) + "+" + role
			c.count("error_carrying_calls", a.n)
			if len(a.bad) == 0 {
				c.ok("D3", construct, a.pos, "%d call(s): error tested with a failing side that only reaches error returns, or returned", a.n)
			} else {
				c.fail("D3", construct, a.pos, "error of %s is dropped: %s", role, strings.Join(a.bad, "; "))
			}
		}
	}
	if !reader {
		return
	}
	// the bytes decoded are the bytes read in full, and the read succeeded first
	root := c18ShortFn(s.root)
	n := 0
	for _, fn := range s.set {
		for _, ci := range callsIn(fn, func(_ string, cc *ssa.CallCommon) bool {
			pkg, _, name := c18CallInfo(cc)
			return pkg == "google.golang.org/protobuf/proto" && name == "Unmarshal"
		}) {
			n++
			args := c18Args(ci.Common())
			if len(args) < 1 {
				continue
			}
			okk, why := s.decodedIsRead(fn, ci, args[0], 0)
			c.check(okk, "D3", root+"+decode-after-full-read", posOf(ci), "the bytes given to proto.Unmarshal are those of a full read whose success dominates the decode", "proto.Unmarshal "+why)
		}
	}
	if n == 0 {
		c.undecided("D3", root+"+decode-after-full-read", s.root.Pos(), "no proto.Unmarshal call found in the reader")
	}
	// a frame read successfully is a frame decoded into msg: no success return of ReadMsg
	// avoids the accepting side of the decode (directly or in a helper whose error it honours)
	accept, tails := s.decodeEdges(s.root, 0)
	if len(accept) > 0 || len(tails) > 0 {
		cut := map[edge]bool{}
		for _, e := range accept {
			cut[e] = true
		}
		r := reach(s.root.Blocks[0], cut)
		var by []*ssa.Return
		for _, ret := range returnsOf(s.root) {
			if r[ret.Block()] && c18SuccessReturn(ret, tails...) {
				by = append(by, ret)
			}
		}
		c.check(len(by) == 0, "D3", root+"+success-means-decoded", s.root.Pos(), "every success return passes the nil-error side of the decode into msg",
			"a success return ("+describeReturns(c, by)+") is reachable without the frame having been decoded into msg: the caller sees a stale or empty message as a frame")
	}
}

// decodeEdges: the nil-error edges (and directly returned error values) of proto.Unmarshal
// calls in fn and of calls to module helpers all of whose success returns pass such an edge.
func (s *c18Side) decodeEdges(fn *ssa.Function, depth int) (accept []edge, tails []ssa.Value) {
	for _, b := range fn.Blocks {
		for _, in := range b.Instrs {
			call, ok := in.(*ssa.Call)
			if !ok {
				continue
			}
			pkg, _, name := c18CallInfo(call.Common())
			isDecode := pkg == "google.golang.org/protobuf/proto" && name == "Unmarshal"
			if !isDecode && depth < 2 {
				if cal := staticCallee(call.Common()); cal != nil && cal != fn && s.inSet[cal] && errResultIndex(cal.Signature) >= 0 {
					acc, tl := s.decodeEdges(cal, depth+1)
					if len(acc) > 0 || len(tl) > 0 {
						cut := map[edge]bool{}
						for _, e := range acc {
							cut[e] = true
						}
						r := reach(cal.Blocks[0], cut)
						isDecode = true
						for _, ret := range returnsOf(cal) {
							if r[ret.Block()] && c18SuccessReturn(ret, tl...) {
								isDecode = false
							}
						}
					}
				}
			}
			if !isDecode {
				continue
			}
			if v := errVerdict(call); v != nil {
				accept = append(accept, edgesOfVerdict(v).Accept...)
				tails = append(tails, v)
			}
		}
	}
	return
}

func c18IsFullRead(cc *ssa.CallCommon) (buf ssa.Value, ok bool) {
	pkg, recv, name := c18CallInfo(cc)
	if pkg == "io" && recv == "" && (name == "ReadFull" || name == "ReadAtLeast") && len(cc.Args) >= 2 {
		return cc.Args[1], true
	}
	return nil, false
}

// decodedIsRead: bytes (used at instruction use in fn) denote the same slice as the buffer
// of an io.ReadFull whose nil-error side dominates use.
func (s *c18Side) decodedIsRead(fn *ssa.Function, use ssa.Instruction, bytes ssa.Value, depth int) (bool, string) {
	var reads []ssa.CallInstruction
	for _, ci := range callsIn(fn, func(_ string, cc *ssa.CallCommon) bool { _, ok := c18IsFullRead(cc); return ok }) {
		reads = append(reads, ci)
	}
	sameButUnchecked := false
	for _, rd := range reads {
		buf, _ := c18IsFullRead(rd.Common())
		if !c18SameSlice(bytes, buf) {
			continue
		}
		v := errVerdict(rd)
		if v != nil {
			for _, e := range edgesOfVerdict(v).Accept {
				if edgeDominates(e, use.Block()) {
					return true, ""
				}
			}
		}
		sameButUnchecked = true
	}
	if sameButUnchecked {
		return false, "runs although the full read of its input may have failed (the read's nil-error side does not dominate the decode): a truncated frame is decoded into msg"
	}
	// handed in by the caller: look at every call site
	if par, ok := bytes.(*ssa.Parameter); ok && depth < 2 {
		idx := -1
		for i, q := range fn.Params {
			if q == par {
				idx = i
			}
		}
		sites := s.callSites(fn)
		if idx >= 0 && len(sites) > 0 {
			for _, cs := range sites {
				args := cs.Common().Args
				if idx >= len(args) {
					return false, "input cannot be traced"
				}
				if okk, why := s.decodedIsRead(cs.Parent(), cs, args[idx], depth+1); !okk {
					return false, why
				}
			}
			return true, ""
		}
	}
	// produced by a helper: (bytes, err) := helper(); the helper returns the buffer it filled
	if depth < 2 {
		var call *ssa.Call
		idx := 0
		switch x := bytes.(type) {
		case *ssa.Extract:
			call, _ = x.Tuple.(*ssa.Call)
			idx = x.Index
		case *ssa.Call:
			call = x
		}
		if call != nil {
			if cal := staticCallee(call.Common()); cal != nil && s.inSet[cal] {
				dom := errResultIndex(cal.Signature) < 0
				if v := errVerdict(call); v != nil {
					for _, e := range edgesOfVerdict(v).Accept {
						if edgeDominates(e, use.Block()) {
							dom = true
						}
					}
				}
				if !dom {
					return false, "uses the result of " + c18ShortFn(cal) + " without that call having succeeded"
				}
				for _, r := range returnsOf(cal) {
					if !c18SuccessReturn(r) {
						continue
					}
					res := retResults(r)
					if idx >= len(res) {
						return false, "input cannot be traced"
					}
					if okk, why := s.decodedIsRead(cal, r, res[idx], depth+1); !okk {
						return false, why
					}
				}
				return true, ""
			}
		}
	}
	if len(reads) == 0 && depth == 0 {
		return false, "decodes bytes that no io.ReadFull/ReadAtLeast in the same function filled"
	}
	return false, "decodes a slice that is not the one filled by the full read (different buffer or different bounds): bytes of an earlier frame or unread bytes are decoded"
}

// c18SameSlice: a and b denote the same slice value.
func c18SameSlice(a, b ssa.Value) bool {
	if a == b {
		return true
	}
	sa, ok1 := a.(*ssa.Slice)
	sb, ok2 := b.(*ssa.Slice)
	if ok1 && ok2 && c18SameOperand(sa.Low, sb.Low) && c18SameOperand(sa.High, sb.High) && c18SameOperand(sa.Max, sb.Max) && c18SamePlace(sa.X, sb.X) {
		return true
	}
	if !ok1 && !ok2 {
		return c18SamePlace(a, b)
	}
	// b[:n] where n is the byte count returned by the full read into b (equal to len(b) on success)
	if ok1 && c18SameOperand(sa.Low, nil) && sa.Max == nil && sa.High != nil && c18SameSlice(sa.X, b) {
		if ex, ok := sa.High.(*ssa.Extract); ok && ex.Index == 0 {
			if call, ok := ex.Tuple.(*ssa.Call); ok {
				if buf, isRead := c18IsFullRead(call.Common()); isRead && c18SameSlice(buf, b) {
					return true
				}
			}
		}
	}
	return false
}

func c18SameOperand(a, b ssa.Value) bool {
	if a == nil || b == nil {
		za := a == nil
		zb := b == nil
		if !za {
			k, ok := constInt(a)
			za = ok && k == 0
		}
		if !zb {
			k, ok := constInt(b)
			zb = ok && k == 0
		}
		return za && zb
	}
	if a == b {
		return true
	}
	ka, ok1 := constInt(a)
	kb, ok2 := constInt(b)
	return ok1 && ok2 && ka == kb
}

// c18SamePlace: both values are loads of the same variable (field path off the same base,
// or the same local cell), or the same SSA value.
func c18SamePlace(a, b ssa.Value) bool {
	if a == b {
		return true
	}
	la, ok1 := a.(*ssa.UnOp)
	lb, ok2 := b.(*ssa.UnOp)
	if !ok1 || !ok2 || la.Op != token.MUL || lb.Op != token.MUL {
		return false
	}
	return c18SameAddr(la.X, lb.X)
}

func c18SameAddr(a, b ssa.Value) bool {
	if a == b {
		return true
	}
	fa, ok1 := a.(*ssa.FieldAddr)
	fb, ok2 := b.(*ssa.FieldAddr)
	if ok1 && ok2 {
		return fa.Field == fb.Field && types.Identical(fa.X.Type(), fb.X.Type()) && (fa.X == fb.X || c18SamePlace(fa.X, fb.X) || c18SameAddr(fa.X, fb.X))
	}
	return false
}

// ---------- D4 ----------

func c18Chunking(c *Ctx, s *c18Side) {
	type agg struct {
		n   int
		bad []string
		pos token.Pos
	}
	total := 0
	for _, fn := range s.set {
		m := map[string]*agg{}
		var order []string
		get := func(label string, pos token.Pos) *agg {
			a := m[label]
			if a == nil {
				a = &agg{pos: pos}
				m[label] = a
				order = append(order, label)
			}
			a.n++
			total++
			return a
		}
		for _, b := range fn.Blocks {
			for _, in := range b.Instrs {
				ci, ok := in.(ssa.CallInstruction)
				if !ok {
					continue
				}
				cc := ci.Common()
				pkg, recv, name := c18CallInfo(cc)
				sig := cc.Signature()
				switch {
				case name == "Read" && sig.Params().Len() == 1 && sig.Results().Len() == 2 && isErrorType(sig.Results().At(1).Type()) && c18IsByteSlice(sig.Params().At(0).Type()):
					a := get("Read", posOf(ci))
					inLoop := false
					for _, sc := range b.Succs {
						if reach(sc, nil)[b] {
							inLoop = true
						}
					}
					used := false
					if v := resultValue(ci, 0); v != nil && v.Referrers() != nil && len(*v.Referrers()) > 0 {
						used = true
					}
					if inLoop && used {
						c.note("%s calls Read inside a loop and uses the byte count (hand-written read-full loop at %s): its termination condition is not verified", c18ShortFn(fn), c.pos(posOf(ci)))
					} else {
						a.bad = append(a.bad, fmt.Sprintf("bare %s.Read at %s: a short read (stream delivered in smaller chunks) leaves the rest of the frame unread and the buffer partly stale", recv, c.pos(posOf(ci))))
					}
				case pkg == "io" && recv == "" && name == "ReadFull":
					get("io.ReadFull", posOf(ci))
				case pkg == "io" && recv == "" && name == "ReadAtLeast":
					a := get("io.ReadAtLeast", posOf(ci))
					full := false
					if len(cc.Args) == 3 {
						if l, ok := cc.Args[2].(*ssa.Call); ok {
							if p, _, n := c18CallInfo(l.Common()); p == "builtin" && n == "len" && len(l.Common().Args) == 1 && c18SameSlice(l.Common().Args[0], cc.Args[1]) {
								full = true
							}
						}
					}
					if !full {
						a.bad = append(a.bad, fmt.Sprintf("io.ReadAtLeast at %s with a minimum other than len(buffer): returns after a partial frame", c.pos(posOf(ci))))
					}
				case pkg == "io" && recv == "" && name == "ReadAll":
					a := get("io.ReadAll", posOf(ci))
					a.bad = append(a.bad, fmt.Sprintf("io.ReadAll at %s reads to the end of the stream, not to the end of the frame", c.pos(posOf(ci))))
				case pkg == "encoding/binary" && recv == "" && (name == "ReadUvarint" || name == "ReadVarint" || name == "Read"):
					get("binary."+name, posOf(ci))
				case name == "ReadByte" && (pkg == "bufio" || pkg == "io"):
					get(recv+".ReadByte", posOf(ci))
				}
			}
		}
		for _, label := range order {
			a := m[label]
			construct := c18ShortFn(fn) + "+" + label
			if len(a.bad) == 0 {
				c.ok("D4", construct, a.pos, "%d call(s); returns only once the requested bytes are there, whatever the chunking", a.n)
			} else {
				c.fail("D4", construct, a.pos, "%s", strings.Join(a.bad, "; "))
			}
		}
	}
	c.count("byte_obtaining_calls", total)
	if total == 0 {
		c.undecided("D4", c18ShortFn(s.root)+"+reads", s.root.Pos(), "no byte-obtaining call recognised in the reader")
	}
}

// ---------- D2 (continued): hand-written uvarint decoders ----------

func c18IsReadByte(cc *ssa.CallCommon) bool {
	_, _, name := c18CallInfo(cc)
	sig := cc.Signature()
	if name != "ReadByte" || sig.Params().Len() != 0 || sig.Results().Len() != 2 || !isErrorType(sig.Results().At(1).Type()) {
		return false
	}
	b, ok := sig.Results().At(0).Type().Underlying().(*types.Basic)
	return ok && b.Kind() == types.Uint8
}

// c18UvarintDecoderShape: fn returns (integer, error), calls ReadByte inside a loop, masks the
// byte with 0x7f and shifts it by an amount that grows by 7 per iteration (a phi stepped by 7,
// or 7 times a phi stepped by 1): the shape of binary.ReadUvarint.
func c18UvarintDecoderShape(fn *ssa.Function) bool {
	sig := fn.Signature
	if fn.Blocks == nil || sig.Results().Len() != 2 || !isErrorType(sig.Results().At(1).Type()) {
		return false
	}
	if _, ok := c18IntType(sig.Results().At(0).Type()); !ok {
		return false
	}
	stepOf := func(p *ssa.Phi) int64 {
		for _, e := range p.Edges {
			bo, ok := e.(*ssa.BinOp)
			if !ok || bo.Op != token.ADD {
				continue
			}
			if k, ok := constInt(bo.Y); ok && bo.X == ssa.Value(p) {
				return k
			}
			if k, ok := constInt(bo.X); ok && bo.Y == ssa.Value(p) {
				return k
			}
		}
		return 0
	}
	var step7, step1 []ssa.Value
	readInLoop, mask := false, false
	var shifts []*ssa.BinOp
	for _, b := range fn.Blocks {
		for _, in := range b.Instrs {
			switch x := in.(type) {
			case *ssa.Phi:
				switch stepOf(x) {
				case 7:
					step7 = append(step7, x)
				case 1:
					step1 = append(step1, x)
				}
			case *ssa.Call:
				if c18IsReadByte(x.Common()) {
					for _, sc := range b.Succs {
						if reach(sc, nil)[b] {
							readInLoop = true
						}
					}
				}
			case *ssa.BinOp:
				switch x.Op {
				case token.SHL:
					shifts = append(shifts, x)
				case token.AND:
					if k, ok := constInt(x.Y); ok && k == 0x7f {
						mask = true
					}
					if k, ok := constInt(x.X); ok && k == 0x7f {
						mask = true
					}
				}
			}
		}
	}
	if !readInLoop || !mask {
		return false
	}
	for _, sh := range shifts {
		for _, p := range step7 {
			if c18DerivesFrom(sh.Y, p, 0) {
				return true
			}
		}
		// 7*i
		var visit func(v ssa.Value, d int) bool
		visit = func(v ssa.Value, d int) bool {
			if d > 4 {
				return false
			}
			switch x := v.(type) {
			case *ssa.Convert:
				return visit(x.X, d+1)
			case *ssa.BinOp:
				if x.Op == token.MUL {
					kx, okx := constInt(x.X)
					ky, oky := constInt(x.Y)
					other := x.X
					if okx {
						other = x.Y
					}
					if (okx && kx == 7) || (oky && ky == 7) {
						for _, p := range step1 {
							if c18DerivesFrom(other, p, 0) {
								return true
							}
						}
					}
				}
			}
			return false
		}
		if visit(sh.Y, 0) {
			return true
		}
	}
	return false
}

type c18ByteEv struct {
	B   int64
	Err bool
}

// c18RunDecoder evaluates fn abstractly (absint.go, finite domain: the k-th ReadByte yields the
// k-th scripted byte class representative or an error; counters are constants, everything else
// is unknown) and classifies every path: ok | err | unknown | truncated | panic.
func c18RunDecoder(w *World, fn *ssa.Function, script []c18ByteEv, endless *c18ByteEv) map[string]int {
	ev := &Evaluator{W: w}
	ev.Cfg = EvalConfig{
		MaxDepth:  3,
		MaxVisits: 64,
		Inline:    func(f *ssa.Function) bool { return inModule(f) },
		Interesting: func(_ string, cc *ssa.CallCommon) bool {
			return c18IsReadByte(cc)
		},
		Call: func(_ *Evaluator, st *pstate, key string, cc *ssa.CallCommon, _ []AVal) ([]AVal, bool) {
			if c18IsReadByte(cc) {
				n := 0
				for _, e := range st.trace {
					if e.Site != nil && c18IsReadByte(e.Site.Common()) {
						n++
					}
				}
				item := c18ByteEv{Err: true}
				switch {
				case n-1 < len(script):
					item = script[n-1]
				case endless != nil:
					item = *endless
				}
				bt := types.Typ[types.Uint8]
				if item.Err {
					return []AVal{aConst{V: constant.MakeInt64(0), T: bt}, aNonNil{Tag: "read error"}}, true
				}
				return []AVal{aConst{V: constant.MakeInt64(item.B), T: bt}, aNil{}}, true
			}
			switch key {
			case "fmt.Errorf", "errors.New":
				return []AVal{aNonNil{Tag: key}}, true
			}
			return nil, false
		},
	}
	out := map[string]int{}
	errIdx := errResultIndex(fn.Signature)
	for _, o := range ev.Eval(fn, ev.SymbolicArgs(fn)) {
		switch o.Kind {
		case "return":
			if errIdx < 0 || errIdx >= len(o.Results) {
				out["unknown"]++
				continue
			}
			switch e := o.Results[errIdx].(type) {
			case aNil:
				out["ok"]++
			case aNonNil, aPtr, aFunc:
				out["err"]++
			case aIface:
				if _, isNil := e.V.(aNil); isNil && e.T == nil {
					out["ok"]++
				} else {
					out["err"]++
				}
			default:
				out["unknown"]++
			}
		default:
			out[o.Kind]++
		}
	}
	return out
}

// c18ModuleDecoders judges every recognised hand-written uvarint decoder of the reader against
// the acceptance set of binary.ReadUvarint: at most 10 bytes, the 10th at most 1, read errors
// reported. Scenarios range over byte classes (continuation 0x80/0xff, final 0x00/0x01/0x02/0x7f)
// and positions; nothing is executed, the SSA is evaluated over this finite domain.
func c18ModuleDecoders(c *Ctx, s *c18Side) {
	var fns []*ssa.Function
	for _, f := range s.set {
		if s.decoders[f] {
			fns = append(fns, f)
		}
	}
	for _, fn := range fns {
		construct := fnName(fn) + "+uvarint-overflow"
		nEval := 0
		run := func(script []c18ByteEv, endless *c18ByteEv) map[string]int {
			nEval++
			return c18RunDecoder(c.W, fn, script, endless)
		}
		// sanity: the model must be able to follow the decoder at all
		if r := run([]c18ByteEv{{B: 5}}, nil); r["ok"] == 0 || r["truncated"] > 0 {
			c.undecided("D2", construct, fn.Pos(), "hand-written prefix decoder: the evaluator cannot follow it on a one-byte prefix (%v); its overflow handling is not decided", r)
			continue
		}
		var late, tenth, unbounded, errLost, crash []string
		accepts := func(r map[string]int) bool { return r["ok"] > 0 || r["unknown"] > 0 }
		for _, cont := range []int64{0x80, 0xff} {
			rep := func(k int, tail ...c18ByteEv) []c18ByteEv {
				var sc []c18ByteEv
				for i := 0; i < k; i++ {
					sc = append(sc, c18ByteEv{B: cont})
				}
				return append(sc, tail...)
			}
			// the 10th byte carries bit 63 only
			for _, t := range []int64{0x02, 0x7f} {
				r := run(rep(9, c18ByteEv{B: t}), nil)
				if accepts(r) {
					tenth = append(tenth, fmt.Sprintf("0x%02x×9 0x%02x", cont, t))
				}
				if r["panic"] > 0 {
					crash = append(crash, fmt.Sprintf("0x%02x×9 0x%02x", cont, t))
				}
			}
			// more than 10 bytes
			for k := 10; k <= 12; k++ {
				for _, t := range []int64{0x00, 0x01, 0x7f} {
					r := run(rep(k, c18ByteEv{B: t}), nil)
					if accepts(r) {
						late = append(late, fmt.Sprintf("0x%02x×%d 0x%02x", cont, k, t))
					}
					if r["panic"] > 0 {
						crash = append(crash, fmt.Sprintf("0x%02x×%d 0x%02x", cont, k, t))
					}
				}
			}
			// no end
			if r := run(nil, &c18ByteEv{B: cont}); r["truncated"] > 0 || accepts(r) {
				unbounded = append(unbounded, fmt.Sprintf("0x%02x repeated", cont))
			}
			// read errors
			for k := 0; k <= 10; k++ {
				if r := run(rep(k, c18ByteEv{Err: true}), nil); accepts(r) {
					errLost = append(errLost, fmt.Sprintf("error at byte %d", k+1))
				}
			}
		}
		c.count("decoder_scenarios", nEval)
		var bad []string
		if len(unbounded) > 0 {
			bad = append(bad, "the number of prefix bytes is not bounded: an endless run of continuation bytes ("+strings.Join(c18Uniq(unbounded), ", ")+") is consumed without an error")
		}
		if len(late) > 0 {
			bad = append(bad, fmt.Sprintf("overflow of the shift is not rejected: prefixes of more than 10 bytes are accepted, the bits of the groups past bit 63 are shifted out (%d cases, e.g. %s decodes with a nil error)", len(late), late[0]))
		}
		if len(tenth) > 0 {
			bad = append(bad, "a 10th byte above 1 is accepted although it carries bits beyond 2^64 (e.g. "+tenth[0]+"): the value wraps")
		}
		if len(errLost) > 0 {
			sort.Strings(errLost)
			bad = append(bad, "a ReadByte error is turned into a successful decode ("+strings.Join(c18Uniq(errLost), ", ")+")")
		}
		if len(crash) > 0 {
			bad = append(bad, "an explicit panic is reachable on an over-long prefix (e.g. "+crash[0]+")")
		}
		if len(bad) == 0 {
			c.ok("D2", construct, fn.Pos(), "hand-written uvarint decoder evaluated on %d byte-class scenarios: more than 10 bytes, a 10th byte above 1, an endless run of continuation bytes and read errors all end in an error return", nEval)
		} else {
			c.fail("D2", construct, fn.Pos(), "hand-written uvarint decoder accepts malformed prefixes that binary.ReadUvarint rejects, so the length compared with the limit is a truncation of what is on the wire: %s", strings.Join(bad, "; "))
		}
	}
}

// ---------- D4 (continued): what the byte-obtaining calls read from ----------

// c18Dyn describes the objects a stream value may hold at run time.
type c18Dyn struct {
	Types   []types.Type // concrete types (dynamic type of an interface value, or the static type)
	Lib     []string     // results of library constructors returning an interface
	Caller  bool         // the caller's reader, as given to the exported constructor
	Assert  bool         // the caller's reader, picked up through a type assertion
	Unknown []string
}

func (d *c18Dyn) addType(t types.Type) {
	for _, x := range d.Types {
		if types.Identical(x, t) {
			return
		}
	}
	d.Types = append(d.Types, t)
}

func c18ModuleType(t types.Type) bool {
	if p, ok := t.(*types.Pointer); ok {
		t = p.Elem()
	}
	n, ok := t.(*types.Named)
	if !ok || n.Obj() == nil || n.Obj().Pkg() == nil {
		return false
	}
	p := n.Obj().Pkg().Path()
	return p == modulePath || strings.HasPrefix(p, modulePath+"/")
}

// c18DynTypes resolves what v may hold: through interface conversions, phis, type assertions,
// loads of struct fields (every store to the field in pkg/protoio) and module constructors.
func c18DynTypes(w *World, v ssa.Value, d *c18Dyn, seen map[ssa.Value]bool, depth int) {
	if v == nil || seen[v] {
		return
	}
	seen[v] = true
	if depth > 12 {
		d.Unknown = append(d.Unknown, v.Name())
		return
	}
	if _, isI := v.Type().Underlying().(*types.Interface); !isI {
		d.addType(v.Type())
		return
	}
	assertBase := func(x ssa.Value) {
		b := x
		for {
			ci, ok := b.(*ssa.ChangeInterface)
			if !ok {
				break
			}
			b = ci.X
		}
		if _, isPar := b.(*ssa.Parameter); isPar {
			d.Assert = true
			return
		}
		c18DynTypes(w, x, d, seen, depth+1)
	}
	switch x := v.(type) {
	case *ssa.Const:
		// nil interface: nothing to read from
	case *ssa.MakeInterface:
		d.addType(x.X.Type())
	case *ssa.ChangeInterface:
		c18DynTypes(w, x.X, d, seen, depth+1)
	case *ssa.Phi:
		for _, e := range x.Edges {
			c18DynTypes(w, e, d, seen, depth+1)
		}
	case *ssa.TypeAssert:
		assertBase(x.X)
	case *ssa.Extract:
		switch t := x.Tuple.(type) {
		case *ssa.TypeAssert:
			if x.Index == 0 {
				assertBase(t.X)
			}
		case *ssa.Call:
			c18DynCall(w, t, x.Index, d, seen, depth)
		default:
			d.Unknown = append(d.Unknown, x.Name())
		}
	case *ssa.Call:
		c18DynCall(w, x, 0, d, seen, depth)
	case *ssa.Parameter, *ssa.FreeVar:
		d.Caller = true
	case *ssa.UnOp:
		if x.Op != token.MUL {
			d.Unknown = append(d.Unknown, x.Name())
			return
		}
		if f, ok := c18FieldOfAddr(x.X); ok {
			n := 0
			for _, fn := range c18PkgFuncs(w) {
				for _, b := range fn.Blocks {
					for _, in := range b.Instrs {
						st, ok := in.(*ssa.Store)
						if !ok {
							continue
						}
						if g, ok := c18FieldOfAddr(st.Addr); ok && g == f {
							n++
							c18DynTypes(w, st.Val, d, seen, depth+1)
						}
					}
				}
			}
			if n == 0 {
				d.Unknown = append(d.Unknown, "field "+f.name()+" (never stored)")
			}
			return
		}
		if al, ok := x.X.(*ssa.Alloc); ok && al.Referrers() != nil {
			for _, r := range *al.Referrers() {
				if st, ok := r.(*ssa.Store); ok && st.Addr == ssa.Value(al) {
					c18DynTypes(w, st.Val, d, seen, depth+1)
				}
			}
			return
		}
		d.Unknown = append(d.Unknown, x.Name())
	default:
		d.Unknown = append(d.Unknown, v.Name())
	}
}

func c18DynCall(w *World, call *ssa.Call, idx int, d *c18Dyn, seen map[ssa.Value]bool, depth int) {
	cal := staticCallee(call.Common())
	if cal != nil && inModule(cal) && cal.Blocks != nil {
		for _, r := range returnsOf(cal) {
			if res := retResults(r); idx < len(res) {
				c18DynTypes(w, res[idx], d, seen, depth+1)
			}
		}
		return
	}
	if cal != nil {
		d.Lib = append(d.Lib, funcKey(cal))
		return
	}
	d.Unknown = append(d.Unknown, call.Name())
}

// c18DerivesFrom: v is computed from src (conversions, arithmetic, phis).
func c18DerivesFrom(v, src ssa.Value, depth int) bool {
	if v == nil || depth > 5 {
		return false
	}
	if v == src {
		return true
	}
	switch x := v.(type) {
	case *ssa.Convert:
		return c18DerivesFrom(x.X, src, depth+1)
	case *ssa.ChangeType:
		return c18DerivesFrom(x.X, src, depth+1)
	case *ssa.UnOp:
		if x.Op != token.MUL {
			return c18DerivesFrom(x.X, src, depth+1)
		}
	case *ssa.BinOp:
		return c18DerivesFrom(x.X, src, depth+1) || c18DerivesFrom(x.Y, src, depth+1)
	case *ssa.Phi:
		for _, e := range x.Edges {
			if c18DerivesFrom(e, src, depth+1) {
				return true
			}
		}
	}
	return false
}

// c18ReadContract checks the bare Read calls of fn, a module method standing in for a
// library reader: the io.Reader contract lets Read return n > 0 bytes together with an error
// (typically the last bytes with io.EOF), so (a) the count must be used and (b) no return on
// the error side may be reached before a branch has examined the count, unless the count
// itself is handed on to the caller.
func c18ReadContract(c *Ctx, fn *ssa.Function) (reads int, bad []string) {
	for _, b := range fn.Blocks {
		for _, in := range b.Instrs {
			ci, ok := in.(*ssa.Call)
			if !ok {
				continue
			}
			cc := ci.Common()
			_, recv, name := c18CallInfo(cc)
			sig := cc.Signature()
			if name != "Read" || sig.Params().Len() != 1 || sig.Results().Len() != 2 || !isErrorType(sig.Results().At(1).Type()) || !c18IsByteSlice(sig.Params().At(0).Type()) {
				continue
			}
			reads++
			cnt, errv := resultValue(ci, 0), resultValue(ci, 1)
			if cnt == nil || cnt.Referrers() == nil || len(*cnt.Referrers()) == 0 {
				bad = append(bad, fmt.Sprintf("%s.Read at %s: the byte count is ignored, so a read of 0 bytes is taken for data and bytes delivered with an error are dropped", recv, c.pos(posOf(ci))))
				continue
			}
			if errv == nil {
				continue // reported by nobody here: a module ByteReader dropping errors only ever under-reports
			}
			// branches that examine the count
			nTest := map[*ssa.BasicBlock]bool{}
			cut := map[edge]bool{}
			for _, blk := range fn.Blocks {
				if len(blk.Instrs) == 0 {
					continue
				}
				if iff, ok := blk.Instrs[len(blk.Instrs)-1].(*ssa.If); ok && c18DerivesFrom(iff.Cond, cnt, 0) {
					nTest[blk] = true
					for _, sc := range blk.Succs {
						cut[edge{blk, sc}] = true
					}
				}
			}
			before := reach(b, cut)
			for _, e := range edgesOfVerdict(errv).Reject {
				if !before[e.From] || nTest[e.From] {
					continue
				}
				region := reachFromEdges([]edge{e}, cut)
				for _, r := range returnsOf(fn) {
					if !region[r.Block()] {
						continue
					}
					hands := false
					for _, res := range retResults(r) {
						if c18DerivesFrom(res, cnt, 0) {
							hands = true
						}
					}
					if !hands {
						bad = append(bad, fmt.Sprintf("%s.Read at %s: the error is tested before the byte count and the return at %s is reached without the count having been looked at: a Read that delivers the last byte(s) together with io.EOF loses them, and the final frame of the stream with them", recv, c.pos(posOf(ci)), c.pos(posOf(r))))
					}
				}
			}
		}
	}
	bad = c18Uniq(bad)
	return
}

// c18ByteSource: resolve what the prefix/body reads of one ReadMsg read from, and hold module
// types that stand in for a library reader to the io.Reader contract.
func c18ByteSource(c *Ctx, s *c18Side) {
	w := c.W
	root := c18ShortFn(s.root)
	type need struct {
		T      types.Type
		Method string
	}
	var needs []need
	addNeed := func(t types.Type, m string) {
		for _, n := range needs {
			if n.Method == m && types.Identical(n.T, t) {
				return
			}
		}
		needs = append(needs, need{t, m})
	}
	var sources []string
	seenSrc := map[string]bool{}
	src := func(format string, a ...any) {
		x := fmt.Sprintf(format, a...)
		if !seenSrc[x] {
			seenSrc[x] = true
			sources = append(sources, x)
		}
	}
	var unknown []string
	nCalls := 0
	resolve := func(stream ssa.Value, method, via string) {
		nCalls++
		d := &c18Dyn{}
		c18DynTypes(w, stream, d, map[ssa.Value]bool{}, 0)
		for _, t := range d.Types {
			if c18ModuleType(t) {
				addNeed(t, method)
				src("module type %s (its %s is checked)", types.TypeString(t, func(p *types.Package) string { return p.Name() }), method)
			} else {
				src("library type %s", types.TypeString(t, func(p *types.Package) string { return p.Name() }))
			}
		}
		for _, l := range d.Lib {
			src("result of %s", l)
		}
		if d.Caller {
			src("the caller's reader as given")
		}
		if d.Assert {
			src("the caller's reader through a type assertion")
			c.note("%s: %s reads from the caller's own reader when it implements the interface asserted in the constructor; its %s is the caller's responsibility and is not analysed", root, via, method)
		}
		for _, u := range d.Unknown {
			unknown = append(unknown, via+": "+u)
		}
	}
	for _, fn := range s.set {
		for _, b := range fn.Blocks {
			for _, in := range b.Instrs {
				ci, ok := in.(ssa.CallInstruction)
				if !ok {
					continue
				}
				cc := ci.Common()
				pkg, recv, name := c18CallInfo(cc)
				switch {
				case pkg == "encoding/binary" && recv == "" && (name == "ReadUvarint" || name == "ReadVarint") && len(cc.Args) >= 1:
					resolve(cc.Args[0], "ReadByte", "binary."+name)
				case pkg == "io" && recv == "" && (name == "ReadFull" || name == "ReadAtLeast" || name == "ReadAll") && len(cc.Args) >= 1:
					resolve(cc.Args[0], "Read", "io."+name)
				case pkg == "encoding/binary" && recv == "" && name == "Read" && len(cc.Args) >= 1:
					resolve(cc.Args[0], "Read", "binary.Read")
				case cc.IsInvoke() && (name == "ReadByte" || name == "Read"):
					resolve(cc.Value, name, recv+"."+name)
				}
			}
		}
	}
	if nCalls == 0 {
		return // c18Chunking reports the absence of byte-obtaining calls
	}
	c.count("stream_objects_resolved", nCalls)
	sort.Strings(sources)
	if len(unknown) > 0 {
		c.undecided("D4", root+"+byte-source", s.root.Pos(), "the object the reader reads from could not be resolved: %s", strings.Join(c18Uniq(unknown), "; "))
	} else {
		c.ok("D4", root+"+byte-source", s.root.Pos(), "%d byte-obtaining call(s) read from: %s", nCalls, strings.Join(sources, "; "))
	}
	// module types standing in for a library reader
	checked := map[*ssa.Function]bool{}
	for i := 0; i < len(needs) && i < 16; i++ {
		n := needs[i]
		m := w.methodOf(n.T, n.Method)
		tname := types.TypeString(n.T, func(p *types.Package) string { return p.Name() })
		if m == nil || m.Blocks == nil {
			c.undecided("D4", root+"+byte-source("+tname+")", s.root.Pos(), "method %s of module type %s has no body to analyse", n.Method, tname)
			continue
		}
		for _, fn := range c18StaticClosure(m, 3) {
			if checked[fn] {
				continue
			}
			checked[fn] = true
			c.analysed(fn)
			reads, bad := c18ReadContract(c, fn)
			// what the module method itself reads from: follow module types one level further
			for _, b := range fn.Blocks {
				for _, in := range b.Instrs {
					ci, ok := in.(*ssa.Call)
					if !ok || !ci.Common().IsInvoke() {
						continue
					}
					if nm := ci.Common().Method.Name(); nm == "Read" || nm == "ReadByte" {
						d := &c18Dyn{}
						c18DynTypes(w, ci.Common().Value, d, map[ssa.Value]bool{}, 0)
						for _, t := range d.Types {
							if c18ModuleType(t) {
								addNeed(t, nm)
							}
						}
					}
				}
			}
			if reads == 0 && fn != m {
				continue
			}
			if fn.Synthetic != "" && len(bad) == 0 {
				continue // promoted method: a plain delegation to the embedded reader
			}
			construct := fnName(fn) + "+Read-contract"
			if len(bad) == 0 {
				c.ok("D4", construct, fn.Pos(), "module %s used as the reader's byte source: %d bare Read call(s), the count is used and examined before any return on the error side", fn.Name(), reads)
			} else {
				c.fail("D4", construct, fn.Pos(), "module type %s stands in for a library reader but its %s breaks the io.Reader contract: %s", tname, fn.Name(), strings.Join(bad, "; "))
			}
		}
	}
}

func c18IsByteSlice(t types.Type) bool {
	sl, ok := t.Underlying().(*types.Slice)
	if !ok {
		return false
	}
	b, ok := sl.Elem().Underlying().(*types.Basic)
	return ok && b.Kind() == types.Uint8
}

// ---------- D5 ----------

type c18Codec struct {
	Family string // uvarint | varint | fixed16/32/64
	Order  string // byte-order source for fixed families
	Call   ssa.CallInstruction
	Fn     *ssa.Function
	Value  ssa.Value // encoded value (writer)
	Buf    ssa.Value // buffer argument
}

func (s *c18Side) orderSource(recv ssa.Value, orderFields map[c18Field]bool) string {
	if recv == nil {
		return "?"
	}
	var visit func(v ssa.Value, d int) string
	visit = func(v ssa.Value, d int) string {
		if d > 6 {
			return "?"
		}
		switch x := v.(type) {
		case *ssa.UnOp:
			if x.Op == token.MUL {
				if g, ok := x.X.(*ssa.Global); ok {
					return "global " + g.Pkg.Pkg.Name() + "." + g.Name()
				}
				if f, ok := c18FieldOfAddr(x.X); ok {
					if orderFields[f] {
						return "constructor parameter"
					}
					return "field " + f.name()
				}
			}
		case *ssa.MakeInterface:
			return visit(x.X, d+1)
		case *ssa.ChangeInterface:
			return visit(x.X, d+1)
		case *ssa.ChangeType:
			return visit(x.X, d+1)
		case *ssa.Parameter:
			idx := -1
			for i, p := range x.Parent().Params {
				if p == x {
					idx = i
				}
			}
			res := ""
			for _, cs := range s.callSites(x.Parent()) {
				if args := cs.Common().Args; idx >= 0 && idx < len(args) {
					r := visit(args[idx], d+1)
					if res != "" && res != r {
						return "?"
					}
					res = r
				}
			}
			if res != "" {
				return res
			}
		}
		return "? (" + types.TypeString(v.Type(), nil) + ")"
	}
	return visit(recv, 0)
}

func (s *c18Side) codecs(writer bool, orderFields map[c18Field]bool) []c18Codec {
	var out []c18Codec
	for _, fn := range s.set {
		for _, b := range fn.Blocks {
			for _, in := range b.Instrs {
				ci, ok := in.(ssa.CallInstruction)
				if !ok {
					continue
				}
				cc := ci.Common()
				pkg, recv, name := c18CallInfo(cc)
				if cal := staticCallee(cc); !writer && cal != nil && s.decoders[cal] {
					// hand-written decoder of the uvarint shape (7 bits per byte, low group first);
					// its overflow handling is judged by D2
					out = append(out, c18Codec{Call: ci, Fn: fn, Family: "uvarint"})
					continue
				}
				if pkg != "encoding/binary" {
					continue
				}
				args := c18Args(cc)
				cd := c18Codec{Call: ci, Fn: fn}
				if writer {
					switch {
					case recv == "" && (name == "PutUvarint" || name == "AppendUvarint"):
						cd.Family = "uvarint"
					case recv == "" && (name == "PutVarint" || name == "AppendVarint"):
						cd.Family = "varint"
					case recv != "" && (strings.HasPrefix(name, "PutUint") || strings.HasPrefix(name, "AppendUint")):
						cd.Family = "fixed" + strings.TrimPrefix(strings.TrimPrefix(name, "PutUint"), "AppendUint")
						cd.Order = s.orderSource(c18Recv(cc), orderFields)
					default:
						continue
					}
					if len(args) >= 2 {
						cd.Buf, cd.Value = args[0], args[1]
					}
				} else {
					switch {
					case recv == "" && (name == "ReadUvarint" || name == "Uvarint"):
						cd.Family = "uvarint"
					case recv == "" && (name == "ReadVarint" || name == "Varint"):
						cd.Family = "varint"
					case recv != "" && (name == "Uint16" || name == "Uint32" || name == "Uint64"):
						cd.Family = "fixed" + strings.TrimPrefix(name, "Uint")
						cd.Order = s.orderSource(c18Recv(cc), orderFields)
						if len(args) >= 1 {
							cd.Buf = args[0]
						}
					default:
						continue
					}
				}
				out = append(out, cd)
			}
		}
	}
	return out
}

// c18SliceLen resolves the constant length of a byte slice value; pkgFns are searched for the
// stores that define a field.
func c18SliceLen(v ssa.Value, pkgFns []*ssa.Function, depth int) (int64, bool) {
	if depth > 4 || v == nil {
		return 0, false
	}
	switch x := v.(type) {
	case *ssa.Slice:
		lo := int64(0)
		if x.Low != nil {
			k, ok := constInt(x.Low)
			if !ok {
				return 0, false
			}
			lo = k
		}
		if x.High != nil {
			k, ok := constInt(x.High)
			if !ok {
				return 0, false
			}
			return k - lo, true
		}
		if p, ok := x.X.Type().Underlying().(*types.Pointer); ok {
			if arr, ok := p.Elem().Underlying().(*types.Array); ok {
				return arr.Len() - lo, true
			}
		}
		if n, ok := c18SliceLen(x.X, pkgFns, depth+1); ok {
			return n - lo, true
		}
	case *ssa.MakeSlice:
		if k, ok := constInt(x.Len); ok {
			return k, true
		}
	case *ssa.UnOp:
		if x.Op != token.MUL {
			return 0, false
		}
		f, ok := c18FieldOfAddr(x.X)
		if !ok {
			return 0, false
		}
		var val int64
		n := 0
		for _, fn := range pkgFns {
			for _, b := range fn.Blocks {
				for _, in := range b.Instrs {
					st, ok := in.(*ssa.Store)
					if !ok {
						continue
					}
					if g, ok := c18FieldOfAddr(st.Addr); !ok || g != f {
						continue
					}
					k, ok := c18SliceLen(st.Val, pkgFns, depth+1)
					if !ok || (n > 0 && k != val) {
						return 0, false
					}
					val = k
					n++
				}
			}
		}
		return val, n > 0
	}
	return 0, false
}

func c18Families(cs []c18Codec) []string {
	m := map[string]bool{}
	for _, c := range cs {
		m[c.Family] = true
	}
	var out []string
	for k := range m {
		out = append(out, k)
	}
	sort.Strings(out)
	return out
}

func c18CodecAgreement(c *Ctx, pair c18Pair, readers, writers []*c18Side, orderR, orderW map[c18Field]bool) {
	construct := "protoio." + pair.ReaderCtr + "<->" + pair.WriterCtr[0]
	if len(readers) == 0 || len(writers) == 0 {
		return // already reported as undecided
	}
	var dec, enc []c18Codec
	for _, s := range readers {
		dec = append(dec, s.codecs(false, orderR)...)
	}
	for _, s := range writers {
		enc = append(enc, s.codecs(true, orderW)...)
	}
	c.count("prefix_codec_calls", len(dec)+len(enc))
	pos := readers[0].root.Pos()
	if len(dec) == 0 || len(enc) == 0 {
		c.undecided("D5", construct+"+codec", pos, "prefix encoder/decoder calls (encoding/binary) not found on both sides: %d encoders, %d decoders", len(enc), len(dec))
		return
	}
	fd, fe := c18Families(dec), c18Families(enc)
	okFam := len(fd) == 1 && len(fe) == 1 && fd[0] == fe[0]
	c.check(okFam, "D5", construct+"+codec", posOf(enc[0].Call),
		fmt.Sprintf("writer and reader use the same prefix codec (%s) at all %d sites", fd[0], len(dec)+len(enc)),
		fmt.Sprintf("prefix codec mismatch: the writer encodes the length as %v, the reader decodes %v; the reader misreads every length", fe, fd))
	// byte-order source
	if strings.HasPrefix(fd[0], "fixed") || strings.HasPrefix(fe[0], "fixed") {
		src := map[string]bool{}
		// only the fixed-width codec calls have a byte order (a family mismatch is the codec obligation's)
		for _, x := range dec {
			if strings.HasPrefix(x.Family, "fixed") {
				src["reader: "+x.Order] = true
			}
		}
		for _, x := range enc {
			if strings.HasPrefix(x.Family, "fixed") {
				src["writer: "+x.Order] = true
			}
		}
		plain := map[string]bool{}
		unknown := false
		for _, x := range append(append([]c18Codec{}, dec...), enc...) {
			if !strings.HasPrefix(x.Family, "fixed") {
				continue
			}
			plain[x.Order] = true
			if strings.HasPrefix(x.Order, "?") {
				unknown = true
			}
		}
		var l []string
		for k := range src {
			l = append(l, k)
		}
		sort.Strings(l)
		switch {
		case unknown:
			c.undecided("D5", construct+"+byte-order", posOf(dec[0].Call), "byte-order value of a prefix codec call could not be resolved: %s", strings.Join(l, "; "))
		default:
			c.check(len(plain) == 1, "D5", construct+"+byte-order", posOf(dec[0].Call),
				"both ends take the byte order from the same source ("+strings.Join(l, "; ")+")",
				"the two ends take the byte order from different sources ("+strings.Join(l, "; ")+"): with the other order the reader decodes a different length than was written")
		}
	}
	// reader: the prefix read is exactly as wide as the decoder
	pkgFns := c18PkgFuncs(c.W)
	for _, s := range readers {
		for _, d := range dec {
			if !s.inSet[d.Fn] || !strings.HasPrefix(d.Family, "fixed") || d.Buf == nil {
				continue
			}
			var want int64
			fmt.Sscanf(strings.TrimPrefix(d.Family, "fixed"), "%d", &want)
			want /= 8
			cons := c18ShortFn(d.Fn) + "+prefix-width"
			matched := false
			for _, rd := range callsIn(d.Fn, func(_ string, cc *ssa.CallCommon) bool { _, ok := c18IsFullRead(cc); return ok }) {
				buf, _ := c18IsFullRead(rd.Common())
				if !c18SameSlice(buf, d.Buf) {
					continue
				}
				matched = true
				n, ok := c18SliceLen(buf, pkgFns, 0)
				switch {
				case !ok:
					c.undecided("D5", cons, posOf(rd), "length of the prefix buffer filled by the full read cannot be resolved to a constant")
				default:
					c.check(n == want, "D5", cons, posOf(rd), fmt.Sprintf("the prefix read fills exactly the %d bytes the decoder consumes", want),
						fmt.Sprintf("the prefix read consumes %d bytes but the decoder uses %d: the stream position is wrong after the first frame", n, want))
				}
			}
			if !matched {
				c.fail("D5", cons, posOf(d.Call), "the buffer given to the %s decoder is not the buffer of a full read in the same function", d.Family)
			}
		}
	}
	// writer: what is encoded is the length of what is written
	for _, s := range writers {
		for _, e := range enc {
			if !s.inSet[e.Fn] || e.Value == nil {
				continue
			}
			cons := c18ShortFn(e.Fn) + "+encoded-length"
			tr := s.trace(e.Value)
			// The frame is put together in the function that takes len(body): the encoder's own
			// function, or a helper that is handed the encoder as a function value / calls it
			// through other module functions. Writes, their order and the prefix buffer are
			// looked at there, with the encoder's parameters bound to this writer's arguments.
			writesIn := func(f *ssa.Function) []ssa.CallInstruction {
				return callsIn(f, func(_ string, cc *ssa.CallCommon) bool {
					_, _, name := c18CallInfo(cc)
					return name == "Write" && len(c18Args(cc)) == 1 && c18IsByteSlice(c18Args(cc)[0].Type())
				})
			}
			sitesIn := func(f *ssa.Function) []ssa.CallInstruction {
				if f == e.Fn {
					return []ssa.CallInstruction{e.Call}
				}
				var out []ssa.CallInstruction
				for _, b := range f.Blocks {
					for _, in := range b.Instrs {
						if ci, ok := in.(ssa.CallInstruction); ok && s.leadsTo(ci, e.Fn, 3) {
							out = append(out, ci)
						}
					}
				}
				return out
			}
			isPrefixIn := func(f *ssa.Function, pa ssa.Value) bool {
				base := pa
				if sl, ok := pa.(*ssa.Slice); ok {
					base = sl.X
				}
				if f == e.Fn {
					return c18SamePlace(base, e.Buf) || base == e.Call.Value()
				}
				for _, site := range sitesIn(f) {
					if v := site.Value(); v != nil && base == ssa.Value(v) && s.yieldsPrefix(site, e, 3) {
						return true // the helper returns the buffer it encoded the prefix into
					}
				}
				for _, o := range s.originsIn(e.Buf, f, 0) {
					if base == o || c18SamePlace(base, o) {
						return true // the buffer handed to the encoder
					}
				}
				return false
			}
			var prefixWrites []ssa.CallInstruction
			if len(tr.Lens) == 0 {
				c.note("%s: the encoded length is not a len(...) (marshaler fast path: Size()/ProtoSize() and offset arithmetic); agreement with the bytes written is not modelled", c18ShortFn(e.Fn))
				continue
			}
			okk := true
			why := ""
			for _, l := range tr.Lens {
				_, _, name := c18CallInfo(l.Common())
				body := l.Common().Args[0]
				frame := l.Parent()
				writes := writesIn(frame)
				sites := sitesIn(frame)
				encodedBefore := func(in ssa.Instruction) bool {
					for _, st := range sites {
						if instrDominates(st, in) {
							return true
						}
					}
					return false
				}
				written, prefixFirst := false, false
				for _, wr := range writes {
					a := c18Args(wr.Common())[0]
					if !encodedBefore(wr) {
						continue
					}
					if ap, ok := a.(*ssa.Call); ok {
						// Write(append(prefix, body...)): one write carrying both, prefix first
						if pkg, _, n := c18CallInfo(ap.Common()); pkg == "builtin" && n == "append" && len(ap.Common().Args) == 2 && ap.Common().Args[1] == body {
							written, prefixFirst = true, true
						}
					}
					if a != body {
						continue
					}
					written = true
					for _, pw := range writes {
						pa := c18Args(pw.Common())[0]
						// the encode happens before the prefix write, or is its very argument
						encoded := encodedBefore(pw)
						for _, st := range sites {
							if v := st.Value(); v != nil && (pa == ssa.Value(v)) {
								encoded = true
							}
						}
						if isPrefixIn(frame, pa) && pw != wr && instrDominates(pw, wr) && encoded {
							prefixFirst = true
							prefixWrites = append(prefixWrites, pw)
						}
					}
				}
				switch {
				case name != "len":
					okk, why = false, "the prefix encodes cap(...) of the body, not its length"
				case !written:
					okk, why = false, "the prefix encodes the length of a value that is not the one written after it"
				case !prefixFirst:
					okk, why = false, "no write of the encoded prefix precedes the write of the body on every path: the frame is not prefix-then-body"
				}
			}
			if okk && (len(tr.Arith) > 0 || len(tr.Consts) > 0 || len(tr.Fields) > 0 || len(tr.Other) > 0 || len(tr.Lens) > 1) {
				okk, why = false, "the prefix encodes an expression of len(body), not len(body): the reader takes a different number of bytes than were written"
			}
			c.check(okk, "D5", cons, posOf(e.Call), "the prefix encodes len(body) of the very value written after it, prefix first", why)
			for _, cv := range tr.Convs {
				for _, ws := range c18WordSizes {
					if c18Narrowing(cv, ws) {
						c.note("%s: %s narrows len(body) when int is %d bits; a message of 2^%d bytes or more would be framed with a wrapped prefix (outside the stated sizes, advisory)", c18ShortFn(e.Fn), c18ConvString(cv), ws, c18Width(cv.Type(), ws))
					}
				}
			}
			// fixed width: the bytes written for the prefix are exactly the codec width
			if strings.HasPrefix(e.Family, "fixed") && e.Buf != nil {
				var want int64
				fmt.Sscanf(strings.TrimPrefix(e.Family, "fixed"), "%d", &want)
				want /= 8
				seenPW := map[ssa.CallInstruction]bool{}
				for _, wr := range prefixWrites {
					if seenPW[wr] {
						continue
					}
					seenPW[wr] = true
					a := c18Args(wr.Common())[0]
					lens, complete := s.sliceLens(a, pkgFns, e.Fn, 0)
					var wrong []string
					for _, n := range lens {
						if n != want {
							wrong = append(wrong, fmt.Sprint(n))
						}
					}
					switch {
					case len(wrong) > 0:
						c.fail("D5", c18ShortFn(e.Fn)+"+prefix-width", posOf(wr), "the prefix buffer written is %s bytes long (at one of the call sites that supply it), the codec fills %d", strings.Join(c18Uniq(wrong), "/"), want)
					case complete:
						c.ok("D5", c18ShortFn(e.Fn)+"+prefix-width", posOf(wr), "the prefix written is exactly %d bytes", want)
					}
				}
			}
		}
	}
}

// yieldsPrefix: the value of call site is the buffer encoder e filled — the function containing
// the encoder call returns that buffer (or a slice of it, or the Append* result), and every
// function between the site and it hands the inner call's value on unchanged.
func (s *c18Side) yieldsPrefix(site ssa.CallInstruction, e c18Codec, depth int) bool {
	cals := s.calleesOf(site)
	if len(cals) == 0 || depth < 0 {
		return false
	}
	relevant := 0
	for _, cal := range cals {
		if cal != e.Fn && !s.fnLeadsTo(cal, e.Fn, depth) {
			continue // another encoder bound to the same parameter: judged under its own obligation
		}
		rets := returnsOf(cal)
		if len(rets) == 0 {
			return false
		}
		for _, r := range rets {
			res := retResults(r)
			if len(res) == 0 {
				return false
			}
			v := res[0]
			if cal == e.Fn {
				base := v
				if sl, ok := v.(*ssa.Slice); ok {
					base = sl.X
				}
				if !(base == e.Buf || c18SamePlace(base, e.Buf) || (e.Call.Value() != nil && base == ssa.Value(e.Call.Value()))) {
					return false
				}
				continue
			}
			inner, ok := v.(*ssa.Call)
			if !ok || !s.leadsTo(inner, e.Fn, depth) || !s.yieldsPrefix(inner, e, depth-1) {
				return false
			}
		}
		relevant++
	}
	return relevant > 0
}

// sliceLens: c18SliceLen extended through this side's calls: a parameter has the lengths of the
// arguments it is bound to, a call result those of the callee's returned slices (only callees
// that are, or lead to, function only when it is given). complete = every alternative resolved.
func (s *c18Side) sliceLens(v ssa.Value, pkgFns []*ssa.Function, only *ssa.Function, depth int) (lens []int64, complete bool) {
	if v == nil || depth > 6 {
		return nil, false
	}
	if n, ok := c18SliceLen(v, pkgFns, 0); ok {
		return []int64{n}, true
	}
	collect := func(vals []ssa.Value) ([]int64, bool) {
		var out []int64
		all := len(vals) > 0
		for _, x := range vals {
			l, ok := s.sliceLens(x, pkgFns, only, depth+1)
			out = append(out, l...)
			if !ok {
				all = false
			}
		}
		return out, all
	}
	switch x := v.(type) {
	case *ssa.Parameter:
		idx := -1
		for i, q := range x.Parent().Params {
			if q == x {
				idx = i
			}
		}
		var args []ssa.Value
		for _, cs := range s.callSites(x.Parent()) {
			a := cs.Common().Args
			if idx < 0 || idx >= len(a) {
				return nil, false
			}
			args = append(args, a[idx])
		}
		return collect(args)
	case *ssa.Call:
		var vals []ssa.Value
		for _, cal := range s.calleesOf(x) {
			if only != nil && cal != only && !s.fnLeadsTo(cal, only, 3) {
				continue
			}
			for _, r := range returnsOf(cal) {
				res := retResults(r)
				if len(res) == 0 {
					return nil, false
				}
				vals = append(vals, res[0])
			}
		}
		return collect(vals)
	case *ssa.Slice:
		if x.Low == nil && x.High == nil && x.Max == nil {
			return s.sliceLens(x.X, pkgFns, only, depth+1)
		}
	}
	return nil, false
}

// fnLeadsTo: f contains a call that reaches fn.
func (s *c18Side) fnLeadsTo(f, fn *ssa.Function, depth int) bool {
	for _, b := range f.Blocks {
		for _, in := range b.Instrs {
			if ci, ok := in.(ssa.CallInstruction); ok && s.leadsTo(ci, fn, depth) {
				return true
			}
		}
	}
	return false
}

func c18PkgFuncs(w *World) []*ssa.Function {
	if v, ok := w.memo["c18pkgfns"]; ok {
		return v.([]*ssa.Function)
	}
	var out []*ssa.Function
	for _, fn := range w.ModFuncs {
		if p := fnPkg(fn); p != nil && p.Path() == c18Pkg {
			out = append(out, fn)
		}
	}
	w.memo["c18pkgfns"] = out
	return out
}
