package main

import "go/types"

// c18AnalysedWordSize: width of int, in bits, on the target the loaded program was type-checked for.
func c18AnalysedWordSize(c *Ctx) int {
	for _, p := range c.W.Pkgs {
		if p.TypesSizes != nil {
			return int(p.TypesSizes.Sizeof(types.Typ[types.Int])) * 8
		}
	}
	return 64
}
