package main

// Self-test: overlay mutants (must be reported by the named rule) and negative controls
// (behaviour-preserving variants that must stay silent). The deciding run never uses an
// overlay; these only test the checker itself.

import (
	"encoding/json"
	"fmt"
	"os"
	"path/filepath"
	"sort"
	"strings"
	"sync"
)

type mutantSpec struct {
	Name       string `json:"name"`
	Kind       string `json:"kind"` // mutant | control
	File       string `json:"file"` // relative to repo
	Find       string `json:"find"`
	Replace    string `json:"replace"`
	Occurrence int    `json:"occurrence,omitempty"` // 1-based; 0 = must be unique
	ExpectRule string `json:"expect_rule"`          // e.g. C01.D2 (prefix match); controls: empty
	Why        string `json:"why,omitempty"`
	Canary     bool   `json:"canary,omitempty"` // also run in the quick tier (positive example on every run)
	// additional edits applied together (two cooperating sites)
	More []struct {
		File       string `json:"file"`
		Find       string `json:"find"`
		Replace    string `json:"replace"`
		Occurrence int    `json:"occurrence,omitempty"`
	} `json:"more,omitempty"`
}

func applyEdit(src, find, repl string, occ int) (string, bool) {
	n := strings.Count(src, find)
	if n == 0 {
		return src, false
	}
	if occ == 0 {
		if n != 1 {
			return src, false
		}
		return strings.Replace(src, find, repl, 1), true
	}
	if occ > n {
		return src, false
	}
	idx := -1
	from := 0
	for i := 0; i < occ; i++ {
		j := strings.Index(src[from:], find)
		idx = from + j
		from = idx + len(find)
	}
	return src[:idx] + repl + src[idx+len(find):], true
}

func nonOKKeys(res runResult) map[string]Obligation {
	m := map[string]Obligation{}
	for _, o := range res.Obs {
		if o.Verdict != VOK {
			m[o.Rule+"|"+o.Construct] = o
		}
	}
	for _, o := range res.Failures {
		m[o.Rule+"|"+o.Construct] = o
	}
	return m
}

func runSelfTest(p *PropertyDef, repo string, known []KnownFinding, canaryOnly bool) *selfTestSummary {
	st := &selfTestSummary{}
	b, err := os.ReadFile(filepath.Join(verifDir, "mutants", p.ID+".json"))
	if err != nil {
		st.Details = append(st.Details, "no mutant file for "+p.ID)
		return st
	}
	var spec struct {
		Mutants []mutantSpec `json:"mutants"`
	}
	if err := json.Unmarshal(b, &spec); err != nil {
		st.Details = append(st.Details, "mutant file unreadable: "+err.Error())
		st.MutantsSurvived = append(st.MutantsSurvived, "spec-unreadable")
		return st
	}
	if canaryOnly {
		var keep []mutantSpec
		for _, m := range spec.Mutants {
			if m.Canary {
				keep = append(keep, m)
			}
		}
		spec.Mutants = keep
		if len(keep) == 0 {
			return nil
		}
	}
	// baseline
	w0, err := baselineWorld(repo)
	if err != nil {
		st.Details = append(st.Details, "baseline load failed: "+err.Error())
		return st
	}
	base := nonOKKeys(runProperty(w0, p, known))

	type outcome struct {
		spec   mutantSpec
		status string // killed | survived | skipped | silent | noisy
		detail string
	}
	outs := make([]outcome, len(spec.Mutants))
	sem := make(chan struct{}, 8)
	var wg sync.WaitGroup
	for i, m := range spec.Mutants {
		wg.Add(1)
		go func(i int, m mutantSpec) {
			defer wg.Done()
			sem <- struct{}{}
			defer func() { <-sem }()
			o := outcome{spec: m}
			defer func() { outs[i] = o }()
			overlay := map[string][]byte{}
			edits := []struct {
				File, Find, Replace string
				Occ                 int
			}{{m.File, m.Find, m.Replace, m.Occurrence}}
			for _, e := range m.More {
				edits = append(edits, struct {
					File, Find, Replace string
					Occ                 int
				}{e.File, e.Find, e.Replace, e.Occurrence})
			}
			for _, e := range edits {
				abs := filepath.Join(repo, e.File)
				var src string
				if cur, ok := overlay[abs]; ok {
					src = string(cur)
				} else {
					raw, err := os.ReadFile(abs)
					if err != nil {
						o.status, o.detail = "skipped", "file missing: "+e.File
						return
					}
					src = string(raw)
				}
				out, ok := applyEdit(src, e.Find, e.Replace, e.Occ)
				if !ok {
					o.status, o.detail = "skipped", "anchor text not found (or not unique) in "+e.File
					return
				}
				overlay[abs] = []byte(out)
			}
			w, err := loadWorldFast(repo, overlay)
			if err != nil {
				o.status, o.detail = "skipped", "variant does not type-check: "+firstLine(err.Error())
				return
			}
			res := runProperty(w, p, known)
			cur := nonOKKeys(res)
			var fresh []string
			for k, ob := range cur {
				if _, was := base[k]; !was {
					fresh = append(fresh, fmt.Sprintf("%s %s @%s: %s", ob.Rule, ob.Construct, ob.Pos, ob.Msg))
				}
			}
			sort.Strings(fresh)
			if m.Kind == "repair" {
				// the variant repairs a defect present on the current tree: every baseline report of
				// the named rule must disappear and nothing new may appear
				gone := true
				for k := range base {
					if strings.HasPrefix(k, m.ExpectRule) {
						if _, still := cur[k]; still {
							gone = false
						}
					}
				}
				switch {
				case len(fresh) > 0:
					o.status, o.detail = "noisy", "repair variant raises new reports: "+strings.Join(fresh, " ; ")
				case !gone:
					o.status, o.detail = "noisy", "repair variant still reported by "+m.ExpectRule
				default:
					o.status = "silent"
				}
				return
			}
			if m.Kind == "control" {
				if len(fresh) == 0 {
					o.status = "silent"
				} else {
					o.status, o.detail = "noisy", strings.Join(fresh, " ; ")
				}
				return
			}
			hit := false
			for _, f := range fresh {
				if strings.HasPrefix(f, m.ExpectRule) {
					hit = true
				}
			}
			if hit {
				o.status, o.detail = "killed", fresh[0]
			} else if len(fresh) > 0 {
				o.status, o.detail = "survived", "reported, but not by "+m.ExpectRule+": "+strings.Join(fresh, " ; ")
			} else {
				o.status, o.detail = "survived", "no new report"
			}
		}(i, m)
	}
	wg.Wait()
	for _, o := range outs {
		line := fmt.Sprintf("%s %s [%s]: %s", o.spec.Kind, o.spec.Name, o.status, o.detail)
		st.Details = append(st.Details, line)
		switch o.status {
		case "killed":
			st.MutantsTotal++
			st.MutantsKilled++
		case "survived":
			st.MutantsTotal++
			st.MutantsSurvived = append(st.MutantsSurvived, o.spec.Name)
		case "skipped":
			st.MutantsSkipped = append(st.MutantsSkipped, o.spec.Name+": "+o.detail)
		case "silent":
			st.ControlsTotal++
			st.ControlsSilent++
		case "noisy":
			st.ControlsTotal++
			st.ControlsNoisy = append(st.ControlsNoisy, o.spec.Name)
		}
	}
	st.FixturesTotal = st.MutantsTotal
	st.FixturesFired = st.MutantsKilled
	return st
}

func firstLine(s string) string {
	if i := strings.Index(s, "\n"); i >= 0 {
		rest := s[i+1:]
		if j := strings.Index(rest, "\n"); j >= 0 {
			rest = rest[:j]
		}
		return s[:i] + " " + strings.TrimSpace(rest)
	}
	return s
}
