package main

// C08: every decryptable message in the log is delivered, none stays parked.
//
// The message pipeline is found by role: the consumer loop is the module function that calls
// queue.SimpleQueue.WaitForItem; parking is queue.PriorityQueue.Add; re-injection is
// queue.SimpleQueue.Add; the release function is the exported MessageStore method that is
// called after SecretStore.RegisterChainKey; the key-known flag is the struct field into which
// the release function stores the result of SecretStore.IsChainKeyKnownForDevice.

import (
	"fmt"
	"go/token"
	"go/types"
	"sort"
	"strings"

	"golang.org/x/tools/go/ssa"
)

const (
	c08PkgQueue    = modulePath + "/internal/queue"
	c08PkgStores   = "berty.tech/go-orbit-db/stores"
	c08KeyIsKnown  = "(" + pkgSecret + ".SecretStore).IsChainKeyKnownForDevice"
	c08KeyRegister = "(" + pkgSecret + ".SecretStore).RegisterChainKey"
	c08KeyOpen     = "(" + pkgSecret + ".SecretStore).OpenEnvelopePayload"
	c08KeyEmit     = "(github.com/libp2p/go-libp2p/core/event.Emitter).Emit"
	c08KeyCtxErr   = "(context.Context).Err"
	c08ReleaseName = "ProcessMessageQueueForDevicePK"
)

func init() {
	register(&PropertyDef{
		ID:    "C08",
		Title: "Every decryptable message in the log is delivered, none stays parked",
		Explanation: "Decides, for every schedule at once, structural necessary conditions of the message pipeline from the type-checked SSA of /repo. " +
			"(D1) no silent drop: in the consumer loop (the loop around SimpleQueue.WaitForItem) every path from a received item to the next iteration passes an Emit of a *GroupMessageEvent, a PriorityQueue.Add (park) or a SimpleQueue.Add (re-queue) of that item, the only excused path being the nil result of the per-sender cache lookup when that lookup returns nil only after crypto.UnmarshalEd25519PublicKey failed; no return is reachable once an item was received (except on a cancelled context); the store-event subscriber hands the entry of EventWrite and every element of EventReplicated.Entries (no narrowing slice, no break, no skip) to the enqueue function, whose success returns all pass SimpleQueue.Add. " +
			"(D2) every call of SecretStore.RegisterChainKey outside the secret store is followed, on every path from its nil-error side to the function exit or the next loop iteration, by a call of the release function with Raw() of the very key that was registered (the error side of Raw() is excused). " +
			"(D3) park/flag atomicity: the key-known flag is written by the release function under a lock K (and the drain follows that write or runs under K); a park that is decided on a read of the flag (or of IsChainKeyKnownForDevice) saying 'unknown' is performed with K held continuously since that read, or is followed on every path by a call of the release function; otherwise a registration can run between read and park, find the device queue empty, and the item stays parked; likewise every other write of the flag (the initial value of a device cache that is created and published) is computed from a key-knowledge read made with K held and K stays held from that read to the write and to the publication of the new cache (a constant 'unknown' is a violation, a constant 'known' is harmless), otherwise a registration running in between finds no cache and the cache is born saying 'unknown' for good. " +
			"(D4) the release function drains the device queue completely (NextAll, or Next inside a loop): one Next() outside any loop hands over only the lowest counter, which is exactly the message sealed before the announcement and never opens. " +
			"(D5) after a successful open the consumer drains the device queue completely before the next iteration, and every item popped from a device queue (Next, NextAll callback) is put on the main queue on every path, the callback never returning an error (NextAll stops and the popped item is lost). " +
			"D1 counts PriorityQueue.Add / SimpleQueue.Add as dispositions on the strength of C15 (D1/D4/D6: Add makes the item visible unconditionally, e.g. never returns without heap.Push); a queue that skips items is reported there, not here. " +
			"Not decided: delivery under all interleavings as such (only the lock-set and path conditions above), 'not more than once per arrival', quiescence, the wake-up of WaitForItem (C15), that parked messages which fail to open for a transient reason are retried without a later message of the same sender, and that callees never release a lock acquired by their caller.",
		Trusted:     []string{"go/ssa (x/tools v0.29.0), go/types", "sync.RWMutex semantics", "lock identity by owner type + field (one cache mutex per message store)", "queue.PriorityQueue / queue.SimpleQueue behave as C15 decides"},
		Assumptions: []string{"the release function and RegisterChainKey are only reached through the module call sites analysed here", "a function does not release a lock that its caller acquired"},
		Floors:      map[string]int{"D1": 4, "D2": 2, "D3": 4, "D4": 1, "D5": 2},
		Borrows: []Borrow{
			{From: "C15", Rules: []string{"D1", "D2", "D3", "D4", "D5", "D6"}, Why: "the consumer loop is fed by the FIFO queue and the per-device priority queues (both anchors of this property): an item lost, duplicated or left behind a lost wake-up is a message not delivered, or delivered twice; D4/D5 rely on NextAll handing over every parked item (the queue is empty on a nil return) and Next yielding the lowest counter"},
			{From: "C05", Rules: []string{"D4"}, Why: "a chain-key announcement releases the parked messages only if the group context sees it: activation must subscribe to metadata events before it lists the past ones, else an announcement arriving in between is seen by neither path and that sender's messages stay parked (group_context.go is an anchor of this property)"},
			{From: "C09", Rules: []string{"D8"}, Why: "the message store hands its own device key to the opener so that reading back its own messages does not advance its sending chain; with another key the sender burns two chain steps per message while receivers slide their window by one, and from the end of the window on every message of that sender stays parked"},
			{From: "C14", Rules: []string{"D1"}, Why: "opening a message's push payload first must not consume its precomputed key: the log entry arriving afterwards would fail to open on every retry and stay parked for good"},
		},
		Run: runC08,
	})
}

// ---------------------------------------------------------------------------
// small helpers

// c08QueueCall: receiver type name and method name when the call is a static call of a method
// of a type of internal/queue (generic instantiations are mapped to their origin).
func c08QueueCall(cc *ssa.CallCommon) (typ, method string) {
	f := staticCallee(cc)
	if f == nil {
		return "", ""
	}
	if o := f.Origin(); o != nil {
		f = o
	}
	if p := fnPkg(f); p == nil || p.Path() != c08PkgQueue {
		return "", ""
	}
	recv := f.Signature.Recv()
	if recv == nil {
		return "", ""
	}
	t := recv.Type()
	if p, ok := t.(*types.Pointer); ok {
		t = p.Elem()
	}
	n, ok := types.Unalias(t).(*types.Named)
	if !ok {
		return "", ""
	}
	return n.Obj().Name(), f.Name()
}

func c08IsQ(ci ssa.CallInstruction, typ string, methods ...string) bool {
	t, m := c08QueueCall(ci.Common())
	if t != typ {
		return false
	}
	for _, x := range methods {
		if x == m {
			return true
		}
	}
	return false
}

func c08IsPark(ci ssa.CallInstruction) bool    { return c08IsQ(ci, "PriorityQueue", "Add") }
func c08IsRequeue(ci ssa.CallInstruction) bool { return c08IsQ(ci, "SimpleQueue", "Add") }
func c08IsPop(ci ssa.CallInstruction) bool     { return c08IsQ(ci, "PriorityQueue", "Next", "NextAll") }

func c08InRoot(fn *ssa.Function) bool {
	p := fnPkg(fn)
	return p != nil && p.Path() == pkgRoot && fn.Blocks != nil
}

func c08Idx(in ssa.Instruction) int {
	for i, x := range in.Block().Instrs {
		if x == in {
			return i
		}
	}
	return -1
}

// c08InLoop: the block of in lies on a CFG cycle.
func c08InLoop(in ssa.Instruction) bool {
	b := in.Block()
	seen := map[*ssa.BasicBlock]bool{}
	stack := append([]*ssa.BasicBlock(nil), b.Succs...)
	for len(stack) > 0 {
		x := stack[len(stack)-1]
		stack = stack[:len(stack)-1]
		if seen[x] {
			continue
		}
		seen[x] = true
		if x == b {
			return true
		}
		stack = append(stack, x.Succs...)
	}
	return false
}

// c08Stops: a set of instructions that end a "silent" path.
type c08Stops map[ssa.Instruction]bool

func (s c08Stops) inBlock(b *ssa.BasicBlock) bool {
	for _, in := range b.Instrs {
		if s[in] {
			return true
		}
	}
	return false
}

// c08Flow returns the blocks that can be entered, starting by taking one of the start edges,
// without executing a stop instruction and without taking a cut edge. A block that contains a
// stop is not part of the result and is not expanded (a block is straight-line code).
func c08Flow(starts []edge, stops c08Stops, cut map[edge]bool) map[*ssa.BasicBlock]bool {
	seen := map[*ssa.BasicBlock]bool{}
	var stack []*ssa.BasicBlock
	push := func(b *ssa.BasicBlock) {
		if seen[b] || stops.inBlock(b) {
			return
		}
		seen[b] = true
		stack = append(stack, b)
	}
	for _, e := range starts {
		if !cut[e] {
			push(e.To)
		}
	}
	for len(stack) > 0 {
		b := stack[len(stack)-1]
		stack = stack[:len(stack)-1]
		for _, s := range b.Succs {
			if !cut[edge{b, s}] {
				push(s)
			}
		}
	}
	return seen
}

// c08FlowAfter: like c08Flow but starting just after instruction in. The second result is
// true when a stop follows in inside its own block (nothing is reachable silently).
func c08FlowAfter(in ssa.Instruction, stops c08Stops, cut map[edge]bool) (map[*ssa.BasicBlock]bool, bool) {
	b := in.Block()
	after := false
	for _, x := range b.Instrs {
		if x == in {
			after = true
			continue
		}
		if after && stops[x] {
			return map[*ssa.BasicBlock]bool{}, true
		}
	}
	var starts []edge
	for _, s := range b.Succs {
		starts = append(starts, edge{b, s})
	}
	return c08Flow(starts, stops, cut), false
}

// c08EntryFlow: blocks reachable silently from the function entry (including the entry).
func c08EntryFlow(fn *ssa.Function, stops c08Stops, cut map[edge]bool) map[*ssa.BasicBlock]bool {
	if len(fn.Blocks) == 0 {
		return nil
	}
	e := fn.Blocks[0]
	if stops.inBlock(e) {
		return map[*ssa.BasicBlock]bool{}
	}
	var starts []edge
	for _, s := range e.Succs {
		starts = append(starts, edge{e, s})
	}
	r := c08Flow(starts, stops, cut)
	r[e] = true
	return r
}

// c08PathAvoiding: some path leads from just after `from` to `to` without executing `avoid`.
func c08PathAvoiding(from, to, avoid ssa.Instruction) bool {
	fb, tb := from.Block(), to.Block()
	fi, ti := c08Idx(from), c08Idx(to)
	ai := -1
	var ab *ssa.BasicBlock
	if avoid != nil {
		ab, ai = avoid.Block(), c08Idx(avoid)
	}
	if fb == tb && fi < ti {
		if !(ab == fb && ai > fi && ai < ti) {
			return true
		}
	}
	if ab == fb && ai > fi {
		return false // avoid is executed before the block is left
	}
	seen := map[*ssa.BasicBlock]bool{}
	stack := append([]*ssa.BasicBlock(nil), fb.Succs...)
	for len(stack) > 0 {
		x := stack[len(stack)-1]
		stack = stack[:len(stack)-1]
		if seen[x] {
			continue
		}
		seen[x] = true
		if x == tb {
			if !(ab == x && ai < ti) {
				return true
			}
		}
		if ab == x {
			continue
		}
		stack = append(stack, x.Succs...)
	}
	return false
}

func c08Line(c *Ctx, in ssa.Instruction) string { return c.pos(posOf(in)) }

// ---------------------------------------------------------------------------

type c08an struct {
	c        *Ctx
	w        *World
	li       *lockInfo
	loops    []*ssa.Function
	release  *ssa.Function
	consumer map[*ssa.Function]bool // root-package functions behind the consumer loops
	relScope map[*ssa.Function]bool // root-package functions behind the release function
	flags    map[*types.Var]bool
	lockCls  []string // candidate classes of K
	lockMode map[string]byte
	gme      types.Type // *protocoltypes.GroupMessageEvent
	memoDisp map[string]bool
	memoRuns map[*ssa.Function][]c08run
	memoKnow map[string]bool
	memoPred map[string]bool
}

// reaches: fn or a root-package function it reaches (depth) contains a call satisfying pred.
func (a *c08an) reaches(fn *ssa.Function, name string, depth int, pred func(ssa.CallInstruction) bool) bool {
	k := name + "|" + fn.String()
	if v, ok := a.memoPred[k]; ok {
		return v
	}
	res := false
	for f := range a.w.reachableFuncs([]*ssa.Function{fn}, depth) {
		if !c08InRoot(f) {
			continue
		}
		for _, b := range f.Blocks {
			for _, in := range b.Instrs {
				if ci, ok := in.(ssa.CallInstruction); ok && pred(ci) {
					res = true
				}
			}
		}
	}
	a.memoPred[k] = res
	return res
}

// c08FullDrainSite: NextAll, or a Next() that belongs to a drain loop: the call lies on a CFG
// cycle that does not pass a WaitForItem call (the consumer's own for-loop does not make a
// single Next() a drain), or its result is merged (phi) with the result of such a call (the
// init statement of `for next := q.Next(); next != nil; next = q.Next()`).
func c08FullDrainSite(ci ssa.CallInstruction) bool {
	if c08IsQ(ci, "PriorityQueue", "NextAll") {
		return true
	}
	if !c08IsQ(ci, "PriorityQueue", "Next") {
		return false
	}
	if c08InDrainCycle(ci.(ssa.Instruction)) {
		return true
	}
	v := ci.Value()
	if v == nil || v.Referrers() == nil {
		return false
	}
	for _, r := range *v.Referrers() {
		ph, ok := r.(*ssa.Phi)
		if !ok {
			continue
		}
		for _, e := range ph.Edges {
			if other, ok := e.(*ssa.Call); ok && other != v && c08IsQ(other, "PriorityQueue", "Next") && c08InDrainCycle(other) {
				return true
			}
		}
	}
	return false
}

func c08BlockWaits(b *ssa.BasicBlock) bool {
	for _, in := range b.Instrs {
		if ci, ok := in.(ssa.CallInstruction); ok && c08IsQ(ci, "SimpleQueue", "WaitForItem") {
			return true
		}
	}
	return false
}

// c08InDrainCycle: the block of in lies on a cycle none of whose blocks calls WaitForItem.
func c08InDrainCycle(in ssa.Instruction) bool {
	b := in.Block()
	if c08BlockWaits(b) {
		return false
	}
	seen := map[*ssa.BasicBlock]bool{}
	stack := append([]*ssa.BasicBlock(nil), b.Succs...)
	for len(stack) > 0 {
		x := stack[len(stack)-1]
		stack = stack[:len(stack)-1]
		if seen[x] || c08BlockWaits(x) {
			continue
		}
		seen[x] = true
		if x == b {
			return true
		}
		stack = append(stack, x.Succs...)
	}
	return false
}

func (a *c08an) rootCallee(ci ssa.CallInstruction) *ssa.Function {
	f := staticCallee(ci.Common())
	if f == nil || !c08InRoot(f) {
		return nil
	}
	return f
}

// ---------- dispositions (D1, D5) ----------

func (a *c08an) isGMEEmit(ci ssa.CallInstruction) bool {
	cc := ci.Common()
	if !cc.IsInvoke() || calleeKey(cc) != c08KeyEmit || len(cc.Args) != 1 {
		return false
	}
	mi, ok := cc.Args[0].(*ssa.MakeInterface)
	return ok && a.gme != nil && types.Identical(mi.X.Type(), a.gme)
}

// dispositions: instructions of fn that settle the fate of v (a queue item, or an opened
// event): park, re-queue, group-message emission, or a call of a root-package function that
// does one of these on every path with the corresponding parameter.
func (a *c08an) dispositions(fn *ssa.Function, v ssa.Value, depth int) c08Stops {
	return a.dispositionsM(fn, func(x ssa.Value) bool { return stripConv(x) == v }, depth)
}

// dispositionsM: like dispositions, the item being given by a predicate on SSA values (inside
// a closure the item is a load of the captured variable). A call at which a closure runs
// exactly once (closureRuns) is a disposition when the closure settles the item on every path.
func (a *c08an) dispositionsM(fn *ssa.Function, match func(ssa.Value) bool, depth int) c08Stops {
	out := c08Stops{}
	for _, b := range fn.Blocks {
		for _, in := range b.Instrs {
			ci, ok := in.(ssa.CallInstruction)
			if !ok {
				continue
			}
			if _, isDefer := in.(*ssa.Defer); isDefer {
				continue
			}
			cc := ci.Common()
			switch {
			case c08IsPark(ci) || c08IsRequeue(ci):
				for _, x := range cc.Args[1:] {
					if match(x) {
						out[in] = true
					}
				}
			case a.isGMEEmit(ci):
				out[in] = true
			default:
				f := a.rootCallee(ci)
				if f == nil || depth <= 0 || f == fn {
					continue
				}
				for i, x := range cc.Args {
					if i >= len(f.Params) {
						break
					}
					if match(x) || (a.gme != nil && types.Identical(x.Type(), a.gme)) {
						if a.disposes(f, i, depth-1) {
							out[in] = true
						}
					}
				}
			}
		}
	}
	for _, run := range a.closureRuns(fn) {
		gm := a.itemInClosure(fn, run, match)
		if gm == nil {
			continue
		}
		gstops := a.dispositionsM(run.g, gm, depth)
		if len(gstops) == 0 {
			continue
		}
		all := true
		for pr := range c08ClosureSummary(run.g, gstops, nil) {
			if !pr.disposed {
				all = false
			}
		}
		if all {
			out[run.site] = true
		}
	}
	return out
}

// ---------- closures run exactly once at a call (withLock(func()) idiom) ----------

// c08run: at call site (an instruction of f) closure g runs exactly once before the call
// returns: the call is `func(){..}()`, or a call of a module helper that calls its func
// parameter exactly once on every path and uses it for nothing else.
type c08run struct {
	site *ssa.Call
	mc   *ssa.MakeClosure
	g    *ssa.Function
}

func (a *c08an) closureRuns(f *ssa.Function) []c08run {
	if v, ok := a.memoRuns[f]; ok {
		return v
	}
	var out []c08run
	for _, b := range f.Blocks {
		for _, in := range b.Instrs {
			call, ok := in.(*ssa.Call)
			if !ok {
				continue
			}
			cc := call.Common()
			if mc, ok := cc.Value.(*ssa.MakeClosure); ok && !cc.IsInvoke() {
				if g, ok := mc.Fn.(*ssa.Function); ok && g.Blocks != nil {
					out = append(out, c08run{call, mc, g})
				}
				continue
			}
			h := staticCallee(cc)
			if h == nil || h.Blocks == nil || !inModule(h) {
				continue
			}
			for j, x := range cc.Args {
				mc, ok := x.(*ssa.MakeClosure)
				if !ok || j >= len(h.Params) {
					continue
				}
				g, ok := mc.Fn.(*ssa.Function)
				if !ok || g.Blocks == nil || !c08OnlyUsedBy(mc, call) || !c08CallsParamOnce(h, j) {
					continue
				}
				out = append(out, c08run{call, mc, g})
			}
		}
	}
	a.memoRuns[f] = out
	return out
}

func c08OnlyUsedBy(v ssa.Value, user ssa.Instruction) bool {
	if v.Referrers() == nil {
		return true
	}
	for _, r := range *v.Referrers() {
		if r == user {
			continue
		}
		if _, isDbg := r.(*ssa.DebugRef); isDbg {
			continue
		}
		return false
	}
	return true
}

// c08CallsParamOnce: h uses its func-typed parameter j only to call it, and every path from
// entry to a return passes exactly one such call.
func c08CallsParamOnce(h *ssa.Function, j int) bool {
	p := h.Params[j]
	if _, isSig := p.Type().Underlying().(*types.Signature); !isSig || p.Referrers() == nil {
		return false
	}
	stops := c08Stops{}
	var calls []ssa.Instruction
	for _, r := range *p.Referrers() {
		if c, ok := r.(*ssa.Call); ok && c.Common().Value == ssa.Value(p) {
			stops[c] = true
			calls = append(calls, c)
			continue
		}
		if _, isDbg := r.(*ssa.DebugRef); isDbg {
			continue
		}
		return false
	}
	if len(calls) == 0 {
		return false
	}
	silent := c08EntryFlow(h, stops, nil)
	for _, r := range returnsOf(h) {
		if silent[r.Block()] {
			return false // a path that never runs the closure
		}
	}
	for _, c1 := range calls {
		if c08InLoop(c1) {
			return false
		}
		for _, c2 := range calls {
			if c1 != c2 && instrReaches(c1, c2) {
				return false
			}
		}
	}
	return true
}

// freeVarFor: the free variable of run.g bound to cell (an Alloc of the enclosing function).
func (run c08run) freeVarFor(cell ssa.Value) *ssa.FreeVar {
	for k, bnd := range run.mc.Bindings {
		if bnd == cell && k < len(run.g.FreeVars) {
			return run.g.FreeVars[k]
		}
	}
	return nil
}

// itemInClosure: when the item of fn (values satisfying match) is captured by the closure -
// fn stores it once into a variable cell bound into the closure - the predicate that
// recognises the item inside the closure (a load of that free variable).
func (a *c08an) itemInClosure(fn *ssa.Function, run c08run, match func(ssa.Value) bool) func(ssa.Value) bool {
	for _, bnd := range run.mc.Bindings {
		al, ok := bnd.(*ssa.Alloc)
		if !ok || al.Referrers() == nil {
			continue
		}
		nStores, isItem := 0, false
		for _, r := range *al.Referrers() {
			if st, ok := r.(*ssa.Store); ok && st.Addr == ssa.Value(al) {
				nStores++
				isItem = match(st.Val)
			}
		}
		if nStores != 1 || !isItem {
			continue
		}
		fv := run.freeVarFor(al)
		if fv == nil || c08StoresTo(run.g, fv) > 0 {
			continue
		}
		return func(x ssa.Value) bool {
			ld, ok := stripConv(x).(*ssa.UnOp)
			return ok && ld.Op == token.MUL && ld.X == ssa.Value(fv)
		}
	}
	return nil
}

func c08StoresTo(g *ssa.Function, addr ssa.Value) int {
	n := 0
	for _, b := range g.Blocks {
		for _, in := range b.Instrs {
			if st, ok := in.(*ssa.Store); ok && st.Addr == addr {
				n++
			}
		}
	}
	return n
}

// c08pair: at a return of a closure, whether the item was settled on the way and what the
// closure last wrote into a captured result variable ("init": never written; "true", "false",
// "nil": that constant; "other").
type c08pair struct {
	disposed bool
	val      string
}

// c08ClosureSummary: the (settled, last value written to cell) combinations with which g can
// return, by forward propagation over g's CFG. cell may be nil (then val stays "init").
func c08ClosureSummary(g *ssa.Function, stops c08Stops, cell *ssa.FreeVar) map[c08pair]bool {
	classify := func(v ssa.Value) string {
		if b, ok := constBool(v); ok {
			if b {
				return "true"
			}
			return "false"
		}
		if isNilConst(v) {
			return "nil"
		}
		return "other"
	}
	in := map[*ssa.BasicBlock]map[c08pair]bool{}
	out := map[*ssa.BasicBlock]map[c08pair]bool{}
	if len(g.Blocks) == 0 {
		return nil
	}
	in[g.Blocks[0]] = map[c08pair]bool{{false, "init"}: true}
	work := []*ssa.BasicBlock{g.Blocks[0]}
	for len(work) > 0 {
		b := work[len(work)-1]
		work = work[:len(work)-1]
		cur := map[c08pair]bool{}
		for p := range in[b] {
			cur[p] = true
		}
		for _, instr := range b.Instrs {
			if stops[instr] {
				next := map[c08pair]bool{}
				for p := range cur {
					next[c08pair{true, p.val}] = true
				}
				cur = next
			}
			if st, ok := instr.(*ssa.Store); ok && cell != nil && st.Addr == ssa.Value(cell) {
				next := map[c08pair]bool{}
				for p := range cur {
					next[c08pair{p.disposed, classify(st.Val)}] = true
				}
				cur = next
			}
		}
		out[b] = cur
		for _, s := range b.Succs {
			if in[s] == nil {
				in[s] = map[c08pair]bool{}
			}
			grew := false
			for p := range cur {
				if !in[s][p] {
					in[s][p] = true
					grew = true
				}
			}
			if grew {
				work = append(work, s)
			}
		}
	}
	res := map[c08pair]bool{}
	for _, r := range returnsOf(g) {
		for p := range out[r.Block()] {
			res[p] = true
		}
	}
	return res
}

// closureResult: the value v returned / used in fn is a load of a variable cell of fn that fn
// itself never writes and that is written by a closure run exactly once at a call that
// dominates the load. Returns the run and the closure's free variable for the cell.
func (a *c08an) closureResult(fn *ssa.Function, v ssa.Value, at ssa.Instruction) (c08run, *ssa.FreeVar, bool) {
	ld, ok := stripConv(v).(*ssa.UnOp)
	if !ok || ld.Op != token.MUL {
		return c08run{}, nil, false
	}
	al, ok := ld.X.(*ssa.Alloc)
	if !ok || al.Referrers() == nil {
		return c08run{}, nil, false
	}
	// fn itself writes the variable only with its own content (`return added` with a named
	// result is compiled as load, store back, load)
	for _, r := range *al.Referrers() {
		if st, ok := r.(*ssa.Store); ok && st.Addr == ssa.Value(al) {
			self, ok := st.Val.(*ssa.UnOp)
			if !ok || self.Op != token.MUL || self.X != ssa.Value(al) {
				return c08run{}, nil, false
			}
		}
	}
	var found c08run
	var fv *ssa.FreeVar
	n := 0
	for _, run := range a.closureRuns(fn) {
		if f := run.freeVarFor(al); f != nil {
			if c08StoresTo(run.g, f) == 0 {
				continue // captured but only read
			}
			found, fv = run, f
			n++
		}
	}
	// other closures that capture the cell must not write it
	for _, r := range *al.Referrers() {
		if mc, ok := r.(*ssa.MakeClosure); ok && (n != 1 || mc != found.mc) {
			if g, ok := mc.Fn.(*ssa.Function); ok {
				for k, bnd := range mc.Bindings {
					if bnd == ssa.Value(al) && k < len(g.FreeVars) && c08StoresTo(g, g.FreeVars[k]) > 0 {
						return c08run{}, nil, false
					}
				}
			}
		}
	}
	if n != 1 || !instrDominates(found.site, ld) {
		return c08run{}, nil, false
	}
	_ = at
	return found, fv, true
}

// disposes: every path from the entry of f to a return settles parameter i.
func (a *c08an) disposes(f *ssa.Function, i, depth int) bool {
	k := fmt.Sprintf("%s|%d", f.String(), i)
	if v, ok := a.memoDisp[k]; ok {
		return v
	}
	a.memoDisp[k] = false
	stops := a.dispositions(f, f.Params[i], depth)
	res := len(stops) > 0
	if res {
		// the same excuses as in the loop itself (extracted loop body)
		cut := a.excusedEdges(f, f.Params[i])
		if depth > 0 {
			for e := range a.conditionalDispositionEdges(f, f.Params[i]) {
				cut[e] = true
			}
		}
		silent := c08EntryFlow(f, stops, cut)
		for _, r := range returnsOf(f) {
			if silent[r.Block()] {
				res = false
			}
		}
	}
	a.memoDisp[k] = res
	return res
}

// disposesWhenTrue: f settles parameter i on every path except those returning the constant
// false as result idx ("parked bool" helpers).
func (a *c08an) disposesWhenTrue(f *ssa.Function, i, idx, depth int) bool {
	match := func(x ssa.Value) bool { return stripConv(x) == ssa.Value(f.Params[i]) }
	stops := a.dispositionsM(f, match, depth)
	found := len(stops) > 0
	silent := c08EntryFlow(f, stops, nil)
	for _, r := range returnsOf(f) {
		if !silent[r.Block()] {
			continue
		}
		rr := retResults(r)
		if idx >= len(rr) {
			return false
		}
		if b, ok := constBool(rr[idx]); ok && !b {
			continue
		}
		// the result is written by a closure that ran exactly once at a call on the way
		// (named result captured by the closure given to a withLock helper): the closure
		// must have settled the item whenever it leaves something else than false there
		run, fv, ok := a.closureResult(f, rr[idx], r)
		if !ok {
			return false
		}
		gm := a.itemInClosure(f, run, match)
		if gm == nil {
			return false
		}
		gstops := a.dispositionsM(run.g, gm, depth)
		if len(gstops) == 0 {
			return false
		}
		found = true
		for pr := range c08ClosureSummary(run.g, gstops, fv) {
			if !pr.disposed && pr.val != "false" && pr.val != "init" {
				return false
			}
		}
	}
	return found
}

// conditionalDispositionEdges: accept edges of the bool result of calls f(.., item, ..) where
// f settles the item whenever it returns true.
func (a *c08an) conditionalDispositionEdges(fn *ssa.Function, item ssa.Value) map[edge]bool {
	out := map[edge]bool{}
	for _, b := range fn.Blocks {
		for _, in := range b.Instrs {
			call, ok := in.(*ssa.Call)
			if !ok {
				continue
			}
			f := a.rootCallee(call)
			if f == nil || f == fn {
				continue
			}
			for i, x := range call.Common().Args {
				if stripConv(x) != item || i >= len(f.Params) {
					continue
				}
				for idx := 0; idx < f.Signature.Results().Len(); idx++ {
					if !isBoolType(f.Signature.Results().At(idx).Type()) {
						continue
					}
					rv := resultValue(call, idx)
					if rv == nil || !a.disposesWhenTrue(f, i, idx, 1) {
						continue
					}
					a.c.analysed(f)
					for _, e := range edgesOfVerdict(rv).Accept {
						out[e] = true
					}
					// `cond && f(..)` evaluated as a value: phi [false, result]
					if rv.Referrers() != nil {
						for _, r := range *rv.Referrers() {
							ph, ok := r.(*ssa.Phi)
							if !ok {
								continue
							}
							onlyFalse := true
							for _, e := range ph.Edges {
								if e == rv {
									continue
								}
								if b, ok := constBool(e); !ok || b {
									onlyFalse = false
								}
							}
							if onlyFalse {
								for _, e := range edgesOfVerdict(ph).Accept {
									out[e] = true
								}
							}
						}
					}
				}
			}
		}
	}
	return out
}

// nilOnlyOnUndecodable: f returns a literal nil as result idx, and only on paths dominated by
// the failing side of crypto.UnmarshalEd25519PublicKey.
func (a *c08an) nilOnlyOnUndecodable(f *ssa.Function, idx int) bool {
	rejOf := func(g *ssa.Function) []edge {
		var rej []edge
		for _, ci := range callsIn(g, keyIs(keyUnmEd)) {
			if v := errVerdict(ci); v != nil {
				rej = append(rej, edgesOfVerdict(v).Reject...)
			}
		}
		return rej
	}
	justified := func(rej []edge, blk *ssa.BasicBlock) bool {
		for _, e := range rej {
			if edgeDominates(e, blk) {
				return true
			}
		}
		return false
	}
	rej := rejOf(f)
	n := 0
	for _, r := range returnsOf(f) {
		rr := retResults(r)
		if idx >= len(rr) {
			continue
		}
		if isNilConst(rr[idx]) {
			n++
			if !justified(rej, r.Block()) {
				return false
			}
			continue
		}
		// result variable written by a closure run exactly once on the way: the closure always
		// assigns it, and assigns the literal nil only after the key failed to decode
		run, fv, ok := a.closureResult(f, rr[idx], r)
		if !ok {
			continue
		}
		for pr := range c08ClosureSummary(run.g, nil, fv) {
			if pr.val == "init" {
				return false // the zero value (nil) can come back without any decision
			}
		}
		grej := rejOf(run.g)
		for _, b := range run.g.Blocks {
			for _, in := range b.Instrs {
				if st, ok := in.(*ssa.Store); ok && st.Addr == ssa.Value(fv) && isNilConst(st.Val) {
					n++
					if !justified(grej, b) {
						return false
					}
				}
			}
		}
	}
	return n > 0
}

// excusedEdges: CFG edges of fn on which the per-sender lookup for item returned nil, when
// that lookup returns nil only for an undecodable sender key.
func (a *c08an) excusedEdges(fn *ssa.Function, item ssa.Value) map[edge]bool {
	out := map[edge]bool{}
	for _, b := range fn.Blocks {
		for _, in := range b.Instrs {
			call, ok := in.(*ssa.Call)
			if !ok {
				continue
			}
			f := a.rootCallee(call)
			if f == nil {
				continue
			}
			has := false
			for _, x := range call.Common().Args {
				if x == item {
					has = true
				}
			}
			if !has {
				continue
			}
			for i := 0; i < f.Signature.Results().Len(); i++ {
				if _, isPtr := f.Signature.Results().At(i).Type().Underlying().(*types.Pointer); !isPtr {
					continue
				}
				rv := resultValue(call, i)
				if rv == nil || !a.nilOnlyOnUndecodable(f, i) {
					continue
				}
				a.c.analysed(f)
				for _, e := range edgesOfVerdict(rv).Accept { // pointer verdict: accept = nil
					out[e] = true
				}
			}
		}
	}
	return out
}

// ---------------------------------------------------------------------------

func runC08(c *Ctx) {
	w := c.W
	a := &c08an{c: c, w: w, li: w.locks(), consumer: map[*ssa.Function]bool{}, relScope: map[*ssa.Function]bool{}, flags: map[*types.Var]bool{},
		lockMode: map[string]byte{}, memoDisp: map[string]bool{}, memoRuns: map[*ssa.Function][]c08run{}, memoKnow: map[string]bool{}, memoPred: map[string]bool{}}
	if n := namedType(w, pkgTypes, "GroupMessageEvent"); n != nil {
		a.gme = types.NewPointer(n)
	}
	for _, fn := range w.ModFuncs {
		if !c08InRoot(fn) {
			continue
		}
		if len(callsIn(fn, func(_ string, cc *ssa.CallCommon) bool {
			t, m := c08QueueCall(cc)
			return t == "SimpleQueue" && m == "WaitForItem"
		})) > 0 {
			a.loops = append(a.loops, fn)
		}
	}
	for f := range w.reachableFuncs(a.loops, 5) {
		if c08InRoot(f) {
			a.consumer[f] = true
		}
	}
	a.release = w.lookupMethod(pkgRoot, "MessageStore", c08ReleaseName)
	if a.release != nil && a.release.Blocks == nil {
		a.release = nil
	}
	if a.release != nil {
		for f := range w.reachableFuncs([]*ssa.Function{a.release}, 3) {
			if c08InRoot(f) {
				a.relScope[f] = true
			}
		}
		// role check: it re-reads key knowledge
		if !a.reaches(a.release, "isknown", 3, func(ci ssa.CallInstruction) bool { return calleeKey(ci.Common()) == c08KeyIsKnown }) {
			c.undecided("D3", fnName(a.release), a.release.Pos(), "MessageStore.%s does not read SecretStore.IsChainKeyKnownForDevice: it is not the release function this rule models", c08ReleaseName)
			a.release = nil
		}
	}
	if len(a.loops) == 0 || a.gme == nil {
		c.undecided("D1", "consumer loop", token.NoPos, "no root-package function calls queue.SimpleQueue.WaitForItem (or GroupMessageEvent type missing)")
	}
	if a.release == nil {
		for _, r := range []string{"D2", "D3", "D4"} {
			c.undecided(r, "release function", token.NoPos, "MessageStore.%s not found", c08ReleaseName)
		}
	}
	a.d1Consumer()
	a.d1Feeder()
	if a.release != nil {
		a.d2()
		a.d3()
		a.d4()
	}
	a.d5()
}

// ---------- D1: consumer loop ----------

type c08wait struct {
	fn   *ssa.Function
	call ssa.CallInstruction
	item ssa.Value
	acc  []edge
}

func (a *c08an) waits() []c08wait {
	var out []c08wait
	for _, fn := range a.loops {
		for _, ci := range callsIn(fn, func(_ string, cc *ssa.CallCommon) bool {
			t, m := c08QueueCall(cc)
			return t == "SimpleQueue" && m == "WaitForItem"
		}) {
			wt := c08wait{fn: fn, call: ci, item: resultValue(ci, 0)}
			if okv := resultValue(ci, 1); okv != nil {
				wt.acc = edgesOfVerdict(okv).Accept
			}
			out = append(out, wt)
		}
	}
	return out
}

func (a *c08an) d1Consumer() {
	c := a.c
	for _, wt := range a.waits() {
		fn := wt.fn
		c.analysed(fn)
		construct := fnName(fn) + "+item disposition"
		if wt.item == nil || len(wt.acc) == 0 {
			c.undecided("D1", construct, posOf(wt.call), "the item or the ok result of WaitForItem is not used/tested: consumer loop shape not modelled")
			continue
		}
		head := wt.call.Block()
		stops := a.dispositions(fn, wt.item, 2)
		c.count("consumer_dispositions", len(stops))
		excused := a.excusedEdges(fn, wt.item)
		cut := map[edge]bool{}
		for e := range excused {
			cut[e] = true
		}
		cond := a.conditionalDispositionEdges(fn, wt.item)
		for e := range cond {
			cut[e] = true
		}
		silent := c08Flow(wt.acc, stops, cut)
		bad := ""
		if silent[head] {
			// name the last silent block before the next iteration
			var via []string
			for _, p := range head.Preds {
				if (silent[p] || p == head) && !cut[edge{p, head}] && len(p.Instrs) > 0 && p != head {
					via = append(via, c.pos(posOf(p.Instrs[0])))
				}
			}
			for _, e := range wt.acc {
				if e.To == head {
					via = append(via, "directly")
				}
			}
			sort.Strings(via)
			bad = fmt.Sprintf("an item received from WaitForItem can reach the next iteration without Emit of a *GroupMessageEvent, PriorityQueue.Add or SimpleQueue.Add of it (silent path through %s): the message is dropped", strings.Join(via, ", "))
		}
		// no return once an item was received (the loop would stop delivering for good)
		region := c08Flow(wt.acc, c08Stops{wt.call.(ssa.Instruction): true}, nil) // this iteration only
		var cancelRej []edge
		for _, ci := range callsIn(fn, keyIs(c08KeyCtxErr)) {
			if v := ci.Value(); v != nil {
				cancelRej = append(cancelRej, edgesOfVerdict(v).Reject...)
			}
		}
		for _, r := range returnsOf(fn) {
			if !region[r.Block()] {
				continue
			}
			exempt := false
			for _, e := range cancelRej {
				if edgeDominates(e, r.Block()) {
					exempt = true
				}
			}
			if !exempt && bad == "" {
				bad = fmt.Sprintf("the consumer loop can return (%s) after an item was received although the context is not cancelled: that item and every later message stay undelivered", c.pos(posOf(r)))
			}
		}
		if bad != "" {
			c.fail("D1", construct, posOf(wt.call), "%s", bad)
		} else {
			c.ok("D1", construct, posOf(wt.call), "every path from a received item to the next WaitForItem passes one of %d emit/park/re-queue sites (%d conditional-park edge(s), %d excused nil-sender edge(s)); no return after receipt", len(stops), len(cond), len(excused))
		}
	}
}

// ---------- D1: store-event subscriber and enqueue function ----------

func (a *c08an) isEnqueueCall(ci ssa.CallInstruction) bool {
	if c08IsRequeue(ci) {
		return true
	}
	f := a.rootCallee(ci)
	return f != nil && a.reaches(f, "requeue", 2, c08IsRequeue)
}

func (a *c08an) d1Feeder() {
	c := a.c
	w := a.w
	found := 0
	enq := map[*ssa.Function]bool{}
	for _, fn := range w.ModFuncs {
		if !c08InRoot(fn) {
			continue
		}
		var asserts = map[string][]*ssa.TypeAssert{}
		for _, b := range fn.Blocks {
			for _, in := range b.Instrs {
				if ta, ok := in.(*ssa.TypeAssert); ok {
					for _, n := range []string{"EventWrite", "EventReplicated"} {
						if isNamed(ta.AssertedType, c08PkgStores, n) {
							if _, isPtr := ta.AssertedType.(*types.Pointer); !isPtr {
								asserts[n] = append(asserts[n], ta)
							}
						}
					}
				}
			}
		}
		if len(asserts["EventReplicated"]) == 0 && len(asserts["EventWrite"]) == 0 {
			continue
		}
		if !a.belongsToMessageStore(fn) {
			continue // the subscriber of another store (metadata)
		}
		// candidate enqueue calls: SimpleQueue.Add itself, or a root-package function that
		// receives a log entry
		entryTs := c08EntryTypes(asserts)
		var enqCalls []ssa.CallInstruction
		for _, b := range fn.Blocks {
			for _, in := range b.Instrs {
				ci, ok := in.(ssa.CallInstruction)
				if !ok {
					continue
				}
				if c08IsRequeue(ci) {
					enqCalls = append(enqCalls, ci)
					continue
				}
				if f := a.rootCallee(ci); f != nil {
					for _, x := range ci.Common().Args {
						for _, et := range entryTs {
							if types.Identical(x.Type(), et) {
								enqCalls = append(enqCalls, ci)
							}
						}
					}
				}
			}
		}
		if len(enqCalls) == 0 {
			found++
			c.fail("D1", fnName(fn)+"+enqueue", fn.Pos(), "the store-event subscriber of the message store hands its log entries to no root-package function and to no SimpleQueue.Add: nothing is ever processed")
			continue
		}
		found++
		c.analysed(fn)
		for _, ci := range enqCalls {
			if f := a.rootCallee(ci); f != nil {
				enq[f] = true
			}
		}
		for _, kind := range []string{"EventWrite", "EventReplicated"} {
			construct := fnName(fn) + "+" + kind
			tas := asserts[kind]
			if len(tas) == 0 {
				c.fail("D1", construct, fn.Pos(), "the store-event subscriber that feeds the message queue does not handle stores.%s: those entries are never queued", kind)
				continue
			}
			for _, ta := range tas {
				a.feederKind(fn, ta, kind, construct, enqCalls)
			}
		}
	}
	if found == 0 {
		c.undecided("D1", "store-event subscriber", token.NoPos, "no root-package function asserts stores.EventWrite/EventReplicated and feeds queue.SimpleQueue.Add")
	}
	// enqueue functions: every success return passes SimpleQueue.Add
	fs := make([]*ssa.Function, 0, len(enq))
	for f := range enq {
		fs = append(fs, f)
	}
	sort.Slice(fs, func(i, j int) bool { return fs[i].String() < fs[j].String() })
	for _, f := range fs {
		c.analysed(f)
		stops := c08Stops{}
		for _, b := range f.Blocks {
			for _, in := range b.Instrs {
				if ci, ok := in.(ssa.CallInstruction); ok && a.isEnqueueCall(ci) {
					if _, isDefer := in.(*ssa.Defer); !isDefer {
						stops[in] = true
					}
				}
			}
		}
		silent := c08EntryFlow(f, stops, nil)
		var bad []*ssa.Return
		for _, r := range returnsOf(f) {
			if silent[r.Block()] && isSuccessReturn(r) {
				bad = append(bad, r)
			}
		}
		c.check(len(bad) == 0, "D1", fnName(f)+"+SimpleQueue.Add", f.Pos(), "every success return passes SimpleQueue.Add",
			"returns success ("+describeReturns(c, bad)+") without putting the entry on the message queue: the message is never processed")
	}
}

// belongsToMessageStore: fn is created by (is an anonymous function of) a function that also
// starts a consumer loop, or itself reaches SimpleQueue.Add.
func (a *c08an) belongsToMessageStore(fn *ssa.Function) bool {
	for anc := fn.Parent(); anc != nil; anc = anc.Parent() {
		for f := range a.w.reachableFuncs([]*ssa.Function{anc}, 2) {
			if a.isLoopFn(f) {
				return true
			}
		}
	}
	return a.reaches(fn, "requeue3", 3, c08IsRequeue)
}

// c08EntryTypes: the types of EventWrite.Entry and of the elements of EventReplicated.Entries.
func c08EntryTypes(asserts map[string][]*ssa.TypeAssert) []types.Type {
	var out []types.Type
	for kind, tas := range asserts {
		for _, ta := range tas {
			st, ok := ta.AssertedType.Underlying().(*types.Struct)
			if !ok {
				continue
			}
			for i := 0; i < st.NumFields(); i++ {
				f := st.Field(i)
				if sl, ok := f.Type().(*types.Slice); ok && kind == "EventReplicated" && f.Name() == "Entries" {
					out = append(out, sl.Elem())
				} else if kind == "EventWrite" && f.Name() == "Entry" {
					out = append(out, f.Type())
				}
			}
		}
	}
	return out
}

// feederKind checks one type-switch arm of the subscriber.
func (a *c08an) feederKind(fn *ssa.Function, ta *ssa.TypeAssert, kind, construct string, enqCalls []ssa.CallInstruction) {
	c := a.c
	var seed ssa.Value = ta
	if ta.CommaOk {
		ex := extractsOf(ta, 0)
		if len(ex) == 0 {
			c.fail("D1", construct, ta.Pos(), "the asserted stores.%s value is discarded: its entries are never queued", kind)
			return
		}
		seed = ex[0]
	}
	var entryT types.Type
	if st, ok := ta.AssertedType.Underlying().(*types.Struct); ok {
		for i := 0; i < st.NumFields(); i++ {
			switch ft := st.Field(i).Type().(type) {
			case *types.Slice:
				if kind == "EventReplicated" && st.Field(i).Name() == "Entries" {
					entryT = ft.Elem()
				}
			default:
				if kind == "EventWrite" && st.Field(i).Name() == "Entry" {
					entryT = ft
				}
			}
		}
	}
	if entryT == nil {
		c.undecided("D1", construct, ta.Pos(), "stores.%s has no Entry/Entries field of the expected shape", kind)
		return
	}
	taint := taintFrom(fn, seed)
	// the entry-typed argument of an enqueue call that carries the event's data
	var hit ssa.CallInstruction
	var hitArg ssa.Value
	for _, ci := range enqCalls {
		for _, x := range ci.Common().Args {
			if taint[x] && types.Identical(x.Type(), entryT) {
				hit, hitArg = ci, x
			}
		}
	}
	if hit == nil {
		c.fail("D1", construct, ta.Pos(), "no entry of stores.%s reaches the enqueue call: these log entries are never processed", kind)
		return
	}
	if kind == "EventWrite" {
		c.ok("D1", construct, posOf(hit), "the written entry reaches the enqueue call")
		return
	}
	// EventReplicated: all elements. (1) no narrowing slice of the entries
	for v := range taint {
		sl, ok := v.(*ssa.Slice)
		if !ok || (sl.Low == nil && sl.High == nil) {
			continue
		}
		if st, ok := sl.Type().Underlying().(*types.Slice); ok && types.Identical(st.Elem(), entryT) {
			c.fail("D1", construct, sl.Pos(), "the replicated entries are narrowed by a slice expression before the loop: only part of a batch is queued")
			return
		}
	}
	// (2) the argument is an element loaded at a loop-varying index
	ld, _ := hitArg.(*ssa.UnOp)
	var ia *ssa.IndexAddr
	if ld != nil && ld.Op == token.MUL {
		ia, _ = ld.X.(*ssa.IndexAddr)
	}
	if ia == nil {
		c.undecided("D1", construct, posOf(hit), "the queued entry is not an element read of the replicated batch (shape not modelled)")
		return
	}
	if _, isConst := ia.Index.(*ssa.Const); isConst || !c08InLoop(ia) {
		c.fail("D1", construct, ia.Pos(), "only one element of EventReplicated.Entries is queued (constant index or no loop): the rest of the batch is never processed")
		return
	}
	// (3) the innermost loop around the element read: header/test block T tests the index;
	// loop = blocks dominated by T that reach T; the only exit is T's own
	body := ia.Block()
	isIndexTest := func(b *ssa.BasicBlock) bool {
		if len(b.Instrs) == 0 {
			return false
		}
		iff, ok := b.Instrs[len(b.Instrs)-1].(*ssa.If)
		if !ok {
			return false
		}
		bo, ok := iff.Cond.(*ssa.BinOp)
		if !ok {
			return false
		}
		isLen := func(x ssa.Value) bool {
			call, ok := x.(*ssa.Call)
			if !ok {
				return false
			}
			bi, ok := call.Common().Value.(*ssa.Builtin)
			return ok && bi.Name() == "len"
		}
		return (bo.X == ia.Index && isLen(bo.Y)) || (bo.Y == ia.Index && isLen(bo.X))
	}
	fromBody := reach(body, nil)
	var test *ssa.BasicBlock
	for _, b := range fn.Blocks {
		if isIndexTest(b) && b.Dominates(body) && fromBody[b] {
			if test == nil || test.Dominates(b) {
				test = b
			}
		}
	}
	if test == nil {
		c.undecided("D1", construct, ia.Pos(), "the index test of the loop over EventReplicated.Entries was not recognised")
		return
	}
	inLoopBlk := map[*ssa.BasicBlock]bool{}
	for _, b := range fn.Blocks {
		if test.Dominates(b) && reach(b, nil)[test] {
			inLoopBlk[b] = true
		}
	}
	for _, b := range fn.Blocks {
		if !inLoopBlk[b] || b == test {
			continue
		}
		for _, s := range b.Succs {
			if inLoopBlk[s] {
				continue
			}
			// leaving the loop from the body: a plain return is tolerated (shutdown), anything else is a break
			if len(s.Instrs) > 0 && len(s.Instrs) <= 2 {
				if _, isRet := s.Instrs[len(s.Instrs)-1].(*ssa.Return); isRet {
					continue
				}
			}
			c.fail("D1", construct, posOf(b.Instrs[len(b.Instrs)-1]), "the loop over EventReplicated.Entries can be left before the last element (break): the rest of the batch is never processed")
			return
		}
	}
	// (4) no skip: from the element read to the index test every path passes the enqueue call
	stops := c08Stops{}
	for _, ci := range enqCalls {
		for _, x := range ci.Common().Args {
			if x == hitArg {
				stops[ci.(ssa.Instruction)] = true
			}
		}
	}
	cut := map[edge]bool{}
	for _, e := range edgesOfVerdict(hitArg).Accept { // entry == nil
		cut[e] = true
	}
	silent, stopped := c08FlowAfter(ia, stops, cut)
	if !stopped && silent[test] {
		c.fail("D1", construct, ia.Pos(), "an element of EventReplicated.Entries can reach the next iteration without being handed to the enqueue call (skipped)")
		return
	}
	c.ok("D1", construct, posOf(hit), "every element of the replicated batch reaches the enqueue call (loop with index test only exit, no narrowing slice, no skip)")
}

// ---------- D2: release after registration ----------

func c08PubKeyArg(cc *ssa.CallCommon) ssa.Value {
	sig := cc.Signature()
	for i := 0; i < sig.Params().Len() && i < len(cc.Args); i++ {
		if isNamed(sig.Params().At(i).Type(), "github.com/libp2p/go-libp2p/core/crypto", "PubKey") {
			return cc.Args[i]
		}
	}
	return nil
}

// rawOf: v is result 0 of Raw() invoked on pk; returns the call.
func c08RawOf(v ssa.Value, pk ssa.Value) *ssa.Call {
	ex, ok := v.(*ssa.Extract)
	if !ok || ex.Index != 0 {
		return nil
	}
	call, ok := ex.Tuple.(*ssa.Call)
	if !ok || !call.Common().IsInvoke() || call.Common().Method.Name() != "Raw" {
		return nil
	}
	if stripConv(call.Common().Value) != stripConv(pk) {
		return nil
	}
	return call
}

// releaseStops: calls in fn that run the release function for the raw bytes of pk (directly,
// through go, or through a root-package helper that always does so with the corresponding
// parameter), plus the error edges of the Raw() calls involved.
func (a *c08an) releaseStops(fn *ssa.Function, pk ssa.Value, depth int) (c08Stops, map[edge]bool, []string) {
	stops := c08Stops{}
	cut := map[edge]bool{}
	var wrong []string
	for _, b := range fn.Blocks {
		for _, in := range b.Instrs {
			ci, ok := in.(ssa.CallInstruction)
			if !ok {
				continue
			}
			if _, isDefer := in.(*ssa.Defer); isDefer {
				continue
			}
			cc := ci.Common()
			f := staticCallee(cc)
			if f == nil {
				continue
			}
			if f == a.release {
				var bytesArg ssa.Value
				for i, p := range f.Params {
					if sl, ok := p.Type().Underlying().(*types.Slice); ok && i < len(cc.Args) {
						if bt, ok := sl.Elem().Underlying().(*types.Basic); ok && bt.Kind() == types.Byte {
							bytesArg = cc.Args[i]
						}
					}
				}
				if raw := c08RawOf(bytesArg, pk); raw != nil {
					stops[in] = true
					if ev := errVerdict(raw); ev != nil {
						for _, e := range edgesOfVerdict(ev).Reject {
							cut[e] = true
						}
					}
				} else {
					wrong = append(wrong, a.c.pos(posOf(in)))
				}
				continue
			}
			if depth > 0 && c08InRoot(f) && f != fn {
				for i, x := range cc.Args {
					if i < len(f.Params) && stripConv(x) == stripConv(pk) && a.alwaysReleases(f, i, depth-1) {
						stops[in] = true
					}
				}
			}
		}
	}
	// Raw() of pk computed elsewhere in fn (before the registration): its error edges are excused too
	for _, b := range fn.Blocks {
		for _, in := range b.Instrs {
			if call, ok := in.(*ssa.Call); ok && call.Common().IsInvoke() && call.Common().Method.Name() == "Raw" && stripConv(call.Common().Value) == stripConv(pk) {
				if ev := errVerdict(call); ev != nil {
					for _, e := range edgesOfVerdict(ev).Reject {
						cut[e] = true
					}
				}
			}
		}
	}
	return stops, cut, wrong
}

func (a *c08an) alwaysReleases(f *ssa.Function, i, depth int) bool {
	stops, cut, _ := a.releaseStops(f, f.Params[i], depth)
	if len(stops) == 0 {
		return false
	}
	silent := c08EntryFlow(f, stops, cut)
	for _, r := range returnsOf(f) {
		if silent[r.Block()] {
			return false
		}
	}
	return true
}

func (a *c08an) d2() {
	c := a.c
	n := 0
	for _, fn := range a.w.ModFuncs {
		p := fnPkg(fn)
		if p == nil || p.Path() == pkgSecret || !inModule(fn) {
			continue
		}
		sites := callsIn(fn, keyIs(c08KeyRegister))
		for i, ci := range sites {
			n++
			c.analysed(fn)
			construct := fnName(fn) + "+RegisterChainKey"
			if len(sites) > 1 {
				construct = fmt.Sprintf("%s#%d", construct, i+1)
			}
			if _, isCall := ci.(*ssa.Call); !isCall {
				c.fail("D2", construct, posOf(ci), "RegisterChainKey is started with go/defer: the release of parked messages cannot be ordered after it")
				continue
			}
			pk := c08PubKeyArg(ci.Common())
			if pk == nil {
				c.undecided("D2", construct, posOf(ci), "no crypto.PubKey argument found at the RegisterChainKey call")
				continue
			}
			stops, cut, wrong := a.releaseStops(fn, pk, 2)
			var silent map[*ssa.BasicBlock]bool
			stopped := false
			if ev := errVerdict(ci); ev != nil && len(edgesOfVerdict(ev).Accept) > 0 {
				silent = c08Flow(edgesOfVerdict(ev).Accept, stops, cut)
			} else {
				silent, stopped = c08FlowAfter(ci.(ssa.Instruction), stops, cut)
			}
			bad := ""
			if !stopped {
				for _, r := range returnsOf(fn) {
					if silent[r.Block()] && bad == "" {
						bad = "the function can return (" + c.pos(posOf(r)) + ")"
					}
				}
				if silent[ci.Block()] && bad == "" {
					bad = "the next loop iteration can start"
				}
			}
			if bad != "" {
				msg := fmt.Sprintf("after a successful RegisterChainKey %s without %s having been called for Raw() of the registered device key: messages of that sender parked so far are not released", bad, c08ReleaseName)
				if len(wrong) > 0 {
					msg += fmt.Sprintf(" (the call at %s passes other bytes than Raw() of the registered key)", strings.Join(wrong, ", "))
				}
				c.fail("D2", construct, posOf(ci), "%s", msg)
			} else {
				c.ok("D2", construct, posOf(ci), "every path from the nil-error side reaches %s(Raw() of the registered key) (%d release site(s))", c08ReleaseName, len(stops))
			}
		}
	}
	if n == 0 {
		c.undecided("D2", "RegisterChainKey", token.NoPos, "no call of SecretStore.RegisterChainKey outside the secret store")
	}
}

// ---------- D3: park / flag atomicity ----------

func (a *c08an) isKnownCall(v ssa.Value) bool {
	call, ok := v.(*ssa.Call)
	return ok && calleeKey(call.Common()) == c08KeyIsKnown
}

// fromKnownCall: v is (a phi / local copy of) the result of IsChainKeyKnownForDevice.
func (a *c08an) fromKnownCall(v ssa.Value, depth int) bool {
	if depth > 5 {
		return false
	}
	switch x := v.(type) {
	case *ssa.Call:
		return a.isKnownCall(x)
	case *ssa.Phi:
		any := false
		for _, e := range x.Edges {
			if _, isC := e.(*ssa.Const); isC {
				continue
			}
			if !a.fromKnownCall(e, depth+1) {
				return false
			}
			any = true
		}
		return any
	case *ssa.UnOp:
		if x.Op == token.MUL {
			if al, ok := x.X.(*ssa.Alloc); ok && al.Referrers() != nil {
				any := false
				for _, r := range *al.Referrers() {
					if st, ok := r.(*ssa.Store); ok && st.Addr == ssa.Value(al) {
						if _, isC := st.Val.(*ssa.Const); isC {
							continue
						}
						if !a.fromKnownCall(st.Val, depth+1) {
							return false
						}
						any = true
					}
				}
				return any
			}
		}
	}
	return false
}

func c08FieldVar(fa *ssa.FieldAddr) *types.Var {
	pt, ok := fa.X.Type().Underlying().(*types.Pointer)
	if !ok {
		return nil
	}
	st, ok := pt.Elem().Underlying().(*types.Struct)
	if !ok {
		return nil
	}
	return st.Field(fa.Field)
}

// knownReads: when v carries key knowledge (true = chain key known), the instructions of v's
// function at which that knowledge was read: a load of the flag, a call of
// IsChainKeyKnownForDevice, or a call of a root-package function returning such a value.
func (a *c08an) knownReads(v ssa.Value, depth int) []ssa.Instruction {
	if depth > 6 || v == nil {
		return nil
	}
	switch x := v.(type) {
	case *ssa.UnOp:
		if x.Op != token.MUL {
			return nil
		}
		if fa, ok := x.X.(*ssa.FieldAddr); ok {
			if fv := c08FieldVar(fa); fv != nil && a.flags[fv] {
				return []ssa.Instruction{x}
			}
			return nil
		}
		if al, ok := x.X.(*ssa.Alloc); ok && al.Referrers() != nil {
			// a variable written by a closure that ran exactly once at a dominating call
			// (withLock(func(){ known = device.flag })): the read happened at that call
			if run, fv, ok := a.closureResult(x.Parent(), x, x); ok {
				any := false
				for _, b := range run.g.Blocks {
					for _, in := range b.Instrs {
						st, ok := in.(*ssa.Store)
						if !ok || st.Addr != ssa.Value(fv) {
							continue
						}
						if _, isC := st.Val.(*ssa.Const); isC {
							continue
						}
						if len(a.knownReads(st.Val, depth+1)) == 0 {
							return nil
						}
						any = true
					}
				}
				if any {
					return []ssa.Instruction{run.site}
				}
				return nil
			}
			var out []ssa.Instruction
			for _, r := range *al.Referrers() {
				if st, ok := r.(*ssa.Store); ok && st.Addr == ssa.Value(al) {
					if _, isC := st.Val.(*ssa.Const); isC {
						continue
					}
					sub := a.knownReads(st.Val, depth+1)
					if len(sub) == 0 {
						return nil
					}
					out = append(out, sub...)
				}
			}
			return out
		}
	case *ssa.Field:
		// value-typed struct copy: x.X.f
		if st, ok := x.X.Type().Underlying().(*types.Struct); ok && a.flags[st.Field(x.Field)] {
			return []ssa.Instruction{x}
		}
	case *ssa.Call:
		if a.isKnownCall(x) {
			return []ssa.Instruction{x}
		}
		if f := a.rootCallee(x); f != nil && f.Signature.Results().Len() == 1 && a.resultIsKnowledge(f, 0, depth+1) {
			return []ssa.Instruction{x}
		}
	case *ssa.Extract:
		if call, ok := x.Tuple.(*ssa.Call); ok {
			if f := a.rootCallee(call); f != nil && a.resultIsKnowledge(f, x.Index, depth+1) {
				return []ssa.Instruction{call}
			}
		}
	case *ssa.Phi:
		var out []ssa.Instruction
		for _, e := range x.Edges {
			if _, isC := e.(*ssa.Const); isC {
				continue
			}
			sub := a.knownReads(e, depth+1)
			if len(sub) == 0 {
				return nil
			}
			out = append(out, sub...)
		}
		return out
	}
	return nil
}

func (a *c08an) resultIsKnowledge(f *ssa.Function, idx, depth int) bool {
	if idx >= f.Signature.Results().Len() || !isBoolType(f.Signature.Results().At(idx).Type()) {
		return false
	}
	k := fmt.Sprintf("%s|%d", f.String(), idx)
	if v, ok := a.memoKnow[k]; ok {
		return v
	}
	a.memoKnow[k] = false
	any := false
	for _, r := range returnsOf(f) {
		rr := retResults(r)
		if idx >= len(rr) {
			return false
		}
		if _, isC := rr[idx].(*ssa.Const); isC {
			continue
		}
		if len(a.knownReads(rr[idx], depth+1)) == 0 {
			return false
		}
		any = true
	}
	a.memoKnow[k] = any
	return any
}

type c08gov struct {
	v     ssa.Value
	reads []ssa.Instruction
}

// governing: the knowledge values of fn whose 'unknown' (false) side dominates blk.
func (a *c08an) governing(fn *ssa.Function, blk *ssa.BasicBlock) []c08gov {
	var out []c08gov
	for _, b := range fn.Blocks {
		for _, in := range b.Instrs {
			v, ok := in.(ssa.Value)
			if !ok || !isBoolType(v.Type()) {
				continue
			}
			reads := a.knownReads(v, 0)
			if len(reads) == 0 {
				continue
			}
			for _, e := range edgesOfVerdict(v).Reject {
				if edgeDominates(e, blk) {
					out = append(out, c08gov{v, reads})
					break
				}
			}
		}
	}
	return out
}

func (a *c08an) holdsK(in ssa.Instruction) (string, bool) {
	held := a.li.heldAt(in)
	for _, cls := range a.lockCls {
		if held[cls+"/W"] {
			return cls, true
		}
		if held[cls+"/R"] && a.lockMode[cls] == 'W' {
			return cls, true
		}
	}
	return "", false
}

// atomic: K is held at read d and at site p and is not released on any path from d to p.
func (a *c08an) atomic(d, p ssa.Instruction) bool {
	if d.Parent() != p.Parent() {
		return false
	}
	cd, ok1 := a.holdsK(d)
	cp, ok2 := a.holdsK(p)
	if !ok1 || !ok2 || cd != cp {
		return false
	}
	if !(d == p || instrReaches(d, p)) {
		return false
	}
	for _, b := range d.Parent().Blocks {
		for _, in := range b.Instrs {
			ci, ok := in.(ssa.CallInstruction)
			if !ok {
				continue
			}
			op, ok := lockOpOf(ci)
			if !ok || op.Acquire || op.Deferred || op.Class != cd {
				continue
			}
			if instrReaches(d, in) && c08PathAvoiding(in, p, d) {
				return false
			}
		}
	}
	return true
}

// releaseLike: f is the release function or a root-package function that writes the flag and pops.
func (a *c08an) releaseLike(f *ssa.Function) bool {
	if f == nil {
		return false
	}
	if f == a.release {
		return true
	}
	if !c08InRoot(f) {
		return false
	}
	return a.reaches(f, "callsrelease", 2, func(ci ssa.CallInstruction) bool { return staticCallee(ci.Common()) == a.release })
}

// recheckedAfter: every path from site to a return of its function or back to the site
// passes a call of the release function (park, then re-check under the lock).
func (a *c08an) recheckedAfter(site ssa.Instruction) bool {
	fn := site.Parent()
	stops := c08Stops{}
	for _, b := range fn.Blocks {
		for _, in := range b.Instrs {
			if call, ok := in.(*ssa.Call); ok && a.releaseLike(staticCallee(call.Common())) {
				stops[in] = true
			}
		}
	}
	if len(stops) == 0 {
		return false
	}
	silent, stopped := c08FlowAfter(site, stops, nil)
	if stopped {
		return true
	}
	if silent[site.Block()] {
		return false
	}
	for _, r := range returnsOf(fn) {
		if silent[r.Block()] {
			return false
		}
	}
	// a consumer loop never returns: the next WaitForItem counts as the end of the iteration
	for _, wt := range a.waits() {
		if wt.fn == fn && silent[wt.call.Block()] {
			return false
		}
	}
	return true
}

func (a *c08an) d3() {
	c := a.c
	rel := a.release
	// ---- release side: the flag, its lock, the drain
	type fstore struct {
		st   *ssa.Store
		held lockSet
	}
	var stores []fstore
	var pops []ssa.CallInstruction
	scope := make([]*ssa.Function, 0, len(a.relScope))
	for f := range a.relScope {
		scope = append(scope, f)
	}
	sort.Slice(scope, func(i, j int) bool { return scope[i].String() < scope[j].String() })
	for _, f := range scope {
		c.analysed(f)
		for _, b := range f.Blocks {
			for _, in := range b.Instrs {
				switch x := in.(type) {
				case *ssa.Store:
					fa, ok := x.Addr.(*ssa.FieldAddr)
					if !ok || !isBoolType(x.Val.Type()) || !a.fromKnownCall(x.Val, 0) {
						continue
					}
					if fv := c08FieldVar(fa); fv != nil {
						a.flags[fv] = true
						stores = append(stores, fstore{x, a.li.heldAt(x)})
					}
				case ssa.CallInstruction:
					if c08IsPop(x) {
						pops = append(pops, x)
					}
				}
			}
		}
	}
	relConstruct := fnName(rel) + "+key-known flag"
	if len(stores) == 0 {
		c.undecided("D3", relConstruct, rel.Pos(), "the release function does not store the result of IsChainKeyKnownForDevice into a struct field: the park/release protocol is not the one this rule models")
		return
	}
	var common lockSet
	for i, s := range stores {
		if i == 0 {
			common = s.held.clone()
		} else {
			common = intersect(common, s.held)
		}
	}
	var flagNames []string
	for fv := range a.flags {
		flagNames = append(flagNames, fv.Name())
	}
	sort.Strings(flagNames)
	for _, k := range common.list() {
		cls, mode := k[:len(k)-2], k[len(k)-1]
		if prev, ok := a.lockMode[cls]; !ok || (prev == 'R' && mode == 'W') {
			if !ok {
				a.lockCls = append(a.lockCls, cls)
			}
			a.lockMode[cls] = mode
		}
	}
	if len(a.lockCls) == 0 {
		c.fail("D3", relConstruct, stores[0].st.Pos(), "the key-known flag (%s) is written by the release function with no lock held: no park decided on that flag can be made atomic with the release", strings.Join(flagNames, ","))
	} else {
		bad := ""
		var covered func(in ssa.Instruction, depth int) bool
		covered = func(in ssa.Instruction, depth int) bool {
			if _, ok := a.holdsK(in); ok {
				return true
			}
			for _, s := range stores {
				if s.st.Parent() == in.Parent() && instrDominates(s.st, in) {
					return true
				}
			}
			// a shared helper: judged at its call sites behind the release function
			f := in.Parent()
			if f == rel || depth >= 3 {
				return false
			}
			n := 0
			for _, cs := range a.w.callGraph().callers[f] {
				if !a.relScope[cs.Caller] || cs.Caller == f {
					continue
				}
				n++
				if !covered(cs.Instr.(ssa.Instruction), depth+1) {
					return false
				}
			}
			return n > 0
		}
		for _, p := range pops {
			if !covered(p.(ssa.Instruction), 0) {
				bad = fmt.Sprintf("the drain at %s runs without %s and is not preceded by the flag write: a message parked under the lock after the drain but before the flag write is never released", c08Line(c, p.(ssa.Instruction)), a.lockCls[0])
			}
		}
		if bad != "" {
			c.fail("D3", relConstruct, stores[0].st.Pos(), "%s", bad)
		} else {
			c.ok("D3", relConstruct, stores[0].st.Pos(), "flag %s written under %s/%c; %d drain site(s) under it or after the write", strings.Join(flagNames, ","), a.lockCls[0], a.lockMode[a.lockCls[0]], len(pops))
		}
	}
	// ---- consumer side: every park site
	type verdict struct {
		pos token.Pos
		ok  bool
		msg string
	}
	results := map[string]verdict{}
	var order []string
	record := func(fn *ssa.Function, tag string, in ssa.Instruction, ok bool, msg string) {
		base := fnName(fn) + "+park[" + tag + "]"
		key := base
		for i := 2; ; i++ {
			prev, exists := results[key]
			if !exists || prev.pos == posOf(in) {
				break
			}
			key = fmt.Sprintf("%s#%d", base, i)
		}
		if _, exists := results[key]; !exists {
			order = append(order, key)
		}
		results[key] = verdict{pos: posOf(in), ok: ok, msg: msg}
	}
	var eval func(site ssa.Instruction, what string, depth int, seen map[*ssa.Function]bool)
	eval = func(site ssa.Instruction, what string, depth int, seen map[*ssa.Function]bool) {
		fn := site.Parent()
		c.analysed(fn)
		govs := a.governing(fn, site.Block())
		if len(govs) > 0 {
			var where []string
			for _, g := range govs {
				for _, d := range g.reads {
					if len(a.lockCls) > 0 && a.atomic(d, site) {
						cls, _ := a.holdsK(site)
						record(fn, "key unknown", site, true, fmt.Sprintf("%s is decided on the key-knowledge read at %s and performed with %s held since that read", what, c08Line(c, d), cls))
						return
					}
					where = append(where, c08Line(c, d))
				}
			}
			if a.recheckedAfter(site) {
				record(fn, "key unknown", site, true, fmt.Sprintf("%s is followed on every path by a call of %s (park, then re-check)", what, c08ReleaseName))
				return
			}
			lock := "the lock under which the release function writes the flag"
			if len(a.lockCls) > 0 {
				lock = a.lockCls[0]
			}
			sort.Strings(where)
			record(fn, "key unknown", site, false, fmt.Sprintf("%s is decided on a key-knowledge read (%s) saying 'chain key unknown' but is performed without %s held continuously since that read, and no call of %s follows: %s can run in between (after RegisterChainKey), find the device queue empty and set the flag; the message parked afterwards is released by nothing", what, strings.Join(where, ", "), lock, c08ReleaseName, fnName(rel)))
			return
		}
		isLoop := false
		for _, l := range a.loops {
			if l == fn {
				isLoop = true
			}
		}
		var callers []callSite
		for _, cs := range a.w.callGraph().callers[fn] {
			if a.consumer[cs.Caller] && !seen[cs.Caller] {
				if _, isCall := cs.Instr.(*ssa.Call); isCall {
					callers = append(callers, cs)
				}
			}
		}
		if isLoop || depth >= 3 || len(callers) == 0 {
			record(fn, "key known", site, true, what+" is not decided on an 'unknown chain key' reading (it follows a failed open with the key known): no race with the release function")
			return
		}
		seen[fn] = true
		for _, cs := range callers {
			eval(cs.Instr.(ssa.Instruction), "the park through "+fnName(fn), depth+1, seen)
		}
		delete(seen, fn)
	}
	cons := make([]*ssa.Function, 0, len(a.consumer))
	for f := range a.consumer {
		cons = append(cons, f)
	}
	sort.Slice(cons, func(i, j int) bool { return cons[i].String() < cons[j].String() })
	nPark := 0
	for _, f := range cons {
		for _, b := range f.Blocks {
			for _, in := range b.Instrs {
				if ci, ok := in.(ssa.CallInstruction); ok && c08IsPark(ci) {
					nPark++
					eval(in, "the park (PriorityQueue.Add)", 0, map[*ssa.Function]bool{})
				}
			}
		}
	}
	c.count("park_sites", nPark)
	if nPark == 0 {
		c.undecided("D3", "park sites", token.NoPos, "no PriorityQueue.Add behind the consumer loop")
	}
	for _, k := range order {
		v := results[k]
		if v.ok {
			c.ok("D3", k, v.pos, "%s", v.msg)
		} else {
			c.fail("D3", k, v.pos, "%s", v.msg)
		}
	}
	if len(a.lockCls) > 0 {
		a.d3FlagInit()
	}
}

// c08AliasesOf: v is al itself, or a load of a local variable into which al was stored.
func c08AliasOf(v ssa.Value, al ssa.Value) bool {
	v = stripConv(v)
	if v == al {
		return true
	}
	switch x := v.(type) {
	case *ssa.UnOp:
		if x.Op != token.MUL {
			return false
		}
		loc, ok := x.X.(*ssa.Alloc)
		if !ok || loc.Referrers() == nil {
			return false
		}
		for _, r := range *loc.Referrers() {
			if st, ok := r.(*ssa.Store); ok && st.Addr == ssa.Value(loc) && stripConv(st.Val) == al {
				return true
			}
		}
	case *ssa.Phi:
		for _, e := range x.Edges {
			if stripConv(e) == al {
				return true
			}
		}
	}
	return false
}

// c08Publications: the instructions of fn that make object al reachable from shared state
// (map insertion, store into a field / element / global); returned reports whether al is
// (also) handed to the caller.
func c08Publications(fn *ssa.Function, al ssa.Value) (pubs []ssa.Instruction, returned bool) {
	for _, b := range fn.Blocks {
		for _, in := range b.Instrs {
			switch x := in.(type) {
			case *ssa.MapUpdate:
				if c08AliasOf(x.Value, al) {
					pubs = append(pubs, in)
				}
			case *ssa.Store:
				if !c08AliasOf(x.Val, al) {
					continue
				}
				if loc, ok := x.Addr.(*ssa.Alloc); ok && !loc.Heap {
					continue // a local variable
				}
				if loc, ok := x.Addr.(*ssa.Alloc); ok && loc.Heap {
					continue // a captured local: not modelled as publication
				}
				pubs = append(pubs, in)
			case *ssa.Return:
				for _, r := range retResults(x) {
					if c08AliasOf(r, al) {
						returned = true
					}
				}
			}
		}
	}
	return
}

// d3FlagInit (extension of D3): every write of the key-known flag outside the release
// function - in particular the initial value given to a device cache that is created and
// published - is computed from a knowledge read made with K held, and K stays held from that
// read to the write and to the publication of the object. Otherwise a registration plus
// release can run in between, find no device cache and do nothing; the cache then says
// 'unknown' although the key is known, the message is parked and nothing releases it.
func (a *c08an) d3FlagInit() {
	c := a.c
	n := 0
	for _, fn := range a.w.ModFuncs {
		if !c08InRoot(fn) || a.relScope[fn] {
			continue
		}
		for _, b := range fn.Blocks {
			for _, in := range b.Instrs {
				st, ok := in.(*ssa.Store)
				if !ok {
					continue
				}
				fa, ok := st.Addr.(*ssa.FieldAddr)
				if !ok {
					continue
				}
				fv := c08FieldVar(fa)
				if fv == nil || !a.flags[fv] {
					continue
				}
				n++
				c.analysed(fn)
				construct := fnName(fn) + "+flag init"
				if n > 1 {
					construct = fmt.Sprintf("%s#%d", construct, n)
				}
				lock := a.lockCls[0]
				// where the written value comes from: this function, or (a parameter) its callers
				type source struct {
					val ssa.Value
					at  ssa.Instruction // the store, or the call site that passes the value
				}
				srcs := []source{{st.Val, st}}
				if par, isPar := st.Val.(*ssa.Parameter); isPar {
					srcs = nil
					for i, fp := range fn.Params {
						if fp != par {
							continue
						}
						for _, cs := range a.w.callGraph().callers[fn] {
							if call, ok := cs.Instr.(*ssa.Call); ok && c08InRoot(cs.Caller) && i < len(call.Common().Args) {
								srcs = append(srcs, source{call.Common().Args[i], call})
							}
						}
					}
				}
				// the object: fresh (then it must be published under the same critical section) or existing
				var fresh ssa.Value
				if al, ok := fa.X.(*ssa.Alloc); ok {
					fresh = al
				}
				type pubSite struct{ site, pub ssa.Instruction } // site: call site of fn when pub is in the caller
				var pubs []pubSite
				if fresh != nil {
					ps, returned := c08Publications(fn, fresh)
					for _, p := range ps {
						pubs = append(pubs, pubSite{nil, p})
					}
					if len(ps) == 0 && returned {
						for _, cs := range a.w.callGraph().callers[fn] {
							call, ok := cs.Instr.(*ssa.Call)
							if !ok || !c08InRoot(cs.Caller) {
								continue
							}
							for i := 0; i < fn.Signature.Results().Len(); i++ {
								if rv := resultValue(call, i); rv != nil {
									cp, _ := c08Publications(cs.Caller, rv)
									for _, p := range cp {
										pubs = append(pubs, pubSite{call, p})
									}
								}
							}
						}
					}
					if len(pubs) == 0 {
						c.undecided("D3", construct, st.Pos(), "the new object whose flag %s is initialised here is not published (map insertion / field store) in this function nor by its direct callers: shape not modelled", fv.Name())
						continue
					}
				}
				bad, und, note := "", "", ""
				if len(srcs) == 0 {
					und = "the value written into flag " + fv.Name() + " is a parameter of a function without root-package callers"
				}
				for _, src := range srcs {
					if bv, isC := constBool(src.val); isC {
						if !bv {
							bad = fmt.Sprintf("flag %s is set to 'unknown' (%s) without asking SecretStore.IsChainKeyKnownForDevice: when the chain key was registered before (the release function found no device cache and did nothing) the messages of this device are parked and nothing releases them", fv.Name(), c08Line(c, src.at))
						} else {
							note = "constant 'known'"
						}
						continue
					}
					reads := a.knownReads(src.val, 0)
					if len(reads) == 0 {
						und = fmt.Sprintf("the value written into flag %s (%s) is not a key-knowledge read this rule models", fv.Name(), c08Line(c, src.at))
						continue
					}
					for _, d := range reads {
						// read -> write (or -> the call that carries the value to the write)
						okW := a.atomic(d, src.at)
						if okW && src.at != ssa.Instruction(st) {
							_, okW = a.holdsK(st) // inside the callee: the lock of its callers
						}
						if !okW {
							bad = fmt.Sprintf("the value of flag %s comes from the key-knowledge read at %s, which is not made with %s held continuously up to the write at %s", fv.Name(), c08Line(c, d), lock, c08Line(c, st))
							break
						}
						for _, p := range pubs {
							okP := false
							switch {
							case p.pub.Parent() == d.Parent():
								okP = a.atomic(d, p.pub)
							case p.site != nil: // read in fn, publication in the caller
								_, held := a.holdsK(d)
								okP = held && a.atomic(p.site, p.pub)
							default: // read in the caller, publication in fn
								_, okP = a.holdsK(p.pub)
							}
							if !okP {
								bad = fmt.Sprintf("the initial value of flag %s comes from the key-knowledge read at %s, but %s is not held continuously from that read to the publication of the new device cache at %s", fv.Name(), c08Line(c, d), lock, c08Line(c, p.pub))
							}
						}
					}
				}
				switch {
				case bad != "" && strings.Contains(bad, "is set to 'unknown'"):
					c.fail("D3", construct, st.Pos(), "%s", bad)
				case bad != "":
					c.fail("D3", construct, st.Pos(), "%s: a RegisterChainKey + %s running in between finds no device cache (or an empty one) and does nothing; the flag then says 'unknown' although the key is known, the message is parked and nothing releases that device again", bad, c08ReleaseName)
				case und != "":
					c.undecided("D3", construct, st.Pos(), "%s", und)
				case note != "":
					c.ok("D3", construct, st.Pos(), "flag %s initialised to 'known': at worst an open fails and the message is parked as after any failed open, the release function still drains it", fv.Name())
				default:
					c.ok("D3", construct, st.Pos(), "flag %s is written from a key-knowledge read made with %s held, kept until the write and the publication of the object (%d publication site(s))", fv.Name(), lock, len(pubs))
				}
			}
		}
	}
	c.count("flag_init_sites", n)
}

func (a *c08an) isLoopFn(f *ssa.Function) bool {
	for _, l := range a.loops {
		if l == f {
			return true
		}
	}
	return false
}

// ---------- D4: the release function drains everything ----------

func (a *c08an) d4() {
	c := a.c
	rel := a.release
	var pops []ssa.CallInstruction
	full := false
	for f := range a.relScope {
		for _, b := range f.Blocks {
			for _, in := range b.Instrs {
				if ci, ok := in.(ssa.CallInstruction); ok && c08IsPop(ci) {
					pops = append(pops, ci)
					if c08FullDrainSite(ci) {
						full = true
					}
				}
			}
		}
	}
	sort.Slice(pops, func(i, j int) bool { return posOf(pops[i].(ssa.Instruction)) < posOf(pops[j].(ssa.Instruction)) })
	switch {
	case len(pops) == 0:
		c.fail("D4", fnName(rel)+"+drain", rel.Pos(), "the release function never takes anything out of the device queue (no PriorityQueue.Next/NextAll behind it): messages parked before the chain key was registered are not released by the registration")
	case !full:
		c.fail("D4", fnName(rel)+"+PriorityQueue.Next", posOf(pops[0].(ssa.Instruction)), "the release function re-injects a single item (one PriorityQueue.Next() outside any loop, never NextAll): Next returns the lowest counter; when a message sealed before the announced chain key is parked (it can never be opened) that is the one returned, it is parked again and every openable message behind it stays parked until a later message of the same sender happens to be processed successfully")
	default:
		c.ok("D4", fnName(rel)+"+drain", posOf(pops[0].(ssa.Instruction)), "the release function drains the whole device queue (NextAll or Next in a loop)")
	}
}

// ---------- D5: drain after success; popped items are re-injected ----------

func (a *c08an) d5() {
	c := a.c
	// (a) consumer: after a successful open the device queue is drained before the next item.
	// The body function is the one that tests the outcome of the open call and reaches the
	// group-message emission: the loop itself, or the function its body was extracted into.
	isOpenCall := func(ci ssa.CallInstruction) bool { return calleeKey(ci.Common()) == c08KeyOpen }
	heads := map[*ssa.Function][]*ssa.BasicBlock{}
	for _, wt := range a.waits() {
		heads[wt.fn] = append(heads[wt.fn], wt.call.Block())
	}
	cons := make([]*ssa.Function, 0, len(a.consumer))
	for f := range a.consumer {
		cons = append(cons, f)
	}
	sort.Slice(cons, func(i, j int) bool { return cons[i].String() < cons[j].String() })
	nBody := 0
	for _, fn := range cons {
		if !a.reaches(fn, "gmeemit", 2, a.isGMEEmit) {
			continue
		}
		var openers []*ssa.Call
		for _, b := range fn.Blocks {
			for _, in := range b.Instrs {
				call, ok := in.(*ssa.Call)
				if !ok {
					continue
				}
				isOpen := isOpenCall(call)
				if f := a.rootCallee(call); f != nil {
					isOpen = errResultIndex(f.Signature) >= 0 && !a.reaches(f, "gmeemit", 2, a.isGMEEmit) && a.reaches(f, "open", 3, isOpenCall)
				}
				if isOpen {
					openers = append(openers, call)
				}
			}
		}
		if len(openers) == 0 {
			continue
		}
		nBody++
		c.analysed(fn)
		construct := fnName(fn) + "+drain after open"
		stops := c08Stops{}
		for _, b := range fn.Blocks {
			for _, in := range b.Instrs {
				ci, ok := in.(ssa.CallInstruction)
				if !ok {
					continue
				}
				if _, isDefer := in.(*ssa.Defer); isDefer {
					continue
				}
				if c08FullDrainSite(ci) {
					stops[in] = true
				} else if f := a.rootCallee(ci); f != nil && a.reaches(f, "fulldrain", 3, c08FullDrainSite) && !a.reaches(f, "open", 3, isOpenCall) {
					stops[in] = true
				}
			}
		}
		bad := ""
		for _, op := range openers {
			ev := errVerdict(op)
			if ev == nil || len(edgesOfVerdict(ev).Accept) == 0 {
				bad = "the error of the open call at " + c08Line(c, op) + " is not tested"
				continue
			}
			silent := c08Flow(edgesOfVerdict(ev).Accept, stops, nil)
			end := ""
			for _, h := range heads[fn] {
				if silent[h] {
					end = "the next WaitForItem"
				}
			}
			if len(heads[fn]) == 0 {
				for _, r := range returnsOf(fn) {
					if silent[r.Block()] {
						end = "the return at " + c.pos(posOf(r))
					}
				}
			}
			if end != "" {
				bad = "after the successful open at " + c08Line(c, op) + " " + end + " can be reached without draining the sender's device queue (no NextAll / Next loop on that path): messages of this sender parked after a failed open stay parked"
			}
		}
		if bad != "" {
			c.fail("D5", construct, posOf(openers[0]), "%s", bad)
		} else {
			c.ok("D5", construct, posOf(openers[0]), "every path from a successful open to the end of the iteration drains the device queue (%d drain site(s))", len(stops))
		}
	}
	if nBody == 0 {
		c.undecided("D5", "drain after open", token.NoPos, "no function behind the consumer loop both tests the outcome of a call reaching SecretStore.OpenEnvelopePayload and reaches the group-message emission")
	}
	// (b) every pop site of the root package re-injects what it popped
	nPop := 0
	for _, fn := range a.w.ModFuncs {
		if !c08InRoot(fn) {
			continue
		}
		for _, b := range fn.Blocks {
			for _, in := range b.Instrs {
				ci, ok := in.(ssa.CallInstruction)
				if !ok || !c08IsPop(ci) {
					continue
				}
				nPop++
				c.analysed(fn)
				_, m := c08QueueCall(ci.Common())
				construct := fnName(fn) + "+PriorityQueue." + m + " re-inject"
				if m == "NextAll" {
					a.d5Callback(fn, ci, construct)
				} else {
					a.d5Next(fn, ci, construct)
				}
			}
		}
	}
	if nPop == 0 {
		c.undecided("D5", "pop sites", token.NoPos, "no PriorityQueue.Next/NextAll call in the root package")
	}
}

func (a *c08an) d5Callback(fn *ssa.Function, ci ssa.CallInstruction, construct string) {
	c := a.c
	args := ci.Common().Args
	var cb *ssa.Function
	if len(args) >= 2 {
		switch x := args[1].(type) {
		case *ssa.MakeClosure:
			cb, _ = x.Fn.(*ssa.Function)
		case *ssa.Function:
			cb = x
		}
	}
	if cb == nil || cb.Blocks == nil || len(cb.Params) == 0 {
		c.undecided("D5", construct, posOf(ci.(ssa.Instruction)), "the NextAll callback is not a function literal or named function: cannot follow the popped items")
		return
	}
	// method values and other synthetic wrappers: follow the single forwarding call
	pi := len(cb.Params) - 1
	for hops := 0; cb.Synthetic != "" && hops < 3; hops++ {
		var next *ssa.Function
		ni := -1
		for _, b := range cb.Blocks {
			for _, in := range b.Instrs {
				if call, ok := in.(*ssa.Call); ok {
					if f := a.rootCallee(call); f != nil {
						for i, x := range call.Common().Args {
							if x == ssa.Value(cb.Params[pi]) && i < len(f.Params) {
								next, ni = f, i
							}
						}
					}
				}
			}
		}
		if next == nil {
			break
		}
		cb, pi = next, ni
	}
	c.analysed(cb)
	param := cb.Params[pi]
	stops := c08Stops{}
	for k := range a.dispositions(cb, param, 2) {
		if x, ok := k.(ssa.CallInstruction); ok && !a.isGMEEmit(x) {
			stops[k] = true
		}
	}
	silent := c08EntryFlow(cb, stops, nil)
	for _, r := range returnsOf(cb) {
		if silent[r.Block()] {
			c.fail("D5", construct, posOf(r), "the NextAll callback can return without putting the popped item on the message queue: NextAll has already removed it from the device queue, the message is lost")
			return
		}
		for _, res := range retResults(r) {
			if isErrorType(res.Type()) && !isNilConst(res) {
				c.fail("D5", construct, posOf(r), "the NextAll callback can return an error: NextAll stops at the first error, the item just popped and handed to the callback is in neither queue")
				return
			}
		}
	}
	c.ok("D5", construct, posOf(ci.(ssa.Instruction)), "every popped item is put on the message queue and the callback returns nil")
}

func (a *c08an) d5Next(fn *ssa.Function, ci ssa.CallInstruction, construct string) {
	c := a.c
	v := ci.Value()
	if v == nil || v.Referrers() == nil || len(*v.Referrers()) == 0 {
		c.fail("D5", construct, posOf(ci.(ssa.Instruction)), "the item popped by Next is discarded: it is in neither queue any more")
		return
	}
	// aliases: the call value and the phis it flows into (loop-carried `next`)
	alias := map[ssa.Value]bool{v: true}
	for _, r := range *v.Referrers() {
		if ph, ok := r.(*ssa.Phi); ok {
			alias[ph] = true
		}
	}
	stops := c08Stops{}
	for _, b := range fn.Blocks {
		for _, in := range b.Instrs {
			x, ok := in.(ssa.CallInstruction)
			if !ok {
				continue
			}
			if c08IsRequeue(x) || c08IsPark(x) {
				for _, arg := range x.Common().Args[1:] {
					if alias[stripConv(arg)] {
						stops[in] = true
					}
				}
			} else if f := a.rootCallee(x); f != nil {
				for i, arg := range x.Common().Args {
					if alias[stripConv(arg)] && i < len(f.Params) && a.disposes(f, i, 1) {
						stops[in] = true
					}
				}
			}
		}
	}
	var starts []edge
	for al := range alias {
		starts = append(starts, edgesOfVerdict(al).Reject...) // pointer verdict: reject = non-nil
	}
	if len(starts) == 0 {
		c.undecided("D5", construct, posOf(ci.(ssa.Instruction)), "the item popped by Next is not tested against nil: shape not modelled")
		return
	}
	silent := c08Flow(starts, stops, nil)
	for _, r := range returnsOf(fn) {
		if silent[r.Block()] {
			c.fail("D5", construct, posOf(ci.(ssa.Instruction)), "a non-nil item popped by Next can reach the return at %s without being put on the message queue: it is in neither queue any more", c.pos(posOf(r)))
			return
		}
	}
	if silent[ci.Block()] {
		c.fail("D5", construct, posOf(ci.(ssa.Instruction)), "a non-nil item popped by Next can reach the next Next() without being put on the message queue")
		return
	}
	c.ok("D5", construct, posOf(ci.(ssa.Instruction)), "a non-nil popped item is put on the message queue on every path")
}
