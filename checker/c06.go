package main

// C06 — contact-request handshake authenticates both parties against any peer behaviour.
//
// The rules look at the two exported entry points of internal/handshake and at the functions
// of the root package that call them. Everything is found by role: library callees
// (box.Precompute, box.GenerateKey, crypto.PubKey.Verify, PrivKey.Sign, box.*AfterPrecomputation,
// protoio.Reader.ReadMsg), exported wire types (RequesterAcknowledgePayload.Success,
// ShareableContact.Pk) and exported methods of MetadataStore. Unexported names only label reports.

import (
	"fmt"
	"go/token"
	"go/types"
	"sort"
	"strings"

	"golang.org/x/tools/go/ssa"
)

const (
	c06PkgHS      = modulePath + "/internal/handshake"
	c06PubKeyT    = "github.com/libp2p/go-libp2p/core/crypto.PubKey"
	c06PrivKeyT   = "github.com/libp2p/go-libp2p/core/crypto.PrivKey"
	c06Precompute = "golang.org/x/crypto/nacl/box.Precompute"
	c06GenKey     = "golang.org/x/crypto/nacl/box.GenerateKey"
	c06X25519     = "golang.org/x/crypto/curve25519.X25519"
	c06ScalarMult = "golang.org/x/crypto/curve25519.ScalarMult"
	c06ECDH       = "(*crypto/ecdh.PrivateKey).ECDH"
	c06ECDHGen    = "(crypto/ecdh.Curve).GenerateKey"
	c06OpenAP     = "golang.org/x/crypto/nacl/box.OpenAfterPrecomputation"
	c06SealAP     = "golang.org/x/crypto/nacl/box.SealAfterPrecomputation"
	c06RandReader = "global:crypto/rand.Reader"
)

func init() {
	register(&PropertyDef{
		ID:    "C06",
		Title: "Contact-request handshake authenticates both parties against any peer behaviour",
		Explanation: "Decides, from the type-checked SSA of internal/handshake and of the callers of its two entry points, structural necessary conditions of mutual authentication. " +
			"A backward provenance (per struct field over the functions reachable from one entry point, call-site sensitive for helpers, branches selected by a constant flag pruned) classifies every Diffie-Hellman site by its public half (bytes received from the peer / an account key) and its secret half (generated in the session / the own account key). " +
			"Calls of function values behind an entry point are resolved: a func-typed parameter is bound to the value passed at each call site (closure, method value), and a helper that runs a local literal table of step functions is treated as the sequence of its elements when it is recognised as a step runner (it calls the function held by every element of the slice parameter in index order, a non-nil step error makes it return a non-nil error, it returns nil only after the loop ran to its end): its nil error then means that every step returned nil, in table order. A table that is not a local literal, or a runner of another shape, is not expanded and the obligations that depend on it fail. " +
			"(D1) every success return of RequestUsingReaderWriter and ResponseUsingReaderWriter is reached only through the accepting boolean outcome of a Verify whose data is the DH of the peer's hello key with the own session secret and whose signature was received; the requester verifies against its peer-key parameter and nothing received; the responder returns exactly the key it verified. " +
			"(D2) the responder's success return is reached only after the acknowledge message's Success flag was read and found true. " +
			"(D3) the proof the responder verifies is the plaintext of a box whose key mixes DH(peer ephemeral, own account key); the requester seals its proof under a key mixing DH(own ephemeral, intended account key): a proof addressed to one responder cannot be forwarded to another. " +
			"(D4) the secret half of the ephemeral DH comes only from box.GenerateKey(crypto/rand.Reader) executed inside the session (no cached, package-level or deterministic key). " +
			"(D5) a peer-supplied X25519 point that reaches a non-contributory DH (box.Precompute, curve25519.ScalarMult) must pass a check that rejects low-order points: an API that errors on them (curve25519.X25519, ecdh ECDH) or an equality test on the point / the secret computed from it whose equal side rejects; the check must be enforced before any signature over the shared secret is produced and before success. " +
			"(D6) the stream handler records the incoming request only after the responder handshake returned nil, only on the equal side of a comparison between the announced ShareableContact.Pk and the authenticated key (made in the handler itself or in a module helper, followed two levels deep, all of whose success returns lie on the equal side of a comparison between its key parameter and its contact parameter's Pk, called with the authenticated key and the received contact, its nil error being the accepting outcome), and the recorded contact carries the authenticated key; every call of ContactRequestOutgoingSent outside the metadata store itself is reached only behind the nil-error side of the requester handshake — in the same function or through a callee all of whose success returns lie behind it; a test of an error variable or flag that may still hold its initial value (loop run zero times) does not count — and is given the key that was passed to the handshake. " +
			"(D8) along each caller of a handshake entry point at most one protoio reader is constructed over the stream the handshake reads from when one of them is buffered (the varint-delimited reader owns a bufio.Reader that may already hold the next frame): the contact that follows the handshake must be read through the handshake's reader. " +
			"(D7) the function that turns the DH outputs into the box keys (found by role: a module function on the path from a box Seal/Open key argument that calls a hash primitive) returns the digest of a hash fed with every one of its byte parameters: a returned array no digest is stored into, a hash.Hash.Sum whose result is discarded although its argument is not a zero-length slice with room for the digest (Sum appends), or a parameter (or all but one element of it) that never reaches the hash input are reported; the provenance models Sum accordingly, so D3 sees such a key as mixing nothing. " +
			"Not decided: a symbolic (Dolev-Yao) proof of the protocol; unforgeability of Ed25519 and secrecy of NaCl box; that the two ends agree on nonces and box keys (any honest run decides that); distinctness of the two step nonces (the step keys differ, so it is not a necessary condition); that a box-open failure is tested (a failed open yields nil plaintext which the following parse and Verify reject); rejection of non-Ed25519 identity keys (three redundant checks exist, none individually necessary); frame bounds (C18); the reference value of an equality-based low-order check; the order of two assignments to the same field inside one function (provenance is flow-insensitive).",
		Trusted:     []string{"golang.org/x/tools go/packages+go/ssa (v0.29.0)", "semantics of nacl/box, curve25519.X25519 (errors on low-order input), libp2p crypto.PubKey.Verify", "go/types"},
		Assumptions: []string{"dependencies behave as documented; only module code is analysed", "data flow through struct fields is approximated per (struct type, field) over the functions reachable from one entry point"},
		Floors:      map[string]int{"D1": 4, "D2": 1, "D3": 2, "D4": 2, "D5": 2, "D6": 5, "D7": 1, "D8": 2},
		Borrows: []Borrow{
			{From: "C18", Rules: []string{"D3", "D4"}, Why: "every handshake step is one varint-delimited frame (pkg/protoio/varint.go is an anchor of this property): a frame whose body is read with a single Read decodes stale bytes of the previous frame, so a truncated acknowledge is taken for Success=true and honest parties on a fragmenting stream fail to complete"},
		},
		Run: runC06,
	})
}

// ---------------------------------------------------------------------------
// Provenance: backward, field-based over a scope (the functions reachable from one entry
// point), with call-site frames for inlined module callees.

type c06Prov struct {
	Atoms map[string]bool
	Sites map[ssa.Instruction]bool
	Fns   map[*ssa.Function]bool // module functions whose results were looked into
	Funcs map[*ssa.Function]bool // function values (functions, closures, bound methods) the data may be
}

func (p *c06Prov) atomList() []string {
	var out []string
	for a := range p.Atoms {
		out = append(out, a)
	}
	sort.Strings(out)
	return out
}

func (p *c06Prov) has(a string) bool { return p.Atoms[a] }

func (p *c06Prov) hasPrefix(pre string) bool {
	for a := range p.Atoms {
		if strings.HasPrefix(a, pre) {
			return true
		}
	}
	return false
}

// sitesKeyed returns the traversed call sites whose callee key satisfies pred, in a stable order.
func (p *c06Prov) sitesKeyed(pred func(key string) bool) []ssa.CallInstruction {
	var out []ssa.CallInstruction
	for in := range p.Sites {
		if ci, ok := in.(ssa.CallInstruction); ok && pred(calleeKey(ci.Common())) {
			out = append(out, ci)
		}
	}
	sort.Slice(out, func(i, j int) bool { return out[i].Pos() < out[j].Pos() })
	return out
}

type c06Frame struct {
	fn     *ssa.Function
	site   ssa.CallInstruction
	parent *c06Frame
}

type c06Index struct {
	stores map[string][]*ssa.Store // field key -> stores through a FieldAddr of that key
	loads  map[string][]*ssa.UnOp  // field key -> loads through a FieldAddr of that key
	allocs map[string][]*ssa.Alloc // struct type -> allocations of it
}

type c06Walker struct {
	w          *World
	scope      map[*ssa.Function]bool
	entry      *ssa.Function
	stop       map[ssa.Value]string // values treated as named atoms
	stopDH     bool                 // do not look into the operands of a DH site
	idx        *c06Index
	dead       map[*ssa.BasicBlock]bool             // blocks no call from the scope can execute (constant bool arguments)
	closures   map[*ssa.Function][]*ssa.MakeClosure // closure creations in scope, by function
	dynCalls   []ssa.CallInstruction                // calls of function values in scope
	dynTargets map[ssa.CallInstruction][]*ssa.Function
	dynCallers map[*ssa.Function][]callSite
	escMem     map[*ssa.Alloc]bool
	pwMem      map[*ssa.Parameter]int
}

func c06NewWalker(w *World, scope map[*ssa.Function]bool, entry *ssa.Function) *c06Walker {
	wk := &c06Walker{w: w, scope: scope, entry: entry, stop: map[ssa.Value]string{}, stopDH: true,
		escMem: map[*ssa.Alloc]bool{}, pwMem: map[*ssa.Parameter]int{}, closures: map[*ssa.Function][]*ssa.MakeClosure{},
		dynTargets: map[ssa.CallInstruction][]*ssa.Function{}, dynCallers: map[*ssa.Function][]callSite{}}
	idx := &c06Index{stores: map[string][]*ssa.Store{}, loads: map[string][]*ssa.UnOp{}, allocs: map[string][]*ssa.Alloc{}}
	fns := make([]*ssa.Function, 0, len(scope))
	for f := range scope {
		fns = append(fns, f)
	}
	sort.Slice(fns, func(i, j int) bool { return fns[i].String() < fns[j].String() })
	wk.dead = c06DeadBlocks(w, scope, entry, fns)
	for _, fn := range fns {
		for _, b := range fn.Blocks {
			if wk.dead[b] {
				continue
			}
			for _, in := range b.Instrs {
				switch x := in.(type) {
				case *ssa.Store:
					if fa, ok := x.Addr.(*ssa.FieldAddr); ok {
						k := c06FieldKey(fa)
						idx.stores[k] = append(idx.stores[k], x)
					}
				case *ssa.UnOp:
					if x.Op == token.MUL {
						if fa, ok := x.X.(*ssa.FieldAddr); ok {
							k := c06FieldKey(fa)
							idx.loads[k] = append(idx.loads[k], x)
						}
					}
				case *ssa.Alloc:
					el := x.Type().(*types.Pointer).Elem()
					if _, isSt := el.Underlying().(*types.Struct); isSt {
						k := types.TypeString(el, nil)
						idx.allocs[k] = append(idx.allocs[k], x)
					}
				case *ssa.MakeClosure:
					if f, ok := x.Fn.(*ssa.Function); ok {
						wk.closures[f] = append(wk.closures[f], x)
					}
				}
				if ci, ok := in.(ssa.CallInstruction); ok && c06IsDynamicCall(ci.Common()) {
					wk.dynCalls = append(wk.dynCalls, ci)
				}
			}
		}
	}
	wk.idx = idx
	// calls of function values: two rounds, a target found in the first may be the caller
	// through which a parameter of the second is bound
	for round := 0; round < 2 && len(wk.dynCalls) > 0; round++ {
		targets := map[ssa.CallInstruction][]*ssa.Function{}
		callers := map[*ssa.Function][]callSite{}
		for _, ci := range wk.dynCalls {
			_, st := wk.newProv()
			ts := st.funcTargets(ci.Common().Value, nil)
			targets[ci] = ts
			for _, t := range ts {
				callers[t] = append(callers[t], callSite{Caller: ci.Parent(), Instr: ci})
			}
		}
		wk.dynTargets, wk.dynCallers = targets, callers
	}
	return wk
}

// callersOf: the call sites of fn inside the scope, calls of function values included.
func (wk *c06Walker) callersOf(fn *ssa.Function) []callSite {
	var out []callSite
	for _, cs := range wk.w.callGraph().callers[fn] {
		if wk.scope[cs.Caller] {
			out = append(out, cs)
		}
	}
	for _, cs := range wk.dynCallers[fn] {
		if wk.scope[cs.Caller] {
			out = append(out, cs)
		}
	}
	return out
}

// c06DeadBlocks: blocks of scope functions that cannot execute because a bool parameter
// receives the same constant at every call site inside the scope (flag-selected branches of a
// helper shared by the two roles).
func c06DeadBlocks(w *World, scope map[*ssa.Function]bool, entry *ssa.Function, fns []*ssa.Function) map[*ssa.BasicBlock]bool {
	dead := map[*ssa.BasicBlock]bool{}
	for _, fn := range fns {
		if fn == entry || len(fn.Blocks) == 0 {
			continue
		}
		cut := map[edge]bool{}
		for pi, p := range fn.Params {
			if !isBoolType(p.Type()) {
				continue
			}
			n, allSame, val := 0, true, false
			for _, cs := range w.callGraph().callers[fn] {
				if !scope[cs.Caller] {
					continue
				}
				args := c06ArgsOf(cs.Instr)
				if pi >= len(args) {
					allSame = false
					continue
				}
				b, isC := constBool(args[pi])
				if !isC || (n > 0 && b != val) {
					allSame = false
				}
				val = b
				n++
			}
			if n == 0 || !allSame {
				continue
			}
			for _, e := range func() []edge {
				ve := edgesOfVerdict(p)
				if val {
					return ve.Reject
				}
				return ve.Accept
			}() {
				cut[e] = true
			}
		}
		if len(cut) == 0 {
			continue
		}
		live := reach(fn.Blocks[0], cut)
		for _, b := range fn.Blocks {
			if !live[b] && b != fn.Recover {
				dead[b] = true
			}
		}
	}
	return dead
}

func (wk *c06Walker) deadInstr(in ssa.Instruction) bool {
	return in.Block() != nil && wk.dead[in.Block()]
}

func c06StructOf(fa *ssa.FieldAddr) (types.Type, *types.Struct) {
	el := fa.X.Type().Underlying().(*types.Pointer).Elem()
	st, _ := el.Underlying().(*types.Struct)
	return el, st
}

func c06FieldKey(fa *ssa.FieldAddr) string {
	el, _ := c06StructOf(fa)
	return fmt.Sprintf("%s#%d", types.TypeString(el, nil), fa.Field)
}

func c06FieldName(fa *ssa.FieldAddr) string {
	el, st := c06StructOf(fa)
	name := types.TypeString(el, func(*types.Package) string { return "" })
	if st == nil {
		return name
	}
	return name + "." + st.Field(fa.Field).Name()
}

type c06Key struct {
	v    ssa.Value
	fr   *c06Frame
	mode int
}

type c06State struct {
	wk        *c06Walker
	p         *c06Prov
	seen      map[c06Key]bool
	steps     int
	funcsOnly bool // resolving a function value: what a closure captures is not of interest
}

func (st *c06State) funcVal(f *ssa.Function) {
	if st.p.Funcs == nil {
		st.p.Funcs = map[*ssa.Function]bool{}
	}
	st.p.Funcs[f] = true
}

// funcTargets: the module functions a called function value may be (parameters bound by the
// frames or by the call sites in scope, fields of literal tables, closures, bound methods).
func (st *c06State) funcTargets(v ssa.Value, fr *c06Frame) []*ssa.Function {
	p2, st2 := st.wk.newProv()
	st2.funcsOnly = true
	st2.visit(v, fr, 0)
	var out []*ssa.Function
	for f := range p2.Funcs {
		if f.Blocks != nil && inModule(f) {
			out = append(out, f)
		}
	}
	sort.Slice(out, func(i, j int) bool { return out[i].String() < out[j].String() })
	return out
}

// c06IsDynamicCall: a call of a function value (not a static callee, not an interface method).
func c06IsDynamicCall(cc *ssa.CallCommon) bool {
	if cc.IsInvoke() || staticCallee(cc) != nil {
		return false
	}
	_, isB := cc.Value.(*ssa.Builtin)
	return !isB
}

func (wk *c06Walker) newProv() (*c06Prov, *c06State) {
	p := &c06Prov{Atoms: map[string]bool{}, Sites: map[ssa.Instruction]bool{}}
	return p, &c06State{wk: wk, p: p, seen: map[c06Key]bool{}}
}

// prov: where does the data of v come from.
func (wk *c06Walker) prov(v ssa.Value) *c06Prov {
	p, st := wk.newProv()
	st.visit(v, nil, 0)
	return p
}

// fieldProv: provenance of field `name` of the struct that ptr points to.
func (wk *c06Walker) fieldProv(ptr ssa.Value, name string) *c06Prov {
	p, st := wk.newProv()
	ptr = stripConv(ptr)
	al, ok := ptr.(*ssa.Alloc)
	if !ok || al.Referrers() == nil {
		st.visit(ptr, nil, 0)
		return p
	}
	for _, r := range *al.Referrers() {
		if fa, ok := r.(*ssa.FieldAddr); ok && fa.X == ssa.Value(al) {
			if _, sty := c06StructOf(fa); sty != nil && sty.Field(fa.Field).Name() == name {
				st.content(fa, nil, 0)
				return p
			}
		}
	}
	// the field is never addressed: only whole-object writes define it
	st.writes(al, nil, 0, true)
	return p
}

const c06MaxDepth = 60
const c06MaxSteps = 400000

func (st *c06State) typeAtoms(t types.Type) {
	switch types.TypeString(t, nil) {
	case c06PubKeyT:
		st.p.Atoms["T:PubKey"] = true
	case c06PrivKeyT:
		st.p.Atoms["T:PrivKey"] = true
	}
}

func (st *c06State) visit(v ssa.Value, fr *c06Frame, depth int) {
	if v == nil {
		return
	}
	st.steps++
	if depth > c06MaxDepth || st.steps > c06MaxSteps {
		st.p.Atoms["truncated"] = true
		return
	}
	k := c06Key{v, fr, 0}
	if st.seen[k] {
		return
	}
	st.seen[k] = true
	if a, ok := st.wk.stop[v]; ok {
		st.p.Atoms[a] = true
		return
	}
	st.typeAtoms(v.Type())
	switch x := v.(type) {
	case *ssa.Const:
		if x.Value != nil {
			st.p.Atoms["const"] = true
		}
	case *ssa.Global:
		st.p.Atoms["global:"+x.String()] = true
	case *ssa.Function:
		st.funcVal(x)
	case *ssa.Builtin:
	case *ssa.Parameter:
		st.param(x, fr, depth)
	case *ssa.FreeVar:
		fn := x.Parent()
		for i, fv := range fn.FreeVars {
			if fv != x {
				continue
			}
			// closures are found through the scope index (a bound-method wrapper has no parent)
			for _, mc := range st.wk.closures[fn] {
				if i < len(mc.Bindings) {
					st.visit(mc.Bindings[i], nil, depth+1)
				}
			}
		}
	case *ssa.Alloc:
		st.writes(x, fr, depth+1, false)
	case *ssa.MakeSlice, *ssa.MakeMap:
		st.writes(v, fr, depth+1, false)
	case *ssa.Phi:
		for _, e := range x.Edges {
			st.visit(e, fr, depth+1)
		}
	case *ssa.UnOp:
		if x.Op == token.MUL {
			st.content(x.X, fr, depth+1)
		} else {
			st.visit(x.X, fr, depth+1)
		}
	case *ssa.BinOp:
		st.visit(x.X, fr, depth+1)
		st.visit(x.Y, fr, depth+1)
	case *ssa.FieldAddr, *ssa.IndexAddr:
		st.content(v, fr, depth+1)
	case *ssa.Field:
		if sty, ok := x.X.Type().Underlying().(*types.Struct); ok {
			st.p.Atoms["field:"+types.TypeString(x.X.Type(), func(*types.Package) string { return "" })+"."+sty.Field(x.Field).Name()] = true
		}
		st.visit(x.X, fr, depth+1)
	case *ssa.Index:
		st.visit(x.X, fr, depth+1)
	case *ssa.Lookup:
		st.visit(x.X, fr, depth+1)
	case *ssa.Slice:
		if lbl, ok := st.wk.stop[stripConv(x.X)]; ok && (x.Low != nil || x.High != nil) {
			st.p.Atoms[lbl+"[sub]"] = true
			return
		}
		st.visit(x.X, fr, depth+1)
	case *ssa.Extract:
		if call, ok := x.Tuple.(*ssa.Call); ok {
			st.call(call, x.Index, fr, depth+1)
		} else {
			st.visit(x.Tuple, fr, depth+1)
		}
	case *ssa.Call:
		st.call(x, 0, fr, depth+1)
	case *ssa.MakeInterface:
		st.visit(x.X, fr, depth+1)
	case *ssa.ChangeInterface:
		st.visit(x.X, fr, depth+1)
	case *ssa.ChangeType:
		st.visit(x.X, fr, depth+1)
	case *ssa.Convert:
		st.visit(x.X, fr, depth+1)
	case *ssa.SliceToArrayPointer:
		st.visit(x.X, fr, depth+1)
	case *ssa.TypeAssert:
		st.visit(x.X, fr, depth+1)
	case *ssa.MakeClosure:
		if f, ok := x.Fn.(*ssa.Function); ok {
			st.funcVal(f)
		}
		if !st.funcsOnly {
			for _, b := range x.Bindings {
				st.visit(b, fr, depth+1)
			}
		}
	case *ssa.Next:
		st.visit(x.Iter, fr, depth+1)
	case *ssa.Range:
		st.visit(x.X, fr, depth+1)
	default:
		st.p.Atoms["other:"+fmt.Sprintf("%T", v)] = true
	}
}

func c06ArgsOf(ci ssa.CallInstruction) []ssa.Value {
	cc := ci.Common()
	if cc.IsInvoke() {
		return append([]ssa.Value{cc.Value}, cc.Args...)
	}
	return cc.Args
}

func (st *c06State) param(x *ssa.Parameter, fr *c06Frame, depth int) {
	fn := x.Parent()
	if fn == st.wk.entry {
		st.p.Atoms["entry:"+types.TypeString(x.Type(), nil)] = true
		return
	}
	idx := -1
	for i, p := range fn.Params {
		if p == x {
			idx = i
		}
	}
	if idx < 0 {
		return
	}
	for f := fr; f != nil; f = f.parent {
		if f.fn == fn {
			if args := c06ArgsOf(f.site); idx < len(args) {
				st.visit(args[idx], f.parent, depth+1)
			}
			return
		}
	}
	found := false
	for _, cs := range st.wk.callersOf(fn) {
		if args := c06ArgsOf(cs.Instr); idx < len(args) {
			found = true
			st.visit(args[idx], nil, depth+1)
		}
	}
	if !found {
		st.p.Atoms["param?:"+fnName(fn)+"."+x.Name()] = true
	}
}

// resolveBase follows parameters bound by the current frames to the caller's value.
func (st *c06State) resolveBase(v ssa.Value, fr *c06Frame) (ssa.Value, *c06Frame) {
	for i := 0; i < 8; i++ {
		v = stripConv(v)
		p, ok := v.(*ssa.Parameter)
		if !ok {
			return v, fr
		}
		fn := p.Parent()
		idx := -1
		for j, q := range fn.Params {
			if q == p {
				idx = j
			}
		}
		bound := false
		for f := fr; f != nil; f = f.parent {
			if f.fn == fn {
				if args := c06ArgsOf(f.site); idx >= 0 && idx < len(args) {
					v, fr, bound = args[idx], f.parent, true
				}
				break
			}
		}
		if !bound {
			return v, fr
		}
	}
	return v, fr
}

// paramWritten: may fn (or a module callee) write through its parameter p.
func (wk *c06Walker) paramWritten(p *ssa.Parameter, depth int) bool {
	if v, ok := wk.pwMem[p]; ok {
		return v == 1
	}
	wk.pwMem[p] = 2
	res := wk.ptrWritten(p, depth)
	if res {
		wk.pwMem[p] = 1
	}
	return res
}

func (wk *c06Walker) ptrWritten(v ssa.Value, depth int) bool {
	if depth > 6 || v.Referrers() == nil {
		return depth > 6
	}
	for _, r := range *v.Referrers() {
		switch u := r.(type) {
		case *ssa.Store:
			if u.Addr == v || u.Val == v {
				return true
			}
		case *ssa.FieldAddr:
			if u.X == v && wk.ptrWritten(u, depth+1) {
				return true
			}
		case *ssa.IndexAddr:
			if u.X == v && wk.ptrWritten(u, depth+1) {
				return true
			}
		case *ssa.MakeInterface, *ssa.ChangeType, *ssa.Phi, *ssa.Slice:
			if wk.ptrWritten(u.(ssa.Value), depth+1) {
				return true
			}
		case *ssa.MakeClosure, *ssa.Return, *ssa.MapUpdate, *ssa.Send:
			return true
		case ssa.CallInstruction:
			cc := u.Common()
			key := calleeKey(cc)
			args := cc.Args
			for i, a := range args {
				if a != v {
					continue
				}
				if c06CallReadOnly(key, i) {
					continue
				}
				if f := staticCallee(cc); f != nil && f.Blocks != nil && inModule(f) && i < len(f.Params) {
					if wk.paramWritten(f.Params[i], depth+1) {
						return true
					}
					continue
				}
				return true
			}
		}
	}
	return false
}

// escapes: the allocation may be written by module code outside its function, so that its
// fields have to be resolved per (type, field) over the scope rather than per object.
func (wk *c06Walker) escapes(al *ssa.Alloc) bool {
	if v, ok := wk.escMem[al]; ok {
		return v
	}
	wk.escMem[al] = true
	res := false
	var look func(v ssa.Value, depth int)
	look = func(v ssa.Value, depth int) {
		if res || v.Referrers() == nil || depth > 4 {
			return
		}
		for _, r := range *v.Referrers() {
			switch u := r.(type) {
			case *ssa.Store:
				if u.Val == v {
					res = true
				}
			case *ssa.MakeClosure, *ssa.Return, *ssa.MapUpdate, *ssa.Send, *ssa.Phi:
				res = true
			case *ssa.MakeInterface:
				look(u, depth+1)
			case *ssa.ChangeType:
				look(u, depth+1)
			case ssa.CallInstruction:
				cc := u.Common()
				for i, a := range cc.Args {
					if a != v {
						continue
					}
					if f := staticCallee(cc); f != nil && f.Blocks != nil && inModule(f) && i < len(f.Params) {
						if wk.paramWritten(f.Params[i], 0) {
							res = true
						}
					}
				}
			}
		}
	}
	look(al, 0)
	wk.escMem[al] = res
	return res
}

func c06IsRefType(t types.Type) bool {
	switch t.Underlying().(type) {
	case *types.Pointer, *types.Slice, *types.Map:
		return true
	}
	return false
}

// content: the data stored at address addr.
func (st *c06State) content(addr ssa.Value, fr *c06Frame, depth int) {
	st.steps++
	if depth > c06MaxDepth || st.steps > c06MaxSteps {
		st.p.Atoms["truncated"] = true
		return
	}
	k := c06Key{addr, fr, 2}
	if st.seen[k] {
		return
	}
	st.seen[k] = true
	switch a := addr.(type) {
	case *ssa.Alloc:
		st.writes(a, fr, depth+1, false)
	case *ssa.Global:
		st.p.Atoms["global:"+a.String()] = true
	case *ssa.FieldAddr:
		st.p.Atoms["field:"+c06FieldName(a)] = true
		st.typeAtoms(a.Type().(*types.Pointer).Elem())
		base, bfr := st.resolveBase(a.X, fr)
		if lbl, ok := st.wk.stop[base]; ok {
			// a field of a named (stop) value
			if _, sty := c06StructOf(a); sty != nil {
				st.p.Atoms[lbl+"."+sty.Field(a.Field).Name()] = true
			}
			return
		}
		if al, ok := base.(*ssa.Alloc); ok && !st.wk.escapes(al) && al.Referrers() != nil {
			for _, r := range *al.Referrers() {
				if fa2, ok := r.(*ssa.FieldAddr); ok && fa2.X == ssa.Value(al) && fa2.Field == a.Field {
					st.writes(fa2, bfr, depth+1, false)
				}
			}
			st.writes(al, bfr, depth+1, true)
			return
		}
		key := c06FieldKey(a)
		// when the object is a known allocation, accesses through a different allocation
		// cannot concern it (distinct objects); accesses through parameters or loaded pointers may
		baseAl, _ := base.(*ssa.Alloc)
		otherObject := func(addr ssa.Value) bool {
			if baseAl == nil {
				return false
			}
			fa, ok := addr.(*ssa.FieldAddr)
			if !ok {
				return false
			}
			al2, ok := stripConv(fa.X).(*ssa.Alloc)
			return ok && al2 != baseAl
		}
		for _, s := range st.wk.idx.stores[key] {
			if otherObject(s.Addr) {
				continue
			}
			sfr := (*c06Frame)(nil)
			if fr != nil && s.Parent() == fr.fn {
				sfr = fr
			}
			st.visit(s.Val, sfr, depth+1)
		}
		el, _ := c06StructOf(a)
		for _, al := range st.wk.idx.allocs[types.TypeString(el, nil)] {
			if baseAl != nil && al != baseAl {
				continue
			}
			st.writes(al, nil, depth+1, true)
		}
		if c06IsRefType(a.Type().(*types.Pointer).Elem()) {
			for _, ld := range st.wk.idx.loads[key] {
				if otherObject(ld.X) {
					continue
				}
				st.writes(ld, nil, depth+1, false)
			}
		}
	case *ssa.IndexAddr:
		// an element of a named (stop) value: say whether one fixed element or any element
		if lbl, ok := st.wk.stop[stripConv(a.X)]; ok {
			switch {
			case c06FullRangeIndex(a.Index, stripConv(a.X)):
				st.p.Atoms[lbl+"[*]"] = true
			default:
				if _, isC := a.Index.(*ssa.Const); isC {
					st.p.Atoms[lbl+"[k]"] = true
				} else {
					st.p.Atoms[lbl+"[?]"] = true
				}
			}
			return
		}
		st.visit(a.X, fr, depth+1)
	default:
		st.visit(addr, fr, depth+1)
	}
}

// writes: what is written through pointer-like value v (stores, writer calls). wholeOnly
// restricts to writes of the whole object (used for the struct behind a field address).
func (st *c06State) writes(v ssa.Value, fr *c06Frame, depth int, wholeOnly bool) {
	st.steps++
	if depth > c06MaxDepth || st.steps > c06MaxSteps {
		st.p.Atoms["truncated"] = true
		return
	}
	mode := 1
	if wholeOnly {
		mode = 3
	}
	k := c06Key{v, fr, mode}
	if st.seen[k] {
		return
	}
	st.seen[k] = true
	if v.Referrers() == nil {
		return
	}
	for _, r := range *v.Referrers() {
		if st.wk.deadInstr(r) {
			continue
		}
		switch u := r.(type) {
		case *ssa.Store:
			if u.Addr == v {
				st.visit(u.Val, fr, depth+1)
			}
		case *ssa.FieldAddr:
			if u.X == v && !wholeOnly {
				st.writes(u, fr, depth+1, false)
			}
		case *ssa.IndexAddr:
			if u.X == v && !wholeOnly {
				st.writes(u, fr, depth+1, false)
			}
		case *ssa.Slice:
			if u.X == v {
				st.writes(u, fr, depth+1, wholeOnly)
			}
		case *ssa.MakeInterface:
			st.writes(u, fr, depth+1, wholeOnly)
		case *ssa.ChangeType:
			st.writes(u, fr, depth+1, wholeOnly)
		case *ssa.Convert:
			st.writes(u, fr, depth+1, wholeOnly)
		case *ssa.SliceToArrayPointer:
			st.writes(u, fr, depth+1, wholeOnly)
		case *ssa.Phi:
			st.writes(u, fr, depth+1, wholeOnly)
		case *ssa.MapUpdate:
			if u.Map == v {
				st.visit(u.Value, fr, depth+1)
			}
		case ssa.CallInstruction:
			cc := u.Common()
			for i, a := range cc.Args {
				if a == v {
					st.callWrite(u, i, fr, depth+1, wholeOnly)
				}
			}
		}
	}
}

func c06IsReadMsg(key string) bool {
	return strings.HasSuffix(key, ").ReadMsg") && strings.Contains(key, "/pkg/protoio.")
}

func c06IsWriteMsg(key string) bool {
	return strings.HasSuffix(key, ").WriteMsg") && strings.Contains(key, "/pkg/protoio.")
}

func c06IsVerify(key string) bool {
	return key == keyVerify || strings.HasSuffix(key, "PublicKey).Verify") && strings.Contains(key, "go-libp2p/core/crypto.")
}

func c06IsSign(key string) bool {
	return key == keySign || strings.HasSuffix(key, "PrivateKey).Sign") && strings.Contains(key, "go-libp2p/core/crypto.")
}

// c06CallReadOnly: argument i of a call to key is only read.
func c06CallReadOnly(key string, i int) bool {
	switch {
	case c06IsWriteMsg(key), c06IsVerify(key), c06IsSign(key):
		return true
	case key == "google.golang.org/protobuf/proto.Marshal", key == "google.golang.org/protobuf/proto.Size":
		return true
	case key == c06Precompute, key == c06ScalarMult:
		return i != 0
	case key == c06X25519, key == c06ECDH:
		return true
	case strings.HasPrefix(key, "golang.org/x/crypto/nacl/box."), strings.HasPrefix(key, "golang.org/x/crypto/nacl/secretbox."):
		return true // `out` (arg 0) is appended to and returned, never the place read from later
	case key == "builtin.append", key == "builtin.len", key == "builtin.cap":
		return true
	case key == "builtin.copy":
		return i != 0
	case key == keyProtoU:
		return i != 1
	case strings.HasPrefix(key, "bytes."), strings.HasPrefix(key, "crypto/subtle."), strings.HasPrefix(key, "crypto/sha256."),
		strings.HasPrefix(key, "crypto/sha512."), strings.HasPrefix(key, "encoding/base64."), strings.HasPrefix(key, "(*encoding/base64."),
		strings.HasPrefix(key, "encoding/hex."), strings.HasPrefix(key, "fmt."), strings.HasPrefix(key, "go.uber.org/zap."),
		strings.HasPrefix(key, "(*go.uber.org/zap."), strings.HasPrefix(key, "errors."):
		return true
	case strings.HasPrefix(key, "github.com/libp2p/go-libp2p/core/crypto.Unmarshal"), strings.HasPrefix(key, "github.com/libp2p/go-libp2p/core/crypto.Marshal"):
		return true
	}
	return false
}

func c06IsDHKey(key string) bool {
	return key == c06Precompute || key == c06ScalarMult || key == c06X25519 || key == c06ECDH
}

// callWrite: value passed as argument i of call ci — what does the call write into it.
func (st *c06State) callWrite(ci ssa.CallInstruction, i int, fr *c06Frame, depth int, wholeOnly bool) {
	cc := ci.Common()
	key := calleeKey(cc)
	switch {
	case c06IsReadMsg(key):
		st.p.Atoms["net"] = true
		st.p.Sites[ci] = true
		return
	case key == "builtin.copy":
		if i == 0 && len(cc.Args) == 2 {
			st.visit(cc.Args[1], fr, depth+1)
		}
		return
	case key == c06Precompute || key == c06ScalarMult:
		if i == 0 {
			st.p.Atoms["dh"] = true
			st.p.Sites[ci] = true
			if !st.wk.stopDH {
				st.visit(cc.Args[1], fr, depth+1)
				st.visit(cc.Args[2], fr, depth+1)
			}
		}
		return
	case key == keyProtoU:
		if i == 1 {
			st.p.Sites[ci] = true
			st.visit(cc.Args[0], fr, depth+1)
		}
		return
	case c06IsHashSum(key):
		// Sum APPENDS the digest to its argument and returns the extended slice: the array
		// behind the argument receives the digest only when the argument is a zero-length slice
		// of it with room for the digest; otherwise the argument is only read
		recv, arg, ai := c06SumParts(cc)
		if i == ai && arg != nil {
			if n, ok := c06ZeroLenSliceOfArray(arg); ok {
				if sz := c06DigestSize(recv); sz == 0 || n >= sz {
					st.p.Atoms["hash"] = true
					st.p.Sites[ci] = true
					st.visit(recv, fr, depth+1)
				}
			}
		}
		return
	case key == "crypto/rand.Read":
		st.p.Atoms["rand"] = true
		st.p.Sites[ci] = true
		return
	case key == "io.ReadFull":
		if i == 1 {
			st.visit(cc.Args[0], fr, depth+1)
		}
		return
	case c06CallReadOnly(key, i):
		return
	}
	if f := staticCallee(cc); f != nil && f.Blocks != nil && inModule(f) && i < len(f.Params) {
		if st.wk.paramWritten(f.Params[i], 0) {
			st.writes(f.Params[i], &c06Frame{fn: f, site: ci, parent: fr}, depth+1, wholeOnly)
		}
		return
	}
	st.p.Atoms["writtenby:"+key] = true
	st.p.Sites[ci] = true
	if cc.IsInvoke() {
		st.visit(cc.Value, fr, depth+1)
	}
	for j, a := range cc.Args {
		if j != i {
			st.visit(a, fr, depth+1)
		}
	}
}

// call: result idx of call.
func (st *c06State) call(call *ssa.Call, idx int, fr *c06Frame, depth int) {
	cc := call.Common()
	key := calleeKey(cc)
	switch {
	case key == "builtin.append":
		for _, a := range cc.Args {
			st.visit(a, fr, depth+1)
		}
		return
	case strings.HasPrefix(key, "builtin."):
		return
	case key == c06GenKey || key == c06ECDHGen:
		st.p.Atoms["genkey"] = true
		st.p.Sites[call] = true
		for _, a := range cc.Args {
			st.visit(a, fr, depth+1)
		}
		return
	case key == c06X25519 || key == c06ECDH:
		st.p.Atoms["dh"] = true
		st.p.Sites[call] = true
		if !st.wk.stopDH {
			for _, a := range cc.Args {
				st.visit(a, fr, depth+1)
			}
		}
		return
	}
	if f := staticCallee(cc); f != nil && f.Blocks != nil && inModule(f) {
		nf := &c06Frame{fn: f, site: call, parent: fr}
		n := 0
		for p := fr; p != nil; p = p.parent {
			n++
		}
		if n < 10 {
			if st.p.Fns == nil {
				st.p.Fns = map[*ssa.Function]bool{}
			}
			st.p.Fns[f] = true
			for _, r := range returnsOf(f) {
				if st.wk.deadInstr(r) {
					continue
				}
				if res := retResults(r); idx < len(res) {
					st.visit(res[idx], nf, depth+1)
				}
			}
			return
		}
	}
	if c06IsDynamicCall(cc) {
		n := 0
		for p := fr; p != nil; p = p.parent {
			n++
		}
		if ts := st.funcTargets(cc.Value, fr); len(ts) > 0 && n < 10 {
			for _, f := range ts {
				nf := &c06Frame{fn: f, site: call, parent: fr}
				if st.p.Fns == nil {
					st.p.Fns = map[*ssa.Function]bool{}
				}
				st.p.Fns[f] = true
				for _, r := range returnsOf(f) {
					if st.wk.deadInstr(r) {
						continue
					}
					if res := retResults(r); idx < len(res) {
						st.visit(res[idx], nf, depth+1)
					}
				}
			}
			return
		}
	}
	st.p.Atoms["call:"+key] = true
	st.p.Sites[call] = true
	if c06IsHashSum(key) || c06HashFuncSize(key) > 0 {
		st.p.Atoms["hash"] = true
	}
	if cc.IsInvoke() {
		st.visit(cc.Value, fr, depth+1)
	} else if _, isF := cc.Value.(*ssa.Function); !isF {
		st.visit(cc.Value, fr, depth+1)
	}
	for _, a := range cc.Args {
		st.visit(a, fr, depth+1)
	}
	// an object returned by a library call absorbs what later method calls feed into it
	// (hash.Hash.Write before Sum)
	if c06IsPtrOrIface(call.Type()) && call.Referrers() != nil {
		for _, r := range *call.Referrers() {
			ci, ok := r.(ssa.CallInstruction)
			if !ok || ci == ssa.CallInstruction(call) {
				continue
			}
			c2 := ci.Common()
			isRecv := c2.IsInvoke() && c2.Value == ssa.Value(call)
			if !isRecv && !c2.IsInvoke() && len(c2.Args) > 0 && c2.Args[0] == ssa.Value(call) && c2.Signature().Recv() != nil {
				if f := staticCallee(c2); f == nil || !inModule(f) {
					isRecv = true
				}
			}
			if !isRecv || !c06AbsorbingMethod(calleeKey(c2)) {
				continue
			}
			for _, a := range c2.Args {
				if a != ssa.Value(call) {
					st.visit(a, fr, depth+1)
				}
			}
		}
	}
}

// ---- hash primitives

// c06IsHashSum: the Sum method of a hash.Hash (interface or concrete digest).
func c06IsHashSum(key string) bool {
	return strings.HasSuffix(key, ").Sum") && (strings.Contains(key, "hash.Hash") || strings.Contains(key, "crypto/"))
}

// c06HashFuncSize: digest size of a one-shot hash function, 0 when key is none.
func c06HashFuncSize(key string) int {
	switch key {
	case "crypto/sha256.Sum256", "crypto/sha512.Sum512_256", "golang.org/x/crypto/blake2b.Sum256", "golang.org/x/crypto/blake2s.Sum256", "golang.org/x/crypto/sha3.Sum256", "crypto/sha3.Sum256":
		return 32
	case "crypto/sha256.Sum224", "crypto/sha512.Sum512_224", "golang.org/x/crypto/sha3.Sum224", "crypto/sha3.Sum224":
		return 28
	case "crypto/sha512.Sum512", "golang.org/x/crypto/blake2b.Sum512", "golang.org/x/crypto/sha3.Sum512", "crypto/sha3.Sum512":
		return 64
	case "crypto/sha512.Sum384", "golang.org/x/crypto/blake2b.Sum384", "golang.org/x/crypto/sha3.Sum384", "crypto/sha3.Sum384":
		return 48
	}
	return 0
}

// c06HashNewSize: digest size of the hash.Hash a constructor returns, 0 when key is none.
func c06HashNewSize(key string) int {
	switch key {
	case "crypto/sha256.New", "crypto/sha512.New512_256", "golang.org/x/crypto/sha3.New256", "crypto/sha3.New256", "golang.org/x/crypto/blake2b.New256", "golang.org/x/crypto/blake2s.New256":
		return 32
	case "crypto/sha256.New224", "crypto/sha512.New512_224", "golang.org/x/crypto/sha3.New224", "crypto/sha3.New224":
		return 28
	case "crypto/sha512.New", "golang.org/x/crypto/sha3.New512", "crypto/sha3.New512", "golang.org/x/crypto/blake2b.New512":
		return 64
	case "crypto/sha512.New384", "golang.org/x/crypto/sha3.New384", "crypto/sha3.New384", "golang.org/x/crypto/blake2b.New384":
		return 48
	}
	return 0
}

// c06SumParts: receiver, data argument and its index in cc.Args of a Sum call.
func c06SumParts(cc *ssa.CallCommon) (recv, arg ssa.Value, argIdx int) {
	if cc.IsInvoke() {
		if len(cc.Args) == 1 {
			return cc.Value, cc.Args[0], 0
		}
		return cc.Value, nil, -1
	}
	if len(cc.Args) == 2 {
		return cc.Args[0], cc.Args[1], 1
	}
	return nil, nil, -1
}

// c06DigestSize: digest size of the hash value h when its constructor is visible, else 0.
func c06DigestSize(h ssa.Value) int {
	for i := 0; i < 6 && h != nil; i++ {
		switch x := h.(type) {
		case *ssa.Call:
			return c06HashNewSize(calleeKey(x.Common()))
		case *ssa.Extract:
			h = x.Tuple
		case *ssa.MakeInterface:
			h = x.X
		case *ssa.ChangeInterface:
			h = x.X
		case *ssa.TypeAssert:
			h = x.X
		default:
			return 0
		}
	}
	return 0
}

// c06ZeroLenSliceOfArray: v is arr[:0] (or arr[0:0]) of an array; returns the array length.
func c06ZeroLenSliceOfArray(v ssa.Value) (int, bool) {
	sl, ok := v.(*ssa.Slice)
	if !ok || sl.High == nil {
		return 0, false
	}
	if h, isC := constInt(sl.High); !isC || h != 0 {
		return 0, false
	}
	if sl.Low != nil {
		if l, isC := constInt(sl.Low); !isC || l != 0 {
			return 0, false
		}
	}
	pt, ok := sl.X.Type().Underlying().(*types.Pointer)
	if !ok {
		return 0, false
	}
	at, ok := pt.Elem().Underlying().(*types.Array)
	if !ok {
		return 0, false
	}
	return int(at.Len()), true
}

// c06FullRangeIndex: idx runs over every index of base: the counter of `for i := 0; i <
// len(base); i++` or of `for range base` (go/ssa: phi from -1, used as phi+1, tested < len).
func c06FullRangeIndex(idx ssa.Value, base ssa.Value) bool {
	isLenOfBase := func(v ssa.Value) bool {
		call, ok := v.(*ssa.Call)
		if !ok || calleeKey(call.Common()) != "builtin.len" || len(call.Common().Args) != 1 {
			return false
		}
		return stripConv(call.Common().Args[0]) == base
	}
	boundedByLen := func(v ssa.Value) bool {
		if v.Referrers() == nil {
			return false
		}
		for _, r := range *v.Referrers() {
			bo, ok := r.(*ssa.BinOp)
			if !ok || bo.Referrers() == nil {
				continue
			}
			if !(bo.Op == token.LSS && bo.X == v && isLenOfBase(bo.Y) || bo.Op == token.GTR && bo.Y == v && isLenOfBase(bo.X)) {
				continue
			}
			for _, r2 := range *bo.Referrers() {
				if _, isIf := r2.(*ssa.If); isIf {
					return true
				}
			}
		}
		return false
	}
	startsAt := func(p *ssa.Phi, n int64) bool {
		for _, e := range p.Edges {
			if c, ok := constInt(e); ok && c == n {
				return true
			}
		}
		return false
	}
	stepsByOne := func(p *ssa.Phi) bool {
		for _, e := range p.Edges {
			if bo, ok := e.(*ssa.BinOp); ok && bo.Op == token.ADD && bo.X == ssa.Value(p) {
				if c, isC := constInt(bo.Y); isC && c == 1 {
					return true
				}
			}
		}
		return false
	}
	switch x := idx.(type) {
	case *ssa.Phi:
		return len(x.Edges) == 2 && startsAt(x, 0) && stepsByOne(x) && boundedByLen(x)
	case *ssa.BinOp:
		p, ok := x.X.(*ssa.Phi)
		if !ok || x.Op != token.ADD || len(p.Edges) != 2 {
			return false
		}
		if c, isC := constInt(x.Y); !isC || c != 1 {
			return false
		}
		// range loop: the incremented value is both the index and the next phi edge
		next := false
		for _, e := range p.Edges {
			if e == ssa.Value(x) {
				next = true
			}
		}
		return next && startsAt(p, -1) && boundedByLen(x)
	}
	return false
}

// c06AbsorbingMethod: a method through which an object takes in the data of its arguments.
func c06AbsorbingMethod(key string) bool {
	return strings.HasSuffix(key, ").Write") || strings.HasSuffix(key, ").WriteString") || strings.HasSuffix(key, ").WriteByte")
}

func c06IsPtrOrIface(t types.Type) bool {
	switch t.Underlying().(type) {
	case *types.Pointer, *types.Interface:
		return true
	}
	return false
}

// ---------------------------------------------------------------------------
// DH sites

type c06DH struct {
	Site      ssa.CallInstruction
	Fn        *ssa.Function
	Pub, Priv ssa.Value
	PubP      *c06Prov
	PrivP     *c06Prov
	PubKind   string // eph (raw bytes received from the peer) | acct (an account key) | other
	PrivKind  string // eph (generated) | acct | other
	Checked   bool   // the API itself rejects low-order points
}

func (d *c06DH) kind() string {
	priv := "own"
	if d.PrivKind == "acct" {
		priv = "acct"
	}
	return d.PubKind + "*" + priv
}

func c06DHSites(wk *c06Walker) []*c06DH {
	var out []*c06DH
	fns := make([]*ssa.Function, 0, len(wk.scope))
	for f := range wk.scope {
		fns = append(fns, f)
	}
	sort.Slice(fns, func(i, j int) bool { return fns[i].String() < fns[j].String() })
	for _, fn := range fns {
		for _, ci := range callsIn(fn, func(k string, _ *ssa.CallCommon) bool { return c06IsDHKey(k) }) {
			if wk.deadInstr(ci) {
				continue
			}
			cc := ci.Common()
			d := &c06DH{Site: ci, Fn: fn}
			switch calleeKey(cc) {
			case c06Precompute:
				if len(cc.Args) != 3 {
					continue
				}
				d.Pub, d.Priv = cc.Args[1], cc.Args[2]
			case c06ScalarMult:
				if len(cc.Args) != 3 {
					continue
				}
				d.Priv, d.Pub = cc.Args[1], cc.Args[2]
			case c06X25519:
				if len(cc.Args) != 2 {
					continue
				}
				d.Priv, d.Pub, d.Checked = cc.Args[0], cc.Args[1], true
			case c06ECDH:
				if len(cc.Args) != 2 {
					continue
				}
				d.Priv, d.Pub, d.Checked = cc.Args[0], cc.Args[1], true
			}
			d.PubP, d.PrivP = wk.prov(d.Pub), wk.prov(d.Priv)
			switch {
			case d.PubP.has("T:PubKey"):
				d.PubKind = "acct"
			case d.PubP.has("net"):
				d.PubKind = "eph"
			default:
				d.PubKind = "other"
			}
			switch {
			case d.PrivP.has("T:PrivKey"):
				d.PrivKind = "acct"
			case d.PrivP.has("genkey") || d.PrivP.has("rand"):
				d.PrivKind = "eph"
			default:
				d.PrivKind = "other"
			}
			out = append(out, d)
		}
	}
	return out
}

// ---------------------------------------------------------------------------
// Guards: interprocedural "only reached through the accepting outcome of a check".

type c06Guard struct {
	w *World
	// direct returns what instruction in contributes in fn when it plays the role: accepting
	// edges and/or verdict values (bool: true accepts, error: nil accepts).
	direct func(fn *ssa.Function, in ssa.Instruction) ([]edge, []ssa.Value)
	memo   map[*ssa.Function]int
	edges  map[*ssa.Function][]edge
	verds  map[*ssa.Function][]ssa.Value
	role   *c06Role // optional: step tables and calls of function values behind an entry point
}

// tableOf: the ordered step functions when ci calls a step runner with a literal table.
func (g *c06Guard) tableOf(ci ssa.CallInstruction) []*ssa.Function {
	if g.role == nil {
		return nil
	}
	return g.role.Tables[ci]
}

// calleesOf: the module functions ci may call, function values included.
func (g *c06Guard) calleesOf(ci ssa.CallInstruction) []*ssa.Function {
	out := g.w.resolve(ci.Common(), nil)
	if g.role != nil {
		out = append(out, g.role.Wk.dynTargets[ci]...)
	}
	return out
}

func c06NewGuard(w *World, direct func(fn *ssa.Function, in ssa.Instruction) ([]edge, []ssa.Value)) *c06Guard {
	return &c06Guard{w: w, direct: direct, memo: map[*ssa.Function]int{}, edges: map[*ssa.Function][]edge{}, verds: map[*ssa.Function][]ssa.Value{}}
}

func (g *c06Guard) accept(fn *ssa.Function) ([]edge, []ssa.Value) {
	if e, ok := g.edges[fn]; ok {
		return e, g.verds[fn]
	}
	g.edges[fn] = nil
	var acc []edge
	var verdicts []ssa.Value
	for _, b := range fn.Blocks {
		for _, in := range b.Instrs {
			if es, vs := g.direct(fn, in); len(es)+len(vs) > 0 {
				acc = append(acc, es...)
				for _, v := range vs {
					acc = append(acc, edgesOfVerdict(v).Accept...)
					verdicts = append(verdicts, v)
				}
				continue
			}
			call, ok := in.(*ssa.Call)
			if !ok {
				continue
			}
			if steps := g.tableOf(call); len(steps) > 0 {
				// the runner returns nil only when every step did: one verifying step suffices
				anyV := false
				for _, sf := range steps {
					if g.isVerifier(sf) {
						anyV = true
					}
				}
				if v := errVerdict(call); anyV && v != nil {
					acc = append(acc, edgesOfVerdict(v).Accept...)
					verdicts = append(verdicts, v)
				}
				continue
			}
			callee := staticCallee(call.Common())
			if callee == nil {
				// a function value with one possible target (callback parameter, bound method)
				if ts := g.calleesOf(call); len(ts) == 1 && c06IsDynamicCall(call.Common()) {
					callee = ts[0]
				}
			}
			if callee == nil || callee == fn || callee.Blocks == nil || !inModule(callee) || errResultIndex(callee.Signature) < 0 {
				continue
			}
			if g.isVerifier(callee) {
				if v := errVerdict(call); v != nil {
					acc = append(acc, edgesOfVerdict(v).Accept...)
					verdicts = append(verdicts, v)
				}
			}
		}
	}
	g.edges[fn], g.verds[fn] = acc, verdicts
	return acc, verdicts
}

// isVerifier: every success return of fn is reached only through an accepting edge.
func (g *c06Guard) isVerifier(fn *ssa.Function) bool {
	if fn == nil || fn.Blocks == nil {
		return false
	}
	if v, ok := g.memo[fn]; ok {
		return v == 1
	}
	g.memo[fn] = 2
	acc, verdicts := g.accept(fn)
	if len(acc) == 0 && len(verdicts) == 0 {
		return false
	}
	if len(c06BypassReturns(fn, acc, verdicts)) == 0 {
		g.memo[fn] = 1
		return true
	}
	return false
}

func (g *c06Guard) bypass(fn *ssa.Function) []*ssa.Return {
	acc, verdicts := g.accept(fn)
	return c06BypassReturns(fn, acc, verdicts)
}

// passBefore: on every path from the entry of fn, an accepting edge is taken before target
// (an instruction of fn or of a function called, transitively, from fn) executes.
func (g *c06Guard) passBefore(fn *ssa.Function, target ssa.Instruction, scope map[*ssa.Function]bool, busy map[*ssa.Function]bool) bool {
	if busy[fn] {
		return true
	}
	busy[fn] = true
	defer delete(busy, fn)
	acc, _ := g.accept(fn)
	cut := map[edge]bool{}
	for _, e := range acc {
		cut[e] = true
	}
	open := reach(fn.Blocks[0], cut)
	if target.Parent() == fn {
		return !open[target.Block()]
	}
	reaches := g.reachers(target.Parent(), scope)
	for _, b := range fn.Blocks {
		if !open[b] {
			continue
		}
		for _, in := range b.Instrs {
			ci, ok := in.(ssa.CallInstruction)
			if !ok {
				continue
			}
			if steps := g.tableOf(ci); len(steps) > 0 {
				// steps run in order and the first failure aborts: a step is reached only after
				// all earlier ones succeeded
				passed := false
				for _, sf := range steps {
					if !passed && reaches[sf] && !g.passBefore(sf, target, scope, busy) {
						return false
					}
					if g.isVerifier(sf) {
						passed = true
					}
				}
				continue
			}
			for _, callee := range g.calleesOf(ci) {
				if callee == fn || !reaches[callee] {
					continue
				}
				if !g.passBefore(callee, target, scope, busy) {
					return false
				}
			}
		}
		// closures created here may run the target too; none of the handshake steps does so
	}
	return true
}

// reachers: the functions of scope from which tfn is reachable (including tfn).
func (g *c06Guard) reachers(tfn *ssa.Function, scope map[*ssa.Function]bool) map[*ssa.Function]bool {
	out := map[*ssa.Function]bool{tfn: true}
	q := []*ssa.Function{tfn}
	cg := g.w.callGraph()
	for len(q) > 0 {
		f := q[0]
		q = q[1:]
		for _, cs := range cg.callers[f] {
			if scope[cs.Caller] && !out[cs.Caller] {
				out[cs.Caller] = true
				q = append(q, cs.Caller)
			}
		}
		if g.role != nil {
			for _, cs := range g.role.Wk.dynCallers[f] {
				if scope[cs.Caller] && !out[cs.Caller] {
					out[cs.Caller] = true
					q = append(q, cs.Caller)
				}
			}
		}
	}
	return out
}

// ---------------------------------------------------------------------------
// Step runners: a helper that runs a table of step functions in order.

type c06Runner struct {
	Param int // index of the slice parameter holding the steps
	Field int // field of the element struct holding the function, -1 when the elements are functions
}

// c06RunnerOf recognises fn as a step runner: it calls, for every element of a slice
// parameter in order, the function the element holds; a non-nil error of a step makes fn
// return a non-nil error; fn returns nil only after the loop ran to its end. Hence fn's nil
// error implies that every step returned nil, in table order.
func c06RunnerOf(fn *ssa.Function) *c06Runner {
	if fn == nil || fn.Blocks == nil || errResultIndex(fn.Signature) < 0 {
		return nil
	}
	var dyn *ssa.Call
	for _, b := range fn.Blocks {
		for _, in := range b.Instrs {
			call, ok := in.(*ssa.Call)
			if !ok || !c06IsDynamicCall(call.Common()) {
				continue
			}
			if dyn != nil {
				return nil
			}
			dyn = call
		}
	}
	if dyn == nil || errResultIndex(dyn.Common().Signature()) < 0 {
		return nil
	}
	// the called value: element.field, through the copy of the range variable if any
	single := func(v ssa.Value) ssa.Value {
		for i := 0; i < 3; i++ {
			ld, ok := v.(*ssa.UnOp)
			if !ok || ld.Op != token.MUL {
				return v
			}
			al, ok := ld.X.(*ssa.Alloc)
			if !ok || al.Referrers() == nil {
				return v
			}
			var stored ssa.Value
			n := 0
			for _, r := range *al.Referrers() {
				if st, ok := r.(*ssa.Store); ok && st.Addr == ssa.Value(al) {
					stored = st.Val
					n++
				}
			}
			if n != 1 {
				return v
			}
			v = stored
		}
		return v
	}
	field := -1
	v := single(dyn.Common().Value)
	var elemAddr *ssa.IndexAddr
	switch x := v.(type) {
	case *ssa.Field:
		field = x.Field
		if ld, ok := single(x.X).(*ssa.UnOp); ok && ld.Op == token.MUL {
			elemAddr, _ = ld.X.(*ssa.IndexAddr)
		}
	case *ssa.UnOp:
		if x.Op != token.MUL {
			return nil
		}
		switch a := x.X.(type) {
		case *ssa.FieldAddr:
			field = a.Field
			elemAddr, _ = a.X.(*ssa.IndexAddr)
			if elemAddr == nil {
				// field of the range variable's copy
				if al, ok := a.X.(*ssa.Alloc); ok {
					if ld, ok := single(&ssa.UnOp{Op: token.MUL, X: al}).(*ssa.UnOp); ok && ld.Op == token.MUL {
						elemAddr, _ = ld.X.(*ssa.IndexAddr)
					}
				}
			}
		case *ssa.IndexAddr:
			elemAddr = a
		}
	}
	if elemAddr == nil {
		return nil
	}
	par, ok := stripConv(elemAddr.X).(*ssa.Parameter)
	if !ok || !c06FullRangeIndex(elemAddr.Index, par) {
		return nil
	}
	pi := -1
	for i, p := range fn.Params {
		if p == par {
			pi = i
		}
	}
	if pi < 0 {
		return nil
	}
	// a failing step makes the runner fail
	ev := errVerdict(dyn)
	if ev == nil || !rejectOnFailure(fn, ev).OK {
		return nil
	}
	// nil is returned only after the loop ran to its end: cut the loop's exit edge(s)
	cut := map[edge]bool{}
	for _, b := range fn.Blocks {
		if len(b.Instrs) == 0 {
			continue
		}
		ifi, ok := b.Instrs[len(b.Instrs)-1].(*ssa.If)
		if !ok {
			continue
		}
		bo, ok := ifi.Cond.(*ssa.BinOp)
		if !ok || bo.Op != token.LSS {
			continue
		}
		if call, ok := bo.Y.(*ssa.Call); ok && calleeKey(call.Common()) == "builtin.len" && len(call.Common().Args) == 1 && stripConv(call.Common().Args[0]) == ssa.Value(par) {
			cut[edge{b, b.Succs[1]}] = true
		}
	}
	if len(cut) == 0 {
		return nil
	}
	inLoop := reach(fn.Blocks[0], cut)
	idx := errResultIndex(fn.Signature)
	for _, ret := range returnsOf(fn) {
		if !inLoop[ret.Block()] || idx >= len(ret.Results) {
			continue
		}
		if !definitelyNonNilErr(c06ResolveSpill(ret.Results[idx]), ret.Block(), 0) {
			return nil // a nil return before all steps ran
		}
	}
	return &c06Runner{Param: pi, Field: field}
}

// c06StepTables: the calls, in fns, of a step runner whose table argument is a local
// composite literal with statically known function elements (functions, closures, method
// values), with the step functions in table order.
func c06StepTables(fns []*ssa.Function) map[ssa.CallInstruction][]*ssa.Function {
	out := map[ssa.CallInstruction][]*ssa.Function{}
	runners := map[*ssa.Function]*c06Runner{}
	for _, fn := range fns {
		for _, b := range fn.Blocks {
			for _, in := range b.Instrs {
				call, ok := in.(*ssa.Call)
				if !ok {
					continue
				}
				callee := staticCallee(call.Common())
				if callee == nil || callee.Blocks == nil || !inModule(callee) {
					continue
				}
				rn, seen := runners[callee]
				if !seen {
					rn = c06RunnerOf(callee)
					runners[callee] = rn
				}
				if rn == nil || rn.Param >= len(call.Common().Args) {
					continue
				}
				if steps := c06LiteralTable(call.Common().Args[rn.Param], rn.Field); len(steps) > 0 {
					out[call] = steps
				}
			}
		}
	}
	return out
}

// c06LiteralTable reads arg as a slice of a local array literal and returns the function
// stored in every element (field `field` of it), in index order; nil when any is not static.
func c06LiteralTable(arg ssa.Value, field int) []*ssa.Function {
	sl, ok := stripConv(arg).(*ssa.Slice)
	if !ok || sl.Low != nil || sl.High != nil {
		return nil
	}
	al, ok := sl.X.(*ssa.Alloc)
	if !ok || al.Referrers() == nil {
		return nil
	}
	at, ok := al.Type().(*types.Pointer).Elem().Underlying().(*types.Array)
	if !ok {
		return nil
	}
	steps := make([]*ssa.Function, at.Len())
	asFunc := func(v ssa.Value) *ssa.Function {
		switch x := stripConv(v).(type) {
		case *ssa.Function:
			return x
		case *ssa.MakeClosure:
			f, _ := x.Fn.(*ssa.Function)
			return f
		}
		return nil
	}
	for _, r := range *al.Referrers() {
		ia, ok := r.(*ssa.IndexAddr)
		if !ok {
			if _, isSl := r.(*ssa.Slice); isSl {
				continue
			}
			if _, dbg := r.(*ssa.DebugRef); dbg {
				continue
			}
			return nil // the array is used in some other way
		}
		k, isC := constInt(ia.Index)
		if !isC || k < 0 || k >= at.Len() || ia.Referrers() == nil {
			return nil
		}
		for _, r2 := range *ia.Referrers() {
			switch u := r2.(type) {
			case *ssa.Store:
				if u.Addr == ssa.Value(ia) && field < 0 {
					if steps[k] != nil {
						return nil
					}
					steps[k] = asFunc(u.Val)
				}
			case *ssa.FieldAddr:
				if u.Field != field || u.Referrers() == nil {
					continue
				}
				for _, r3 := range *u.Referrers() {
					if st, ok := r3.(*ssa.Store); ok && st.Addr == ssa.Value(u) {
						if steps[k] != nil {
							return nil
						}
						steps[k] = asFunc(st.Val)
					}
				}
			}
		}
	}
	for _, f := range steps {
		if f == nil || f.Blocks == nil {
			return nil
		}
	}
	return steps
}

// ---------------------------------------------------------------------------

type c06Role struct {
	Name   string // requester | responder
	Entry  *ssa.Function
	Scope  map[*ssa.Function]bool
	Fns    []*ssa.Function
	Wk     *c06Walker
	DH     []*c06DH
	HH     []*c06DH // DH of the received hello key with an own non-account secret: the transcript
	HHSite map[ssa.Instruction]bool
	Tables map[ssa.CallInstruction][]*ssa.Function // call of a step runner with a literal table: the steps in order
}

func c06Describe(c *Ctx, ci ssa.CallInstruction) string {
	return fmt.Sprintf("%s@%s", fnName(ci.Parent()), c.pos(posOf(ci)))
}

func c06SiteNames(c *Ctx, ds []*c06DH) string {
	var s []string
	for _, d := range ds {
		s = append(s, fmt.Sprintf("%s in %s (%s)", c06ShortKey(calleeKey(d.Site.Common())), fnName(d.Fn), c.pos(posOf(d.Site))))
	}
	return strings.Join(s, ", ")
}

func c06ShortKey(k string) string {
	if i := strings.LastIndex(k, "/"); i >= 0 {
		return k[i+1:]
	}
	return k
}

func c06BuildRole(c *Ctx, name string, entry *ssa.Function) *c06Role {
	w := c.W
	r := &c06Role{Name: name, Entry: entry, Scope: map[*ssa.Function]bool{}, HHSite: map[ssa.Instruction]bool{}}
	addReach := func(roots ...*ssa.Function) bool {
		grew := false
		for f := range w.reachableFuncs(roots, 8) {
			if inModule(f) && f.Blocks != nil && !r.Scope[f] {
				r.Scope[f] = true
				grew = true
			}
		}
		return grew
	}
	addReach(entry)
	// function values called behind the entry point (step tables, key-computation callbacks,
	// bound methods) extend the scope until nothing new is found
	for round := 0; round < 4; round++ {
		wk := c06NewWalker(w, r.Scope, entry)
		grew := false
		for _, ts := range wk.dynTargets {
			if addReach(ts...) {
				grew = true
			}
		}
		if !grew {
			break
		}
	}
	for f := range r.Scope {
		r.Fns = append(r.Fns, f)
	}
	sort.Slice(r.Fns, func(i, j int) bool { return r.Fns[i].String() < r.Fns[j].String() })
	r.Wk = c06NewWalker(w, r.Scope, entry)
	r.Tables = c06StepTables(r.Fns)
	c.count("step_tables_"+name, len(r.Tables))
	r.DH = c06DHSites(r.Wk)
	for _, d := range r.DH {
		c.analysed(d.Fn)
		if d.PubKind == "eph" && d.PrivKind != "acct" {
			r.HH = append(r.HH, d)
			r.HHSite[d.Site] = true
		}
	}
	c.count("dh_sites_"+name, len(r.DH))
	return r
}

func (r *c06Role) touchesHH(p *c06Prov) bool {
	for s := range p.Sites {
		if r.HHSite[s] {
			return true
		}
	}
	return false
}

func (r *c06Role) callsKeyed(pred func(string) bool) []ssa.CallInstruction {
	var out []ssa.CallInstruction
	for _, fn := range r.Fns {
		for _, ci := range callsIn(fn, func(k string, _ *ssa.CallCommon) bool { return pred(k) }) {
			if !r.Wk.deadInstr(ci) {
				out = append(out, ci)
			}
		}
	}
	return out
}

// keyBirths: where the key values in p were created: parameters of the entry point and calls
// (not looked into) that return a PubKey.
func c06KeyBirths(c *Ctx, p *c06Prov) []string {
	var out []string
	for a := range p.Atoms {
		if a == "entry:"+c06PubKeyT || a == "entry:"+c06PrivKeyT {
			out = append(out, a)
		}
	}
	for s := range p.Sites {
		ci, ok := s.(ssa.CallInstruction)
		if !ok {
			continue
		}
		res := ci.Common().Signature().Results()
		for i := 0; i < res.Len(); i++ {
			if types.TypeString(res.At(i).Type(), nil) == c06PubKeyT {
				out = append(out, fmt.Sprintf("%s@%s", c06ShortKey(calleeKey(ci.Common())), c.pos(posOf(ci))))
			}
		}
	}
	sort.Strings(out)
	return out
}

func c06SameStrings(a, b []string) bool {
	if len(a) != len(b) {
		return false
	}
	for i := range a {
		if a[i] != b[i] {
			return false
		}
	}
	return true
}

type c06VerifySite struct {
	Site           ssa.CallInstruction
	Key, Data, Sig *c06Prov
	Why            string // empty when data and signature have the required shape
	WhyKey         string // empty when the key is the required one
}

func c06VerifyParts(ci ssa.CallInstruction) (key, data, sig ssa.Value, ok bool) {
	cc := ci.Common()
	if cc.IsInvoke() {
		if len(cc.Args) != 2 {
			return nil, nil, nil, false
		}
		return cc.Value, cc.Args[0], cc.Args[1], true
	}
	if len(cc.Args) != 3 {
		return nil, nil, nil, false
	}
	return cc.Args[0], cc.Args[1], cc.Args[2], true
}

func runC06(c *Ctx) {
	w := c.W
	entryReq := w.lookupFunc(c06PkgHS, "RequestUsingReaderWriter")
	entryResp := w.lookupFunc(c06PkgHS, "ResponseUsingReaderWriter")
	if entryReq == nil || entryReq.Blocks == nil || entryResp == nil || entryResp.Blocks == nil {
		c.undecided("D1", "handshake entry points", token.NoPos, "handshake.RequestUsingReaderWriter / ResponseUsingReaderWriter not found in %s", c06PkgHS)
		return
	}
	c.analysed(entryReq)
	c.analysed(entryResp)
	roles := []*c06Role{c06BuildRole(c, "requester", entryReq), c06BuildRole(c, "responder", entryResp)}

	for _, r := range roles {
		c06RuleD4(c, r)
		good := c06RuleD1(c, r)
		if r.Name == "responder" {
			c06RuleD2(c, r)
		}
		c06RuleD3(c, r, good)
		c06RuleD5(c, r)
	}
	c06RuleD6(c, entryReq, entryResp)
	c06RuleD7(c, roles)
	c06RuleD8(c, []*ssa.Function{entryReq, entryResp})
}

// ---- D7: the box keys are a hash of all the secrets handed to the key-derivation function.
//
// D3 establishes that the DH outputs are *passed* to whatever computes the box key. The
// function that turns them into the key (found by role: a module function on the path from a
// box Seal/Open key argument of the handshake that calls a hash primitive) must return the
// output of a hash over every byte parameter; otherwise the key is a constant or ignores one
// of the secrets, both ends still agree, and step 3 is no longer bound to the responder.
func c06RuleD7(c *Ctx, roles []*c06Role) {
	isBoxOp := func(k string) bool { return k == c06OpenAP || k == c06SealAP || k == keySBOpen || k == keySBSeal }
	isHashPrim := func(k string) bool { return c06IsHashSum(k) || c06HashFuncSize(k) > 0 || c06HashNewSize(k) > 0 }
	keyFns := map[*ssa.Function]bool{}
	nBox := 0
	for _, r := range roles {
		for _, ci := range r.callsKeyed(isBoxOp) {
			args := ci.Common().Args
			if len(args) != 4 {
				continue
			}
			nBox++
			p := r.Wk.prov(args[3])
			cands := map[*ssa.Function]bool{ci.Parent(): true}
			for f := range p.Fns {
				cands[f] = true
			}
			for f := range cands {
				if len(callsIn(f, func(k string, _ *ssa.CallCommon) bool { return isHashPrim(k) })) > 0 {
					keyFns[f] = true
				}
			}
		}
	}
	c.count("box_sites", nBox)
	if nBox == 0 {
		return // D3 reports the absence of boxes
	}
	if len(keyFns) == 0 {
		c.undecided("D7", "box key derivation", token.NoPos, "no function on the path to a handshake box key calls a hash primitive (sha256/sha512/sha3/blake2 one-shot functions and hash.Hash are modelled): the key derivation is not recognised")
		return
	}
	byteish := func(t types.Type) bool {
		for i := 0; i < 3; i++ {
			switch u := t.Underlying().(type) {
			case *types.Slice:
				t = u.Elem()
				continue
			case *types.Array:
				t = u.Elem()
				continue
			case *types.Pointer:
				t = u.Elem()
				continue
			case *types.Basic:
				return u.Kind() == types.Byte || u.Kind() == types.Uint8 || u.Info()&types.IsString != 0
			}
			return false
		}
		return false
	}
	for _, fn := range c06SortedFuncs(keyFns) {
		c.analysed(fn)
		construct := fnName(fn) + "+box key derivation"
		wk := c06NewWalker(c.W, map[*ssa.Function]bool{fn: true}, nil)
		type par struct {
			p   *ssa.Parameter
			lbl string
		}
		var pars []par
		for i, p := range fn.Params {
			if byteish(p.Type()) {
				lbl := fmt.Sprintf("P%d", i)
				wk.stop[p] = lbl
				pars = append(pars, par{p, lbl})
			}
		}
		var problems, unknown []string
		// (b) a digest that is computed and thrown away
		for _, ci := range callsIn(fn, func(k string, _ *ssa.CallCommon) bool { return c06IsHashSum(k) }) {
			v := ci.Value()
			used := false
			if v != nil && v.Referrers() != nil {
				for _, r := range *v.Referrers() {
					if _, dbg := r.(*ssa.DebugRef); !dbg {
						used = true
					}
				}
			}
			if used {
				continue
			}
			recv, arg, _ := c06SumParts(ci.Common())
			n, zero := 0, false
			if arg != nil {
				n, zero = c06ZeroLenSliceOfArray(arg)
			}
			sz := c06DigestSize(recv)
			if !zero || (sz > 0 && n < sz) {
				problems = append(problems, fmt.Sprintf("the result of Sum at %s is discarded and its argument is not a zero-length slice of an array with room for the digest: Sum appends to its argument, so the digest is lost", c.pos(posOf(ci))))
			}
		}
		// (a) what is returned is a hash output, (c) over every byte parameter
		inputs := &c06Prov{Atoms: map[string]bool{}, Sites: map[ssa.Instruction]bool{}}
		nRet := 0
		for _, ret := range returnsOf(fn) {
			if !isSuccessReturn(ret) {
				continue
			}
			for ri, res := range retResults(ret) {
				if !byteish(fn.Signature.Results().At(ri).Type()) || isNilConst(res) {
					continue
				}
				nRet++
				p := wk.prov(res)
				hs := p.sitesKeyed(func(k string) bool { return c06IsHashSum(k) || c06HashFuncSize(k) > 0 })
				if len(hs) == 0 {
					problems = append(problems, fmt.Sprintf("the value returned at %s is not the output of a hash: no digest is stored into it (sources: %v)", c.pos(posOf(ret)), p.atomList()))
					continue
				}
				for _, h := range hs {
					cc := h.Common()
					var in ssa.Value
					if c06IsHashSum(calleeKey(cc)) {
						in, _, _ = c06SumParts(cc)
					} else if len(cc.Args) > 0 {
						in = cc.Args[0]
					}
					if in == nil {
						continue
					}
					ip := wk.prov(in)
					for a := range ip.Atoms {
						inputs.Atoms[a] = true
					}
				}
			}
		}
		if nRet == 0 {
			unknown = append(unknown, "the function returns no byte value on success")
		}
		if len(problems) == 0 && nRet > 0 {
			for _, pr := range pars {
				switch {
				case inputs.has(pr.lbl) || inputs.has(pr.lbl+"[*]"):
				case inputs.has(pr.lbl+"[k]") || inputs.has(pr.lbl+"[sub]"):
					problems = append(problems, fmt.Sprintf("only part of parameter %s reaches the hash input (a fixed element or a sub-slice): the other secrets handed in do not influence the key", pr.p.Name()))
				case inputs.has(pr.lbl + "[?]"):
					unknown = append(unknown, fmt.Sprintf("parameter %s is read in a loop whose range is not recognised as covering every element", pr.p.Name()))
				default:
					problems = append(problems, fmt.Sprintf("parameter %s never reaches the hash input: it does not influence the key", pr.p.Name()))
				}
			}
		}
		switch {
		case len(problems) > 0:
			c.fail("D7", construct, fn.Pos(), "the handshake box keys are computed by %s, which does not return a hash of all its inputs: %s; both ends still derive the same key, so honest runs pass, but the step-3 box no longer binds the proof to the responder's account key (a relay can forward it)", fnName(fn), strings.Join(problems, "; "))
		case len(unknown) > 0:
			c.undecided("D7", construct, fn.Pos(), "key derivation in %s not decided: %s", fnName(fn), strings.Join(unknown, "; "))
		default:
			c.ok("D7", construct, fn.Pos(), "the box key returned is the digest of a hash fed with every byte parameter")
		}
	}
}

// ---- D4: the own secret of the transcript DH is generated in the session from crypto/rand.
func c06RuleD4(c *Ctx, r *c06Role) {
	en := fnName(r.Entry)
	if len(r.HH) == 0 {
		c.undecided("D4", en+"+ephemeral DH", r.Entry.Pos(), "no Diffie-Hellman between a key received from the peer and a non-account secret found behind the %s entry point (box.Precompute, curve25519.X25519/ScalarMult, ecdh ECDH are modelled)", r.Name)
		return
	}
	seen := map[string]bool{}
	for _, d := range r.HH {
		construct := en + "+" + c06ShortKey(calleeKey(d.Site.Common())) + "(own ephemeral)@" + fnName(d.Fn)
		if seen[construct] {
			continue
		}
		seen[construct] = true
		var bad []string
		for _, a := range d.PrivP.atomList() {
			switch {
			case a == "genkey", a == "rand", a == c06RandReader:
			case strings.HasPrefix(a, "field:"):
			default:
				bad = append(bad, a)
			}
		}
		gen := d.PrivP.sitesKeyed(func(k string) bool { return k == c06GenKey || k == c06ECDHGen || k == "crypto/rand.Read" })
		inSession := len(gen) > 0
		for _, g := range gen {
			if !r.Scope[g.Parent()] {
				inSession = false
			}
		}
		switch {
		case len(gen) == 0:
			c.fail("D4", construct, posOf(d.Site), "the secret half of the ephemeral DH is not a key generated in this session (sources: %v): a reused or predictable ephemeral makes recorded proofs replayable", d.PrivP.atomList())
		case !d.PrivP.has(c06RandReader) && !d.PrivP.has("rand"):
			c.fail("D4", construct, posOf(d.Site), "the ephemeral key is generated from a source other than crypto/rand.Reader (sources: %v)", d.PrivP.atomList())
		case len(bad) > 0 || !inSession:
			c.fail("D4", construct, posOf(d.Site), "the secret half of the ephemeral DH also derives from %v: it is not exclusively a key freshly generated from crypto/rand inside the session", bad)
		default:
			c.ok("D4", construct, posOf(d.Site), "secret half comes only from %s on crypto/rand.Reader executed inside the session", c06ShortKey(calleeKey(gen[0].Common())))
		}
	}
}

// ---- D1: proofs are verified, on the right key and transcript, and enforced up to the entry point.
func c06RuleD1(c *Ctx, r *c06Role) []*c06VerifySite {
	en := fnName(r.Entry)
	var retBirths []string
	var retProv *c06Prov
	if r.Name == "responder" {
		retProv = &c06Prov{Atoms: map[string]bool{}, Sites: map[ssa.Instruction]bool{}}
		for _, ret := range returnsOf(r.Entry) {
			if !isSuccessReturn(ret) {
				continue
			}
			res := retResults(ret)
			if len(res) == 0 {
				continue
			}
			p := r.Wk.prov(res[0])
			for a := range p.Atoms {
				retProv.Atoms[a] = true
			}
			for s := range p.Sites {
				retProv.Sites[s] = true
			}
		}
		retBirths = c06KeyBirths(c, retProv)
	}
	var sites []*c06VerifySite
	var good []*c06VerifySite
	for _, ci := range r.callsKeyed(c06IsVerify) {
		key, data, sig, ok := c06VerifyParts(ci)
		if !ok {
			continue
		}
		c.analysed(ci.Parent())
		vs := &c06VerifySite{Site: ci, Key: r.Wk.prov(key), Data: r.Wk.prov(data), Sig: r.Wk.prov(sig)}
		// data that mixes the shared secret with further bytes is still bound to the session
		if !r.touchesHH(vs.Data) {
			vs.Why = fmt.Sprintf("signed data is not the session's ephemeral shared secret (sources: %v)", vs.Data.atomList())
		}
		if vs.Why == "" && !vs.Sig.has("net") {
			vs.Why = fmt.Sprintf("signature does not come from the peer (sources: %v)", vs.Sig.atomList())
		}
		births := c06KeyBirths(c, vs.Key)
		if r.Name == "requester" {
			if !c06SameStrings(births, []string{"entry:" + c06PubKeyT}) || vs.Key.has("net") {
				vs.WhyKey = fmt.Sprintf("verification key is not exclusively the peer key the caller asked for (keys: %v; sources: %v)", births, vs.Key.atomList())
			}
		} else if !vs.Key.has("net") {
			vs.WhyKey = fmt.Sprintf("verification key is not the key the peer presented (keys: %v; sources: %v)", births, vs.Key.atomList())
		}
		sites = append(sites, vs)
		if vs.Why == "" && vs.WhyKey == "" {
			good = append(good, vs)
		}
	}
	c.count("verify_sites_"+r.Name, len(sites))
	goodSet := map[ssa.Instruction]bool{}
	for _, vs := range good {
		goodSet[vs.Site] = true
	}
	g := c06NewGuard(c.W, func(fn *ssa.Function, in ssa.Instruction) ([]edge, []ssa.Value) {
		ci, ok := in.(ssa.CallInstruction)
		if !ok || !goodSet[in] {
			return nil, nil
		}
		if v := boolVerdict(ci); v != nil {
			return nil, []ssa.Value{v}
		}
		return nil, nil
	})
	g.role = r
	construct := en + "+Verify(peer proof)"
	var whys, keyWhys []string
	for _, vs := range sites {
		switch {
		case vs.Why != "":
			whys = append(whys, c06Describe(c, vs.Site)+": "+vs.Why)
		case vs.WhyKey != "":
			whys = append(whys, c06Describe(c, vs.Site)+": "+vs.WhyKey)
			keyWhys = append(keyWhys, c06Describe(c, vs.Site)+": "+vs.WhyKey)
		}
	}
	switch {
	case len(good) == 0:
		c.fail("D1", construct, r.Entry.Pos(), "the %s never verifies the peer's signature over the ephemeral shared secret with the right key; %s", r.Name, strings.Join(whys, "; "))
	case !g.isVerifier(r.Entry):
		where := "the verdict is discarded or not propagated"
		for _, vs := range good {
			fn := vs.Site.Parent()
			if by := g.bypass(fn); len(by) > 0 {
				where = fmt.Sprintf("%s returns success at %s without the Verify having accepted", fnName(fn), describeReturns(c, by))
			} else if boolVerdict(vs.Site) == nil {
				where = fmt.Sprintf("the boolean result of Verify in %s is discarded", fnName(fn))
			}
		}
		if by := g.bypass(r.Entry); len(by) > 0 && len(good) > 0 && g.isVerifier(good[0].Site.Parent()) {
			where = fmt.Sprintf("%s reaches its success return at %s without the verifying step having succeeded", en, describeReturns(c, by))
		}
		c.fail("D1", construct, r.Entry.Pos(), "a success return of the %s entry point is reachable without an accepted Verify of the peer's proof: %s", r.Name, where)
	default:
		c.ok("D1", construct, r.Entry.Pos(), "every success return is reached only through Verify(ephemeral shared secret, peer signature)==true in %s", fnName(good[0].Site.Parent()))
	}
	// key relation
	if r.Name == "requester" {
		c.check(len(keyWhys) == 0, "D1", en+"+verified key", r.Entry.Pos(), "every Verify of the peer's proof uses the peer key parameter only, nothing received", "the responder's proof is checked against a key other than the one the caller intends to reach: "+strings.Join(keyWhys, "; "))
	} else {
		match := false
		for _, vs := range good {
			if c06SameStrings(c06KeyBirths(c, vs.Key), retBirths) && len(retBirths) > 0 {
				match = true
			}
		}
		msg := fmt.Sprintf("the key returned on success (created at %v) is not exactly the key whose proof was verified", retBirths)
		if len(good) > 0 {
			msg += fmt.Sprintf(" (verified: %v)", c06KeyBirths(c, good[0].Key))
		}
		c.check(match, "D1", en+"+returned key", r.Entry.Pos(), "the key returned on success is the key whose proof was verified", msg)
	}
	return good
}

// ---- D2: the acknowledge is read and must say success.
func c06RuleD2(c *Ctx, r *c06Role) {
	en := fnName(r.Entry)
	ackT := namedType(c.W, c06PkgHS, "RequesterAcknowledgePayload")
	if ackT == nil {
		c.undecided("D2", en+"+acknowledge", r.Entry.Pos(), "wire type handshake.RequesterAcknowledgePayload not found")
		return
	}
	type ackRead struct {
		site ssa.CallInstruction
		vs   []ssa.Value
	}
	var reads []ackRead
	byCall := map[ssa.Instruction][]ssa.Value{}
	for _, ci := range r.callsKeyed(c06IsReadMsg) {
		args := ci.Common().Args
		if len(args) != 1 {
			continue
		}
		msg := stripConv(args[0])
		pt, ok := msg.Type().Underlying().(*types.Pointer)
		if !ok || !types.Identical(pt.Elem(), ackT) {
			continue
		}
		c.analysed(ci.Parent())
		ar := ackRead{site: ci}
		// reads of .Success of the same message in the same function, after the read
		for _, b := range ci.Parent().Blocks {
			for _, in := range b.Instrs {
				v, ok := in.(ssa.Value)
				if !ok {
					continue
				}
				if lp, ok := accessPathLocal(v); ok && lp.Base == msg && lp.Path == ".Success" {
					ar.vs = append(ar.vs, v)
				}
			}
		}
		reads = append(reads, ar)
		byCall[ci] = ar.vs
	}
	construct := en + "+acknowledge.Success"
	if len(reads) == 0 {
		c.fail("D2", construct, r.Entry.Pos(), "the responder never reads the requester's acknowledge: it reports the peer before the requester accepted")
		return
	}
	g := c06NewGuard(c.W, func(fn *ssa.Function, in ssa.Instruction) ([]edge, []ssa.Value) { return nil, byCall[in] })
	g.role = r
	tested := false
	for _, ar := range reads {
		if len(ar.vs) > 0 {
			tested = true
		}
	}
	switch {
	case !tested:
		c.fail("D2", construct, posOf(reads[0].site), "the acknowledge is read in %s but its Success flag is never looked at: a negative acknowledge is accepted", fnName(reads[0].site.Parent()))
	case !g.isVerifier(r.Entry):
		where := ""
		for _, ar := range reads {
			if by := g.bypass(ar.site.Parent()); len(by) > 0 {
				where = fmt.Sprintf("%s returns success at %s without Success==true", fnName(ar.site.Parent()), describeReturns(c, by))
			}
		}
		if where == "" {
			where = fmt.Sprintf("%s reaches its success return at %s without the acknowledge step having succeeded", en, describeReturns(c, g.bypass(r.Entry)))
		}
		c.fail("D2", construct, posOf(reads[0].site), "the responder reports the peer without a positive acknowledge: %s", where)
	default:
		c.ok("D2", construct, posOf(reads[0].site), "the key is returned only after the acknowledge was read and Success was true")
	}
}

// ---- D3: the proof travels in a box bound to the responder's account key.
func c06RuleD3(c *Ctx, r *c06Role, good []*c06VerifySite) {
	en := fnName(r.Entry)
	isOpen := func(k string) bool { return k == c06OpenAP || k == keySBOpen }
	isSeal := func(k string) bool { return k == c06SealAP || k == keySBSeal }
	dhBySite := map[ssa.Instruction]*c06DH{}
	for _, d := range r.DH {
		dhBySite[d.Site] = d
	}
	keyKinds := func(keyArg ssa.Value) (map[string]*c06DH, *c06Prov) {
		p := r.Wk.prov(keyArg)
		kinds := map[string]*c06DH{}
		for s := range p.Sites {
			if d := dhBySite[s]; d != nil {
				kinds[d.kind()] = d
			}
		}
		return kinds, p
	}
	kindList := func(m map[string]*c06DH) []string {
		var s []string
		for k := range m {
			s = append(s, k)
		}
		sort.Strings(s)
		return s
	}
	if r.Name == "responder" {
		construct := en + "+proof box key"
		if len(good) == 0 {
			c.fail("D3", construct, r.Entry.Pos(), "no verified proof to trace back to a box (see D1)")
			return
		}
		for _, vs := range good {
			opens := map[ssa.CallInstruction]bool{}
			missing := ""
			for _, part := range []struct {
				name string
				p    *c06Prov
			}{{"signature", vs.Sig}, {"account key", vs.Key}} {
				os := part.p.sitesKeyed(isOpen)
				if len(os) == 0 && missing == "" {
					missing = part.name
				}
				for _, o := range os {
					opens[o] = true
				}
			}
			if missing != "" {
				c.fail("D3", construct, posOf(vs.Site), "the %s the responder verifies is not taken from the plaintext of an opened box: a proof made for another responder can be relayed", missing)
				continue
			}
			okAll := true
			for o := range opens {
				c.analysed(o.Parent())
				args := o.Common().Args
				if len(args) != 4 {
					continue
				}
				kinds, kp := keyKinds(args[3])
				d := kinds["eph*acct"]
				if d == nil || !d.PrivP.has("entry:"+c06PrivKeyT) {
					okAll = false
					c.fail("D3", construct, posOf(o), "the key of the box carrying the requester's proof (opened in %s) does not mix DH(peer ephemeral, own account key) (DH inputs found: %v; other sources: %v): any responder could open it, so a proof addressed to someone else can be relayed here", fnName(o.Parent()), kindList(kinds), kp.atomList())
				}
			}
			if okAll {
				c.ok("D3", construct, posOf(vs.Site), "the verified proof is the plaintext of a box whose key mixes DH(peer ephemeral, own account key)")
			}
		}
		return
	}
	// requester: the seal that carries its signature
	construct := en + "+proof box key"
	n := 0
	for _, ci := range r.callsKeyed(isSeal) {
		args := ci.Common().Args
		if len(args) != 4 {
			continue
		}
		mp := r.Wk.prov(args[1])
		signs := mp.sitesKeyed(c06IsSign)
		if len(signs) == 0 {
			continue
		}
		n++
		c.analysed(ci.Parent())
		kinds, kp := keyKinds(args[3])
		d := kinds["acct*own"]
		okk := d != nil && c06SameStrings(c06KeyBirths(c, d.PubP), []string{"entry:" + c06PubKeyT}) && !d.PubP.has("net")
		c.check(okk, "D3", construct, posOf(ci), "the requester's proof is sealed under a key mixing DH(own ephemeral, intended account key)",
			fmt.Sprintf("the box carrying the requester's proof (sealed in %s) is not keyed with DH(own ephemeral, intended peer account key) (DH inputs found: %v; other sources: %v): a peer other than the intended one can open it", fnName(ci.Parent()), kindList(kinds), kp.atomList()))
	}
	if n == 0 {
		c.fail("D3", construct, r.Entry.Pos(), "the requester's signature is not sent inside a box: whoever answers learns a proof it can relay")
	}
}

// ---- D5: degenerate points.
func c06RuleD5(c *Ctx, r *c06Role) {
	en := fnName(r.Entry)
	construct := en + "+peer ephemeral point"
	var tainted []*c06DH
	for _, d := range r.DH {
		if d.PubKind == "eph" && !d.Checked {
			tainted = append(tainted, d)
		}
	}
	if len(tainted) == 0 {
		c.ok("D5", construct, r.Entry.Pos(), "every DH on a peer-supplied point uses an API that rejects low-order points")
		return
	}
	// validators: (i) contributory APIs applied to the received point; (ii) an equality test
	// between the received point (or a DH output computed from it) and data the peer does not
	// control, whose equal side rejects (all-zero / degenerate-key test)
	valid := map[ssa.Instruction]bool{}
	for _, d := range r.DH {
		if d.Checked && d.PubKind == "eph" {
			valid[d.Site] = true
		}
	}
	taintedSite := map[ssa.Instruction]bool{}
	for _, d := range r.DH {
		if d.PubKind == "eph" {
			taintedSite[d.Site] = true
		}
	}
	cmpAccept := map[ssa.Instruction][]edge{}
	var cmps []ssa.Instruction
	for _, fn := range r.Fns {
		if p := fnPkg(fn); p == nil || (p.Path() != c06PkgHS && !strings.HasSuffix(p.Path(), "/pkg/cryptoutil")) {
			continue
		}
		for _, cmp := range c06Comparisons(fn, false) {
			if r.Wk.deadInstr(cmp.In) {
				continue
			}
			px, py := r.Wk.prov(cmp.X), r.Wk.prov(cmp.Y)
			fromPeer := func(p *c06Prov) bool {
				if p.has("net") && !p.has("T:PubKey") {
					return true
				}
				for s := range p.Sites {
					if taintedSite[s] {
						return true
					}
				}
				return false
			}
			if fromPeer(px) == fromPeer(py) {
				continue
			}
			// the equal side must reject
			rejects := len(cmp.Eq) > 0
			region := reachFromEdges(cmp.Eq, nil)
			for _, ret := range returnsOf(fn) {
				if region[ret.Block()] && isSuccessReturn(ret) {
					rejects = false
				}
			}
			if !rejects {
				continue
			}
			cmps = append(cmps, cmp.In)
			cmpAccept[cmp.In] = cmp.Ne
			c.analysed(fn)
		}
	}
	g := c06NewGuard(c.W, func(fn *ssa.Function, in ssa.Instruction) ([]edge, []ssa.Value) {
		if es, ok := cmpAccept[in]; ok {
			return es, nil
		}
		ci, ok := in.(ssa.CallInstruction)
		if !ok || !valid[in] {
			return nil, nil
		}
		if v := errVerdict(ci); v != nil {
			return nil, []ssa.Value{v}
		}
		return nil, nil
	})
	g.role = r
	// signatures over the transcript must not be produced before the check
	var targets []ssa.CallInstruction
	for _, ci := range r.callsKeyed(c06IsSign) {
		args := ci.Common().Args
		if len(args) == 0 {
			continue
		}
		if r.touchesHH(r.Wk.prov(args[len(args)-1])) {
			targets = append(targets, ci)
		}
	}
	c.count("transcript_sign_sites_"+r.Name, len(targets))
	have := len(valid)+len(cmps) > 0
	enforced := have && g.isVerifier(r.Entry)
	early := ""
	if enforced {
		for _, t := range targets {
			if !g.passBefore(r.Entry, t, r.Scope, map[*ssa.Function]bool{}) {
				early = fnName(t.Parent())
			}
		}
	}
	pre := fmt.Sprintf("the X25519 point received in the peer's hello reaches %s", c06SiteNames(c, tainted))
	post := "with a low-order point the shared secret both sides sign is a constant, so a signature obtained in one session proves possession in every other (cross-session replay of the proof)"
	switch {
	case enforced && early == "":
		how := "a DH API that errors on low-order input"
		if len(valid) == 0 {
			how = "a rejecting equality test on the received point / the shared secret computed from it (the reference value itself is not decided)"
		}
		c.ok("D5", construct, r.Entry.Pos(), "the received point passes %s before any signature over the shared secret is produced and before success", how)
	case !have:
		c.fail("D5", construct, posOf(tainted[0].Site), "%s without any contributory check: %s", pre, post)
	case enforced:
		c.fail("D5", construct, posOf(tainted[0].Site), "%s and is validated only after the %s has already signed the shared secret in %s: %s", pre, r.Name, early, post)
	case len(valid) == 0:
		c.undecided("D5", construct, posOf(cmps[0]), "a comparison on the received point in %s (%s) looks like a low-order check but a success return of the %s entry point is reachable without its rejecting side having been avoided; loops over a blacklist are not modelled — use an API that errors on low-order input", fnName(cmps[0].Parent()), c.pos(posOf(cmps[0])), r.Name)
	default:
		c.fail("D5", construct, posOf(tainted[0].Site), "%s; a low-order-rejecting call exists but its error is discarded or a success return is reachable without it having succeeded: %s", pre, post)
	}
}

// ---- D6: the callers of the handshake.
func c06RuleD6(c *Ctx, entryReq, entryResp *ssa.Function) {
	w := c.W
	scT := namedType(w, pkgTypes, "ShareableContact")
	appendFn := w.lookupMethod(pkgRoot, "MetadataStore", "ContactRequestIncomingReceived")
	sentFn := w.lookupMethod(pkgRoot, "MetadataStore", "ContactRequestOutgoingSent")
	if scT == nil || appendFn == nil || sentFn == nil {
		c.undecided("D6", "contact request manager", token.NoPos, "protocoltypes.ShareableContact / MetadataStore.ContactRequestIncomingReceived / ContactRequestOutgoingSent not found")
		return
	}
	// anchorsIn: the call instructions of h through which target is reached
	anchorsIn := func(h *ssa.Function, target *ssa.Function, skip *ssa.Function) []ssa.CallInstruction {
		var out []ssa.CallInstruction
		for _, b := range h.Blocks {
			for _, in := range b.Instrs {
				ci, ok := in.(ssa.CallInstruction)
				if !ok {
					continue
				}
				for _, callee := range w.resolve(ci.Common(), nil) {
					if callee == skip || !inModule(callee) {
						continue
					}
					if callee == target {
						out = append(out, ci)
						break
					}
					if p := fnPkg(callee); p != nil && p.Path() == pkgRoot && callee != h {
						if _, ok := w.reachableFuncs([]*ssa.Function{callee}, 2)[target]; ok && staticCallee(ci.Common()) != nil {
							out = append(out, ci)
							break
						}
					}
				}
			}
		}
		return out
	}
	dominatedBy := func(edges []edge, in ssa.Instruction) bool {
		for _, e := range edges {
			if edgeDominates(e, in.Block()) {
				return true
			}
		}
		return false
	}

	// ---------- responder side
	nResp := 0
	for _, cs := range w.callGraph().callers[entryResp] {
		h := cs.Caller
		hs, ok := cs.Instr.(*ssa.Call)
		if !ok || !inModule(h) || fnPkg(h).Path() == c06PkgHS {
			continue
		}
		nResp++
		c.analysed(h)
		hn := fnName(h)
		errv := errVerdict(hs)
		keyv := resultValue(hs, 0)
		anchors := anchorsIn(h, appendFn, entryResp)
		if len(anchors) == 0 {
			c.note("%s runs the responder handshake but never records an incoming request", hn)
			continue
		}
		var acc []edge
		if errv != nil {
			acc = edgesOfVerdict(errv).Accept
		}
		okA := errv != nil && keyv != nil
		for _, a := range anchors {
			if !dominatedBy(acc, a) {
				okA = false
			}
		}
		c.check(okA, "D6", hn+"+record after handshake", posOf(hs), "the incoming request is recorded only on the nil-error side of the responder handshake",
			"ContactRequestIncomingReceived is reachable although the responder handshake failed (error discarded or not tested): an unauthenticated peer is recorded")
		if keyv == nil {
			continue
		}
		// provenance inside the handler, the handshake result being an atom
		scope := map[*ssa.Function]bool{h: true}
		for f := range w.reachableFuncs([]*ssa.Function{h}, 2) {
			if p := fnPkg(f); p != nil && p.Path() == pkgRoot && f.Blocks != nil {
				scope[f] = true
			}
		}
		wk := c06NewWalker(w, scope, h)
		wk.stop[keyv] = "hs-key"
		isAnnounced := func(p *c06Prov) bool {
			return p.has("net") && !p.has("hs-key") && p.has("field:ShareableContact.Pk")
		}
		isAuth := func(p *c06Prov) bool { return p.has("hs-key") && !p.has("net") }
		// equality tests between the authenticated key and the announced key
		var eqAccept []edge
		var eqSites []ssa.Instruction
		for _, cmp := range c06Comparisons(h, true) {
			px, py := wk.prov(cmp.X), wk.prov(cmp.Y)
			if !(isAuth(px) && isAnnounced(py) || isAuth(py) && isAnnounced(px)) {
				continue
			}
			eqSites = append(eqSites, cmp.In)
			eqAccept = append(eqAccept, cmp.Eq...)
		}
		// ... or a helper that performs the comparison: its summary says which parameter is the
		// key and which the contact; the caller must pass the authenticated key and the received
		// contact, and the nil-error side of the call is the equal side
		nHelpers := 0
		for _, b := range h.Blocks {
			for _, in := range b.Instrs {
				call, ok := in.(*ssa.Call)
				if !ok {
					continue
				}
				g := staticCallee(call.Common())
				if g == nil || g == h || g == entryResp || g.Blocks == nil || !inModule(g) {
					continue
				}
				args := call.Common().Args
				for _, sm := range c06KeyEqSummary(w, g, 2, map[*ssa.Function]bool{}) {
					if sm.Key >= len(args) || sm.Contact >= len(args) {
						continue
					}
					pk, pc := wk.prov(args[sm.Key]), wk.prov(args[sm.Contact])
					if !isAuth(pk) || !pc.has("net") || pc.has("hs-key") {
						continue
					}
					nHelpers++
					c.analysed(g)
					eqSites = append(eqSites, in)
					if v := errVerdict(call); v != nil {
						eqAccept = append(eqAccept, edgesOfVerdict(v).Accept...)
					}
				}
			}
		}
		c.count("key_equality_helpers", nHelpers)
		okB := len(eqSites) > 0
		for _, a := range anchors {
			if !dominatedBy(eqAccept, a) {
				okB = false
			}
		}
		msgB := "the announced ShareableContact.Pk is never compared for equality with the key authenticated by the handshake before the request is recorded"
		if len(eqSites) > 0 {
			msgB = fmt.Sprintf("the equality test between announced and authenticated key (%s) does not guard the recording: ContactRequestIncomingReceived is reachable when they differ", c.pos(posOf(eqSites[0])))
		}
		c.check(okB, "D6", hn+"+announced key == authenticated key", posOf(hs), "the request is recorded only on the equal side of a comparison between the announced Pk and the authenticated key", msgB)
		// the recorded key
		for _, fn := range c06SortedFuncs(scope) {
			for _, ci := range callsIn(fn, func(_ string, cc *ssa.CallCommon) bool { return staticCallee(cc) == appendFn }) {
				args := ci.Common().Args
				if len(args) != 3 {
					continue
				}
				p := wk.fieldProv(args[2], "Pk")
				okC := isAuth(p) || (p.has("net") && p.has("field:ShareableContact.Pk") && okB)
				c.check(okC, "D6", fnName(fn)+"+recorded key", posOf(ci), "the recorded contact key is the authenticated key (or the announced one proven equal to it)",
					fmt.Sprintf("the contact recorded by ContactRequestIncomingReceived carries a key that is not the one authenticated by the handshake (sources: %v)", p.atomList()))
			}
		}
	}
	if nResp == 0 {
		c.undecided("D6", "responder handler", token.NoPos, "no module function outside internal/handshake calls ResponseUsingReaderWriter")
	}

	// ---------- requester side
	c06RuleD6Sent(c, entryReq, sentFn)
}

// c06ResolveSpill looks through the result spill of functions with defer, also when the named
// result lives on the heap because a deferred closure reads it (retResults gives up there):
// the value returned is the last one stored in the returning block, provided no closure or
// callee can write the result variable.
func c06ResolveSpill(v ssa.Value) ssa.Value {
	for i := 0; i < 4; i++ {
		ld, ok := v.(*ssa.UnOp)
		if !ok || ld.Op != token.MUL {
			return v
		}
		al, ok := ld.X.(*ssa.Alloc)
		if !ok || al.Referrers() == nil {
			return v
		}
		for _, r := range *al.Referrers() {
			switch u := r.(type) {
			case *ssa.Store:
				if u.Val == ssa.Value(al) {
					return v
				}
			case *ssa.UnOp, *ssa.DebugRef:
			case *ssa.MakeClosure:
				f, _ := u.Fn.(*ssa.Function)
				for bi, b := range u.Bindings {
					if b != ssa.Value(al) || f == nil || bi >= len(f.FreeVars) || f.FreeVars[bi].Referrers() == nil {
						continue
					}
					for _, r2 := range *f.FreeVars[bi].Referrers() {
						if _, isLoad := r2.(*ssa.UnOp); !isLoad {
							if _, dbg := r2.(*ssa.DebugRef); !dbg {
								return v
							}
						}
					}
				}
			default:
				return v
			}
		}
		var last ssa.Value
		for _, in := range ld.Block().Instrs {
			if in == ssa.Instruction(ld) {
				break
			}
			if st, ok := in.(*ssa.Store); ok && st.Addr == ssa.Value(al) {
				last = st.Val
			}
		}
		if last == nil {
			return v
		}
		v = last
	}
	return v
}

// c06BypassReturns is bypassReturns with c06ResolveSpill applied to the returned error.
func c06BypassReturns(fn *ssa.Function, accept []edge, verdicts []ssa.Value) []*ssa.Return {
	cut := map[edge]bool{}
	for _, e := range accept {
		cut[e] = true
	}
	r := reach(fn.Blocks[0], cut)
	idx := errResultIndex(fn.Signature)
	var out []*ssa.Return
	for _, ret := range returnsOf(fn) {
		if !r[ret.Block()] {
			continue
		}
		if idx < 0 || idx >= len(ret.Results) {
			out = append(out, ret)
			continue
		}
		ev := c06ResolveSpill(ret.Results[idx])
		tail := false
		for _, v := range verdicts {
			if ev == v {
				tail = true
			}
		}
		if tail {
			continue
		}
		if !definitelyNonNilErr(ev, ret.Block(), 0) {
			out = append(out, ret)
		}
	}
	return out
}

// c06RuleD6Sent: every place of the module (outside the metadata store itself) that marks a
// contact request as sent does so only after a requester handshake succeeded, for that key.
func c06RuleD6Sent(c *Ctx, entryReq, sentFn *ssa.Function) {
	w := c.W
	// the requester handshake's nil error is the accepting outcome; callees all of whose
	// success returns lie behind it carry the guarantee to their callers
	g := c06NewGuard(w, func(fn *ssa.Function, in ssa.Instruction) ([]edge, []ssa.Value) {
		call, ok := in.(*ssa.Call)
		if !ok || staticCallee(call.Common()) != entryReq {
			return nil, nil
		}
		if v := errVerdict(call); v != nil {
			return nil, []ssa.Value{v}
		}
		return nil, nil
	})
	var recvT types.Type
	if r := sentFn.Signature.Recv(); r != nil {
		recvT = r.Type()
	}
	ownMethod := func(fn *ssa.Function) bool {
		for f := fn; f != nil; f = f.Parent() {
			if r := f.Signature.Recv(); r != nil && recvT != nil && types.Identical(r.Type(), recvT) {
				return true
			}
		}
		return false
	}
	// scope for the key comparison: the root-package functions from which the handshake is
	// reached, and the functions that mark
	scope := map[*ssa.Function]bool{}
	var hsCalls []*ssa.Call
	q := []*ssa.Function{entryReq}
	seen := map[*ssa.Function]bool{entryReq: true}
	for len(q) > 0 {
		f := q[0]
		q = q[1:]
		for _, cs := range w.callGraph().callers[f] {
			if p := fnPkg(cs.Caller); p == nil || p.Path() != pkgRoot {
				continue
			}
			if f == entryReq {
				if call, ok := cs.Instr.(*ssa.Call); ok {
					hsCalls = append(hsCalls, call)
				}
			}
			if !seen[cs.Caller] {
				seen[cs.Caller] = true
				scope[cs.Caller] = true
				q = append(q, cs.Caller)
			}
		}
	}
	if len(hsCalls) == 0 {
		c.undecided("D6", "requester caller", token.NoPos, "no function of the root package calls RequestUsingReaderWriter")
		return
	}
	var sites []ssa.CallInstruction
	for _, fn := range w.ModFuncs {
		if !inModule(fn) || ownMethod(fn) {
			continue
		}
		for _, ci := range callsIn(fn, func(_ string, cc *ssa.CallCommon) bool { return staticCallee(cc) == sentFn }) {
			sites = append(sites, ci)
			for f := fn; f != nil; f = f.Parent() {
				scope[f] = true
			}
		}
	}
	c.count("mark_sent_sites", len(sites))
	if len(sites) == 0 {
		c.undecided("D6", "mark sent", token.NoPos, "no function outside the metadata store calls ContactRequestOutgoingSent: where an outgoing request becomes 'sent' is not recognised")
		return
	}
	wk := c06NewWalker(w, scope, nil)
	keyDesc := func(p *c06Prov) []string { return append(c06KeyBirths(c, p), p.atomList()...) }
	for _, s := range sites {
		fn := s.Parent()
		c.analysed(fn)
		hn := fnName(fn)
		acc, _ := g.accept(fn)
		guarded := len(acc) > 0 && c06GuardedWithPhis(fn, acc, s)
		why := "no requester handshake (or callee that returns nil only after one) is run in this function before the call"
		if len(acc) > 0 {
			why = "the call is reachable without the accepting side of the handshake's error having been taken (error discarded, not tested, or tested through a variable that may still hold its initial nil — a loop that runs zero times)"
		}
		c.check(guarded, "D6", hn+"+sent after handshake", posOf(s), "the request is marked sent only on the nil-error side of the requester handshake",
			"ContactRequestOutgoingSent is reachable although no requester handshake succeeded: "+why+"; the request counts as delivered to a peer that did not prove the intended key")
		sa := s.Common().Args
		okK := len(sa) == 3
		if okK {
			a := wk.prov(sa[2])
			for _, hs := range hsCalls {
				ha := hs.Common().Args
				if len(ha) == 0 {
					continue
				}
				if stripConv(sa[2]) == stripConv(ha[len(ha)-1]) {
					continue
				}
				if b := wk.prov(ha[len(ha)-1]); !c06SameStrings(keyDesc(a), keyDesc(b)) {
					okK = false
				}
			}
		}
		c.check(okK, "D6", hn+"+sent key", posOf(s), "the key marked as sent is the key the handshake authenticated", "ContactRequestOutgoingSent is given a different key than the one passed to the handshake")
	}
}

// c06GuardedWithPhis: target executes only after one of the accepting edges acc was taken.
// Besides plain reachability, a test of a phi (a flag or an error variable assigned on several
// paths) counts as accepting when every incoming value that can satisfy the test arrives from
// a block that is itself only reachable behind an accepting edge. An error variable that may
// still hold its initial nil therefore does not count.
func c06GuardedWithPhis(fn *ssa.Function, acc []edge, target ssa.Instruction) bool {
	cut := map[edge]bool{}
	for _, e := range acc {
		cut[e] = true
	}
	var mayAccept func(v ssa.Value, seen map[*ssa.Phi]bool) bool
	mayAccept = func(v ssa.Value, seen map[*ssa.Phi]bool) bool {
		switch x := v.(type) {
		case *ssa.Const:
			if b, ok := constBool(x); ok {
				return b
			}
			return x.Value == nil // nil error / nil pointer: the accepting value
		case *ssa.Phi:
			if seen[x] {
				return false
			}
			seen[x] = true
			for _, e := range x.Edges {
				if mayAccept(e, seen) {
					return true
				}
			}
			return false
		}
		if isErrorType(v.Type()) && definitelyNonNilErr(v, nil, 0) {
			return false
		}
		return true
	}
	phiOf := func(cond ssa.Value) *ssa.Phi {
		for i := 0; i < 3; i++ {
			switch x := cond.(type) {
			case *ssa.Phi:
				return x
			case *ssa.UnOp:
				if x.Op != token.NOT {
					return nil
				}
				cond = x.X
			case *ssa.BinOp:
				if x.Op != token.EQL && x.Op != token.NEQ {
					return nil
				}
				if _, isC := x.Y.(*ssa.Const); isC {
					cond = x.X
				} else if _, isC := x.X.(*ssa.Const); isC {
					cond = x.Y
				} else {
					return nil
				}
			default:
				return nil
			}
		}
		return nil
	}
	for iter := 0; iter < 8; iter++ {
		open := reach(fn.Blocks[0], cut)
		changed := false
		for _, b := range fn.Blocks {
			if !open[b] || len(b.Instrs) == 0 {
				continue
			}
			ifi, ok := b.Instrs[len(b.Instrs)-1].(*ssa.If)
			if !ok {
				continue
			}
			p := phiOf(ifi.Cond)
			if p == nil {
				continue
			}
			onTrue, ok := condPolarity(ifi.Cond, p, 0)
			if !ok {
				continue
			}
			e := edge{b, b.Succs[1]}
			if onTrue {
				e = edge{b, b.Succs[0]}
			}
			if cut[e] {
				continue
			}
			justified := true
			for i, v := range p.Edges {
				pred := p.Block().Preds[i]
				if mayAccept(v, map[*ssa.Phi]bool{p: true}) && open[pred] && !cut[edge{pred, p.Block()}] {
					justified = false
				}
			}
			if justified {
				cut[e] = true
				changed = true
			}
		}
		if !changed {
			break
		}
	}
	return !reach(fn.Blocks[0], cut)[target.Block()]
}

// ---- D8: one buffered reader per stream.
//
// The handshake reads its frames through a protoio reader; the varint-delimited reader owns
// a bufio.Reader, which may already hold the bytes of the frame that follows the handshake
// (acknowledge and contact arrive in one segment). Reading what follows through a second
// reader over the same stream then blocks although both parties are honest: the handshake
// completes on one side and the request is never recorded on the other.
func c06RuleD8(c *Ctx, entries []*ssa.Function) {
	w := c.W
	pio := w.pkg(modulePath + "/pkg/protoio")
	if pio == nil {
		c.undecided("D8", "protoio", token.NoPos, "package pkg/protoio not found")
		return
	}
	var readerI *types.Interface
	if o := pio.Pkg.Scope().Lookup("Reader"); o != nil {
		readerI, _ = o.Type().Underlying().(*types.Interface)
	}
	if readerI == nil {
		c.undecided("D8", "protoio.Reader", token.NoPos, "interface protoio.Reader not found")
		return
	}
	// reader constructors: exported functions of protoio taking an io.Reader first and returning a Reader
	ctors := map[*ssa.Function]bool{}
	buffered := map[*ssa.Function]bool{}
	for _, m := range pio.Members {
		fn, ok := m.(*ssa.Function)
		if !ok || fn.Blocks == nil || fn.Signature.Params().Len() == 0 || fn.Signature.Results().Len() != 1 {
			continue
		}
		if types.TypeString(fn.Signature.Params().At(0).Type(), nil) != "io.Reader" || !types.Implements(fn.Signature.Results().At(0).Type(), readerI) {
			continue
		}
		ctors[fn] = true
		for f := range w.reachableFuncs([]*ssa.Function{fn}, 2) {
			if len(callsIn(f, func(k string, _ *ssa.CallCommon) bool { return k == "bufio.NewReader" || k == "bufio.NewReaderSize" })) > 0 {
				buffered[fn] = true
			}
		}
	}
	c.count("protoio_reader_constructors", len(ctors))
	n := 0
	for _, entry := range entries {
		for _, cs := range w.callGraph().callers[entry] {
			h := cs.Caller
			hs, ok := cs.Instr.(*ssa.Call)
			if !ok || !inModule(h) || fnPkg(h).Path() == c06PkgHS {
				continue
			}
			n++
			c.analysed(h)
			construct := fnName(h) + "+stream reader"
			scope := map[*ssa.Function]bool{h: true}
			for f := range w.reachableFuncs([]*ssa.Function{h}, 2) {
				if p := fnPkg(f); p != nil && p.Path() == pkgRoot && f.Blocks != nil {
					scope[f] = true
				}
			}
			wk := c06NewWalker(w, scope, h)
			type site struct {
				call *ssa.Call
				key  string
			}
			var sites []site
			for _, fn := range c06SortedFuncs(scope) {
				for _, ci := range callsIn(fn, func(_ string, cc *ssa.CallCommon) bool { return ctors[staticCallee(cc)] }) {
					call, ok := ci.(*ssa.Call)
					if !ok || len(call.Common().Args) == 0 {
						continue
					}
					sites = append(sites, site{call: call})
				}
			}
			for i := range sites {
				wk.stop[sites[i].call] = fmt.Sprintf("reader#%d", i)
			}
			for i := range sites {
				p := wk.prov(sites[i].call.Common().Args[0])
				var pos []string
				for _, s := range p.sitesKeyed(func(string) bool { return true }) {
					pos = append(pos, c.pos(posOf(s)))
				}
				sites[i].key = strings.Join(p.atomList(), ",") + "|" + strings.Join(pos, ",")
			}
			// the reader handed to the handshake
			var rd ssa.Value
			for _, a := range hs.Common().Args {
				if types.Implements(a.Type(), readerI) {
					rd = a
					break
				}
			}
			if rd == nil {
				c.undecided("D8", construct, posOf(hs), "no argument of the handshake call is a protoio.Reader")
				continue
			}
			rp := wk.prov(rd)
			mine := -1
			for i := range sites {
				if rp.has(fmt.Sprintf("reader#%d", i)) {
					if mine >= 0 {
						mine = -2 // several candidates
						break
					}
					mine = i
				}
			}
			switch {
			case mine == -1 && len(sites) == 0:
				c.ok("D8", construct, posOf(hs), "the handshake's reader is handed in by the caller and no other reader is constructed here")
			case mine < 0:
				c.undecided("D8", construct, posOf(hs), "the reader given to the handshake cannot be traced to one constructor call (%d constructions in reach): stream ownership not decided", len(sites))
			default:
				var others []string
				anyBuf := buffered[staticCallee(sites[mine].call.Common())]
				for i := range sites {
					if i == mine {
						continue
					}
					same := sites[i].key == sites[mine].key || stripConv(sites[i].call.Common().Args[0]) == stripConv(sites[mine].call.Common().Args[0])
					if same {
						others = append(others, fmt.Sprintf("%s at %s", c06ShortKey(calleeKey(sites[i].call.Common())), c.pos(posOf(sites[i].call))))
						if buffered[staticCallee(sites[i].call.Common())] {
							anyBuf = true
						}
					}
				}
				c.check(len(others) == 0 || !anyBuf, "D8", construct, posOf(sites[mine].call),
					fmt.Sprintf("one reader (%s) is constructed over the stream and used by the handshake and after it", c06ShortKey(calleeKey(sites[mine].call.Common()))),
					fmt.Sprintf("a second reader is constructed over the stream the handshake reads from (%s): the handshake's buffered reader may already hold the bytes of the next frame, so reading it through another reader blocks — honest parties, handshake complete on both sides, but the request is never recorded", strings.Join(others, ", ")))
			}
		}
	}
	if n == 0 {
		c.undecided("D8", "handshake callers", token.NoPos, "no module function outside internal/handshake calls the handshake entry points")
	}
}

// c06EqSummary: every success return of the summarised function is reached only on the equal
// side of a comparison between (bytes derived from) parameter Key and the Pk field of the
// ShareableContact parameter Contact.
type c06EqSummary struct{ Key, Contact int }

// c06KeyEqSummary computes the key-equality summaries of module function g (error result
// required: its nil error is the accepting outcome). Helpers of helpers are followed to depth.
func c06KeyEqSummary(w *World, g *ssa.Function, depth int, busy map[*ssa.Function]bool) []c06EqSummary {
	if g == nil || g.Blocks == nil || busy[g] || depth <= 0 || errResultIndex(g.Signature) < 0 {
		return nil
	}
	busy[g] = true
	defer delete(busy, g)
	wk := c06NewWalker(w, map[*ssa.Function]bool{g: true}, nil)
	lbl := func(i int) string { return fmt.Sprintf("A%d", i) }
	for i, p := range g.Params {
		wk.stop[p] = lbl(i)
	}
	// which parameter (alone) a value derives from; pkOf: through the Pk field of a ShareableContact
	classify := func(v ssa.Value) (keyOf, pkOf int) {
		keyOf, pkOf = -1, -1
		p := wk.prov(v)
		n := 0
		for i := range g.Params {
			whole, pk := p.has(lbl(i)), p.has(lbl(i)+".Pk") && p.has("field:ShareableContact.Pk")
			if whole || pk || p.hasPrefix(lbl(i)+".") || p.hasPrefix(lbl(i)+"[") {
				n++
			}
			if whole {
				keyOf = i
			}
			if pk && !whole {
				pkOf = i
			}
		}
		if n != 1 || p.has("net") {
			return -1, -1
		}
		if pkOf >= 0 {
			keyOf = -1
		}
		return keyOf, pkOf
	}
	guards := func(acc []edge, verdicts []ssa.Value) bool {
		return len(acc) > 0 && len(c06BypassReturns(g, acc, verdicts)) == 0 || len(acc) == 0 && len(verdicts) > 0 && len(c06BypassReturns(g, nil, verdicts)) == 0
	}
	seen := map[c06EqSummary]bool{}
	var out []c06EqSummary
	add := func(s c06EqSummary) {
		if !seen[s] {
			seen[s] = true
			out = append(out, s)
		}
	}
	for _, cmp := range c06Comparisons(g, true) {
		kx, px := classify(cmp.X)
		ky, py := classify(cmp.Y)
		var s c06EqSummary
		switch {
		case kx >= 0 && py >= 0 && kx != py:
			s = c06EqSummary{kx, py}
		case ky >= 0 && px >= 0 && ky != px:
			s = c06EqSummary{ky, px}
		default:
			continue
		}
		if guards(cmp.Eq, nil) {
			add(s)
		}
	}
	// a helper of the helper, given this function's own parameters
	for _, b := range g.Blocks {
		for _, in := range b.Instrs {
			call, ok := in.(*ssa.Call)
			if !ok {
				continue
			}
			g2 := staticCallee(call.Common())
			if g2 == nil || g2 == g || g2.Blocks == nil || !inModule(g2) {
				continue
			}
			args := call.Common().Args
			for _, sm := range c06KeyEqSummary(w, g2, depth-1, busy) {
				if sm.Key >= len(args) || sm.Contact >= len(args) {
					continue
				}
				k, _ := classify(args[sm.Key])
				cp, ok := stripConv(args[sm.Contact]).(*ssa.Parameter)
				if k < 0 || !ok {
					continue
				}
				ci := -1
				for i, p := range g.Params {
					if p == cp {
						ci = i
					}
				}
				v := errVerdict(call)
				if ci < 0 || ci == k || v == nil {
					continue
				}
				if guards(edgesOfVerdict(v).Accept, []ssa.Value{v}) {
					add(c06EqSummary{k, ci})
				}
			}
		}
	}
	return out
}

func c06SortedFuncs(m map[*ssa.Function]bool) []*ssa.Function {
	out := make([]*ssa.Function, 0, len(m))
	for f := range m {
		out = append(out, f)
	}
	sort.Slice(out, func(i, j int) bool { return out[i].String() < out[j].String() })
	return out
}

// c06Cmp is an equality test with the CFG edges taken when the operands are equal / differ.
type c06Cmp struct {
	In     ssa.Instruction
	X, Y   ssa.Value
	Eq, Ne []edge
}

// c06Comparisons lists the equality tests of fn: bytes.Equal, subtle.ConstantTimeCompare,
// PubKey.Equals / crypto.KeyEqual and == / != on arrays (and on strings when withStrings).
func c06Comparisons(fn *ssa.Function, withStrings bool) []c06Cmp {
	var out []c06Cmp
	for _, b := range fn.Blocks {
		for _, in := range b.Instrs {
			switch u := in.(type) {
			case *ssa.Call:
				cc := u.Common()
				var x, y ssa.Value
				viaInt := false
				switch k := calleeKey(cc); {
				case k == "bytes.Equal" && len(cc.Args) == 2:
					x, y = cc.Args[0], cc.Args[1]
				case k == "crypto/subtle.ConstantTimeCompare" && len(cc.Args) == 2:
					x, y, viaInt = cc.Args[0], cc.Args[1], true
				case k == "("+c06PubKeyT+").Equals" && len(cc.Args) == 1:
					x, y = cc.Value, cc.Args[0]
				case k == "github.com/libp2p/go-libp2p/core/crypto.KeyEqual" && len(cc.Args) == 2:
					x, y = cc.Args[0], cc.Args[1]
				default:
					continue
				}
				cmp := c06Cmp{In: in, X: x, Y: y}
				if viaInt {
					cmp.Eq, cmp.Ne = c06IntOneEdges(u)
				} else {
					ve := edgesOfVerdict(u)
					cmp.Eq, cmp.Ne = ve.Accept, ve.Reject
				}
				out = append(out, cmp)
			case *ssa.BinOp:
				if u.Op != token.EQL && u.Op != token.NEQ {
					continue
				}
				okT := false
				switch t := u.X.Type().Underlying().(type) {
				case *types.Array:
					okT = true
				case *types.Basic:
					okT = withStrings && t.Info()&types.IsString != 0
				}
				if !okT {
					continue
				}
				ve := edgesOfVerdict(u)
				cmp := c06Cmp{In: in, X: u.X, Y: u.Y, Eq: ve.Accept, Ne: ve.Reject}
				if u.Op == token.NEQ {
					cmp.Eq, cmp.Ne = ve.Reject, ve.Accept
				}
				out = append(out, cmp)
			}
		}
	}
	return out
}

// c06IntOneEdges: edges taken when int value v (result of ConstantTimeCompare) is 1 / is 0.
func c06IntOneEdges(v ssa.Value) (eq, ne []edge) {
	if v.Referrers() == nil {
		return nil, nil
	}
	for _, r := range *v.Referrers() {
		bo, ok := r.(*ssa.BinOp)
		if !ok || (bo.Op != token.EQL && bo.Op != token.NEQ) {
			continue
		}
		other := bo.Y
		if bo.Y == v {
			other = bo.X
		}
		n, isC := constInt(other)
		if !isC || (n != 0 && n != 1) {
			continue
		}
		// bo true means "equal inputs" when (== 1) or (!= 0)
		equalOnTrue := (bo.Op == token.EQL) == (n == 1)
		ve := edgesOfVerdict(bo)
		if equalOnTrue {
			eq, ne = append(eq, ve.Accept...), append(ne, ve.Reject...)
		} else {
			eq, ne = append(eq, ve.Reject...), append(ne, ve.Accept...)
		}
	}
	return eq, ne
}
